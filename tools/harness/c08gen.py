"""Typed query generator + table-content generator + result oracle for C08 (federated plan == original query)."""
import itertools

COLS = ['id', 'x', 'y']
SCHEMA = {'int1': {'ta': COLS, 'tb': COLS}, 'int2': {'tc': COLS, 'td': COLS}, 'int3': {'te': COLS, 'tf': COLS}}
TABLES = [(i, t) for i in SCHEMA for t in SCHEMA[i]]

CATALOGS = {
    'names': dict(integrations=['int1', 'int2', 'int3']),
    'default': dict(integrations=[{'name': 'int1', 'type': 'data'}, {'name': 'int2', 'type': 'data'},
                                  {'name': 'int3', 'type': 'data'}], default_namespace='int1'),
    'api3': dict(integrations=['int1', 'int2', {'name': 'int3', 'type': 'data', 'class_type': 'api'}]),
    'project': dict(integrations=['int1', 'int2', 'int3', {'name': 'proj', 'type': 'project'}],
                    default_namespace='mindsdb'),
}
JOIN_KINDS = ['JOIN', 'INNER JOIN', 'LEFT JOIN', 'LEFT JOIN', 'RIGHT JOIN', 'FULL JOIN', 'LEFT OUTER JOIN', 'FULL OUTER JOIN']
CMP = ['=', '<>', '<', '>', '<=', '>=']
ALIASES = ['p', 'q', 'r', 's', 'u', 'v']


# ----------------------------------------------------------------------------- names that need quoting (round 6)
# The generators write LOGICAL words (tables ta…tf, columns id x y, aliases p q r s u v, a b, w); a naming maps some of them
# to the names the engines really use.  `rename` rewrites a generated text word by word into back-quoted real names, the
# executor's World creates its tables with the same real names.  Naming 0 is the identity.
NAMINGS = [
    {},
    # a dotted column name whose prefix is a usual alias and whose suffix is a sibling column
    {'id': 'p.x'},
    # … whose prefix is a table name; a dotted name that is nobody's qualifier
    {'x': 'ta.y', 'y': 'a.b'},
    # space, upper case, keywords, leading digit
    {'id': 'my id', 'x': 'Upper X', 'y': 'order'},
    {'id': 'select', 'x': '1st', 'y': 'x-y'},
    # table names
    {'ta': 'my tab', 'tb': 'tb.x', 'tc': 'Order', 'td': 'select', 'te': 'T e', 'tf': 'group'},
    # aliases
    {'p': 'a b', 'q': 'p.q', 'r': 'Select', 's': 'from', 'u': 'U', 'v': 'v-w', 'a': 'a.id', 'b': 'B b', 'w': 'with w'},
    # everything at once
    {'id': 'q.id', 'x': 'x y', 'y': 'y.x', 'ta': 'ta.id', 'tc': 't c', 'te': 'Te', 'p': 'p.x', 'q': 'Q', 's': 's.id', 'u': 'group'},
]
NAMING_FEATS = ['plain', 'dot-alias-col', 'dot-table-col', 'space-upper-keyword', 'keyword-digit-dash', 'table-names', 'alias-names', 'all']


def bq(name):
    return '`%s`' % name.replace('`', '``')


def rename(text, naming):
    """rewrite every logical word of a generated SQL text that the naming maps"""
    import re
    m = naming if isinstance(naming, dict) else NAMINGS[naming]
    if not m or text is None:
        return text
    return re.sub(r'(?<![\w`])(%s)(?![\w`])' % '|'.join(sorted(map(re.escape, m), key=len, reverse=True)),
                  lambda g_: bq(m[g_.group(1)]), text)


def renamed(q, naming):
    """the same query under a naming (contents / q.tables stay logical)"""
    if not naming:
        return q
    return Q(q.kind, q.catalog, rename(q.body, naming), q.order_pos, rename(q.order_sql, naming), q.limit, q.offset, q.tables,
             q.feats + ['naming:' + NAMING_FEATS[naming]], rename(q.ref_body, naming), naming)


class Q:
    """a generated query: text with and without the top-level LIMIT/OFFSET, and what fixes the order"""
    def __init__(self, kind, catalog, body, order_pos=(), order_sql='', limit=None, offset=None, tables=(), feats=(),
                 ref_body=None, naming=0):
        self.naming = naming
        self.kind, self.catalog, self.body = kind, catalog, body
        self.order_pos, self.order_sql, self.limit, self.offset = list(order_pos), order_sql, limit, offset
        self.tables = list(tables)
        self.feats = list(feats)
        # the same query as the single reference engine (sqlite) reads it, when the spelling differs (parenthesised
        # operands of set operations, `OFFSET n` without LIMIT)
        self.ref_body = ref_body

    @property
    def nolimit_sql(self):
        return (self.ref_body or self.body) + self.order_sql

    @property
    def sql(self):
        s = self.body + self.order_sql
        if self.limit is not None:
            s += ' LIMIT %d' % self.limit
            if self.offset is not None:
                s += ' OFFSET %d' % self.offset
        return s

    def to_json(self):
        return dict(kind=self.kind, catalog=self.catalog, body=self.body, order_pos=self.order_pos,
                    order_sql=self.order_sql, limit=self.limit, offset=self.offset,
                    tables=[list(t) for t in self.tables], feats=self.feats, ref_body=self.ref_body, naming=self.naming)

    @staticmethod
    def from_json(d):
        return Q(d['kind'], d['catalog'], d['body'], [tuple(p) if isinstance(p, list) else p for p in d['order_pos']],
                 d['order_sql'], d['limit'], d['offset'], [tuple(t) for t in d['tables']], d.get('feats', ()),
                 d.get('ref_body'), d.get('naming', 0))


# ----------------------------------------------------------------------------- pieces
def atom(rng, quals, feats, allow_sub=True, sub_tables=None):
    """one boolean atom over the qualifiers `quals` (list of column prefixes like 'p.' or '')"""
    q = rng.choice(quals)
    c = rng.choice(COLS)
    r = rng.random()
    if r < 0.45:
        k = rng.randrange(3)
        op = rng.choice(CMP)
        if rng.random() < 0.12:
            return '%d %s %s%s' % (k, op, q, c)
        return '%s%s %s %d' % (q, c, op, k)
    if r < 0.57:
        feats.append('isnull')
        return '%s%s IS %sNULL' % (q, c, rng.choice(['', 'NOT ']))
    if r < 0.65:
        lo = rng.randrange(2)
        return '%s%s BETWEEN %d AND %d' % (q, c, lo, lo + rng.randrange(2))
    if r < 0.73:
        return '%s%s %sIN (%d, %d)' % (q, c, rng.choice(['', 'NOT ']), rng.randrange(3), rng.randrange(3))
    if r < 0.88 and len(quals) > 1:
        q2 = rng.choice([z for z in quals if z != q])
        return '%s%s %s %s%s' % (q, c, rng.choice(CMP), q2, rng.choice(COLS))
    if allow_sub and sub_tables:
        i, t = rng.choice(sub_tables)
        feats.append('insub')
        w = ''
        if rng.random() < 0.4:
            w = ' WHERE %s %s %d' % (rng.choice(COLS), rng.choice(CMP), rng.randrange(3))
        return '%s%s %sIN (SELECT %s FROM %s.%s%s)' % (q, c, rng.choice(['', '', 'NOT ']), rng.choice(COLS), i, t, w)
    return '%s%s = %d' % (q, c, rng.randrange(3))


def tree(rng, quals, feats, depth, **kw):
    r = rng.random()
    if depth <= 0 or r < 0.45:
        a = atom(rng, quals, feats, **kw)
        if rng.random() < 0.15:
            feats.append('not')
            return ('NOT %s' if rng.random() < 0.5 and ' IN (' not in a and 'BETWEEN' not in a and ' IS ' not in a else 'NOT (%s)') % a
        return a
    if r < 0.75:
        return '%s AND %s' % (wrap(tree(rng, quals, feats, depth - 1, **kw)), wrap(tree(rng, quals, feats, depth - 1, **kw)))
    if r < 0.92:
        feats.append('or')
        return '%s OR %s' % (wrap(tree(rng, quals, feats, depth - 1, **kw)), wrap(tree(rng, quals, feats, depth - 1, **kw)))
    feats.append('not')
    return 'NOT (%s)' % tree(rng, quals, feats, depth - 1, **kw)


def wrap(s):
    return '(%s)' % s if (' AND ' in s or ' OR ' in s) and not s.startswith('NOT (') else s


def pick_tables(rng, n, cat, spread=True):
    ts = rng.sample(TABLES, n)
    if spread and len({i for i, _ in ts}) == 1 and rng.random() < 0.9:
        other = [t for t in TABLES if t[0] != ts[0][0]]
        ts[-1] = rng.choice(other)
    return ts


def table_ref(rng, cat, it, alias):
    i, t = it
    name = '%s.%s' % (i, t)
    if CATALOGS[cat].get('default_namespace') == i and rng.random() < 0.5:
        name = t
    if alias:
        return '%s %s%s' % (name, rng.choice(['AS ', '']), alias)
    return name


def order_limit(rng, ncols, names, feats, p_order=0.4, p_limit=0.4):
    """names[i] = an expression text that denotes output column i (or None)"""
    order_pos, order_sql, limit, offset = [], '', None, None
    if rng.random() < p_order:
        k = 1 if rng.random() < 0.6 else 2
        cand = [i for i in range(ncols) if names[i]]
        rng.shuffle(cand)
        items = []
        for i in cand[:k]:
            desc = rng.random() < 0.4
            order_pos.append(i)
            items.append(names[i] + (' DESC' if desc else ''))
        if items:
            order_sql = ' ORDER BY ' + ', '.join(items)
            feats.append('order')
    if rng.random() < p_limit:
        limit = rng.choice([0, 1, 1, 1, 2, 2, 3])
        feats.append('limit')
        if rng.random() < 0.25:
            offset = rng.choice([0, 1, 1, 2])
            feats.append('offset')
    return order_pos, order_sql, limit, offset


# ----------------------------------------------------------------------------- query kinds
def gen_join(rng, cat):
    feats = []
    n = 2 if rng.random() < 0.72 else 3
    ts = pick_tables(rng, n, cat)
    use_alias = rng.random() < 0.6
    als = rng.sample(ALIASES, n) if use_alias else [None] * n
    quals = [(a or t[1]) + '.' for a, t in zip(als, ts)]
    frm = table_ref(rng, cat, ts[0], als[0])
    kinds = []
    for k in range(1, n):
        jk = rng.choice(JOIN_KINDS)
        kinds.append(jk)
        j = rng.randrange(k)
        c1 = rng.choice(['id', 'id', 'id', 'x', 'y'])
        c2 = rng.choice(['id', 'id', 'id', 'x', 'y'])
        eq = '%s%s = %s%s' % ((quals[k], c1, quals[j], c2) if rng.random() < 0.5 else (quals[j], c2, quals[k], c1))
        r = rng.random()
        if r < 0.62:
            on = eq
        elif r < 0.74:
            feats.append('on-const')
            on = '%s AND %s%s %s %d' % (eq, rng.choice([quals[k], quals[k], quals[j]]), rng.choice(COLS), rng.choice(CMP), rng.randrange(3))
        elif r < 0.80:
            feats.append('on-not')
            on = 'NOT %s' % eq if rng.random() < 0.5 else 'NOT (%s)' % eq
        elif r < 0.86:
            feats.append('on-or')
            on = '%s OR %s%s = %d' % (eq, quals[k], rng.choice(COLS), rng.randrange(3))
        elif r < 0.92:
            feats.append('on-noneq')
            on = '%s%s %s %s%s' % (quals[k], c1, rng.choice(['<', '>', '<>', '<=']), quals[j], c2)
        else:
            feats.append('on-two-eq')
            on = '%s AND %s%s = %s%s' % (eq, quals[k], rng.choice(COLS), quals[j], rng.choice(COLS))
        frm += ' %s %s ON %s' % (jk, table_ref(rng, cat, ts[k], als[k]), on)
    feats += ['join:' + k for k in kinds]
    allcols = [(q, c) for q in quals for c in COLS]
    where = ''
    if rng.random() < 0.6:
        sub_tables = [t for t in TABLES if t not in ts]
        where = ' WHERE ' + tree(rng, quals, feats, rng.choice([0, 0, 1, 1, 2]), sub_tables=sub_tables)
        feats.append('where')
    r = rng.random()
    if r < 0.15:
        # GROUP BY
        feats.append('group')
        g = rng.sample(allcols, rng.choice([1, 1, 2]))
        aggs = []
        for _ in range(rng.choice([1, 1, 2])):
            f = rng.choice(['count(*)', 'sum', 'min', 'max', 'count'])
            if f != 'count(*)':
                q, c = rng.choice(allcols)
                f = '%s(%s%s)' % (f, q, c)
            aggs.append(f)
        tg = ['%s%s' % gc for gc in g] + ['%s AS n%d' % (a, i) for i, a in enumerate(aggs)]
        names = ['%s%s' % gc for gc in g] + ['n%d' % i for i in range(len(aggs))]
        having = ''
        if rng.random() < 0.3:
            feats.append('having')
            having = ' HAVING %s %s %d' % (aggs[0], rng.choice(CMP), rng.randrange(3))
        body = 'SELECT %s FROM %s%s GROUP BY %s%s' % (', '.join(tg), frm, where, ', '.join('%s%s' % gc for gc in g), having)
    else:
        distinct = ''
        if r < 0.27:
            distinct = 'DISTINCT '
            feats.append('distinct')
        r2 = rng.random()
        if r2 < 0.3:
            tg, names = ['*'], ['%s%s' % qc for qc in allcols]
        elif r2 < 0.4:
            k = rng.randrange(n)
            tg, names = ['%s*' % quals[k]], ['%s%s' % (quals[k], c) for c in COLS]
        else:
            sel = rng.sample(allcols, rng.choice([1, 2, 2, 3]))
            tg, names = [], []
            for i, qc in enumerate(sel):
                if rng.random() < 0.3:
                    tg.append('%s%s AS k%d' % (qc + (i,)))
                    names.append(rng.choice(['k%d' % i, '%s%s' % qc]))
                else:
                    tg.append('%s%s' % qc)
                    names.append('%s%s' % qc)
            if rng.random() < 0.1:
                feats.append('agg-nogroup')
                tg, names = ['count(*) AS n0', 'max(%s%s) AS n1' % rng.choice(allcols)], ['n0', 'n1']
        body = 'SELECT %s%s FROM %s%s' % (distinct, ', '.join(tg), frm, where)
    op, osql, lim, off = order_limit(rng, len(names), names, feats)
    return Q('join', cat, body, op, osql, lim, off, ts, feats)


def single_select(rng, cat, it, feats, alias=None, allow_sub=True, cols=None, where_p=0.6):
    """SELECT over one table; returns (text, n_output_cols, names)"""
    q = (alias + '.') if alias and rng.random() < 0.7 else ''
    sub_tables = [t for t in TABLES if t[0] != it[0]]
    where = ''
    if rng.random() < where_p:
        where = ' WHERE ' + tree(rng, [q], feats, rng.choice([0, 1, 1, 2]), allow_sub=allow_sub, sub_tables=sub_tables)
    if cols is None:
        if rng.random() < 0.35:
            tg, names = ['*'], [q + c for c in COLS]
        else:
            sel = rng.sample(COLS, rng.choice([1, 2, 3]))
            tg, names = [q + c for c in sel], [q + c for c in sel]
    else:
        tg, names = [q + c for c in cols], [q + c for c in cols]
    return 'SELECT %s FROM %s%s' % (', '.join(tg), table_ref(rng, cat, it, alias), where), names


def gen_insub(rng, cat):
    feats = ['single']
    it = rng.choice(TABLES)
    alias = rng.choice(ALIASES) if rng.random() < 0.4 else None
    q = (alias + '.') if alias else ''
    sub_tables = [t for t in TABLES if t[0] != it[0]]
    a = atom_insub(rng, q, sub_tables, feats)
    r = rng.random()
    if r < 0.4:
        w = a
    elif r < 0.7:
        w = '%s AND %s' % (a, wrap(tree(rng, [q], feats, 1, sub_tables=sub_tables)))
    elif r < 0.9:
        feats.append('or')
        w = '%s OR %s' % (a, wrap(tree(rng, [q], feats, 1, sub_tables=sub_tables)))
    else:
        feats.append('not')
        w = 'NOT (%s)' % a
    if rng.random() < 0.2:
        feats.append('group')
        body = 'SELECT %sx, count(*) AS n0 FROM %s WHERE %s GROUP BY %sx' % (q, table_ref(rng, cat, it, alias), w, q)
        names = [q + 'x', 'n0']
    else:
        sel = COLS if rng.random() < 0.4 else rng.sample(COLS, 2)
        body = 'SELECT %s FROM %s WHERE %s' % (', '.join(q + c for c in sel) if sel is not COLS or rng.random() < 0.5 else '*',
                                               table_ref(rng, cat, it, alias), w)
        names = [q + c for c in sel]
    op, osql, lim, off = order_limit(rng, len(names), names, feats)
    return Q('insub', cat, body, op, osql, lim, off, [it], feats)


def atom_insub(rng, q, sub_tables, feats):
    i, t = rng.choice(sub_tables)
    feats.append('insub')
    w = ''
    r = rng.random()
    if r < 0.4:
        w = ' WHERE %s %s %d' % (rng.choice(COLS), rng.choice(CMP), rng.randrange(3))
    neg = rng.choice(['', '', 'NOT '])
    if neg:
        feats.append('notin')
    if rng.random() < 0.15:
        feats.append('scalar-sub')
        return '%s%s %s (SELECT %s(%s) FROM %s.%s%s)' % (q, rng.choice(COLS), rng.choice(CMP), rng.choice(['max', 'min', 'count']),
                                                        rng.choice(COLS), i, t, w)
    return '%s%s %sIN (SELECT %s FROM %s.%s%s)' % (q, rng.choice(COLS), neg, rng.choice(COLS), i, t, w)


def gen_union(rng, cat):
    feats = []
    a, b = pick_tables(rng, 2, cat)
    k = rng.choice([1, 2, 3])
    ca, cb = rng.sample(COLS, k), rng.sample(COLS, k)
    sa, _ = single_select(rng, cat, a, feats, cols=ca, where_p=0.4)
    sb, _ = single_select(rng, cat, b, feats, cols=cb, where_p=0.4)
    op = rng.choice(['UNION', 'UNION', 'UNION ALL', 'UNION ALL', 'INTERSECT', 'EXCEPT'])
    feats.append('setop:' + op)
    body = '%s %s %s' % (sa, op, sb)
    if rng.random() < 0.2:
        c = rng.choice([t for t in TABLES if t not in (a, b)])
        sc, _ = single_select(rng, cat, c, feats, cols=rng.sample(COLS, k), where_p=0.3)
        op2 = rng.choice(['UNION', 'UNION ALL'])
        body += ' %s %s' % (op2, sc)
        feats.append('setop3')
    return Q('union', cat, body, tables=[a, b], feats=feats)


def gen_cte(rng, cat):
    feats = ['cte']
    a, b = pick_tables(rng, 2, cat)
    # the CTE name may collide with the name of a real table: of the joined table in ANOTHER integration, of its own
    # source table, or of an unrelated table (the qualified reference must still mean the real table)
    r0 = rng.random()
    name, icat = 'w', cat
    if r0 < 0.08:
        # joined table of the SAME integration as the CTE's source, named like the CTE (whole-statement pushdown)
        sib = [t for t in TABLES if t[0] == a[0] and t != a]
        b = rng.choice(sib)
        name, icat = b[1], 'names'
        feats.append('cte-name=joined-table')
        feats.append('cte-same-integration')
    elif r0 < 0.3:
        name, icat = b[1], 'names'
        feats.append('cte-name=joined-table')
    elif r0 < 0.42:
        name, icat = a[1], 'names'
        feats.append('cte-name=source-table')
    elif r0 < 0.5:
        name, icat = rng.choice([t for t in TABLES if t not in (a, b)])[1], 'names'
        feats.append('cte-name=other-table')
    inner, _ = single_select(rng, icat, a, feats, cols=COLS, where_p=0.4, allow_sub=False)
    if rng.random() < 0.4 and 'cte-name=joined-table' not in feats:
        w = ''
        if rng.random() < 0.5:
            w = ' WHERE ' + tree(rng, [name + '.'], feats, 1, allow_sub=False)
        sel = rng.sample(COLS, 2)
        body = 'WITH %s AS (%s) SELECT %s FROM %s%s' % (name, inner, ', '.join(name + '.' + c for c in sel), name, w)
        names = [name + '.' + c for c in sel]
    else:
        feats.append('cte-join')
        al = rng.choice(ALIASES)
        jk = rng.choice(JOIN_KINDS)
        w = ''
        if rng.random() < 0.5:
            w = ' WHERE ' + tree(rng, [name + '.', al + '.'], feats, 1, allow_sub=False)
        ref = '%s.%s AS %s' % (b[0], b[1], al) if name != 'w' else table_ref(rng, cat, b, al)
        if rng.random() < 0.5:
            body = 'WITH %s AS (%s) SELECT %s.x, %s.y FROM %s %s %s ON %s.id = %s.id%s' % (
                name, inner, name, al, name, jk, ref, name, al, w)
        else:
            body = 'WITH %s AS (%s) SELECT %s.x, %s.y FROM %s %s %s ON %s.id = %s.id%s' % (
                name, inner, name, al, ref, jk, name, name, al, w)
        names = [name + '.x', al + '.y']
    op, osql, lim, off = order_limit(rng, len(names), names, feats, 0.3, 0.3)
    return Q('cte', cat, body, op, osql, lim, off, [a, b], feats)


def gen_chain(rng, cat):
    """left-deep chains of 3-4 tables with mixed join kinds; WHERE is a conjunction of per-table tests with many
    `IS [NOT] NULL` (the filters whose pushdown depends on which tables of the chain a later outer join pads with NULLs)"""
    feats = ['chain']
    n = 3 if rng.random() < 0.7 else 4
    ts = pick_tables(rng, n, cat)
    als = rng.sample(ALIASES, n)
    quals = [a + '.' for a in als]
    frm = table_ref(rng, cat, ts[0], als[0])
    kinds = []
    # 'same-key': every join points at the SAME-NAMED column of its direct predecessor (a.k, then b.k, …) through another
    # column of its own, and no join is RIGHT / FULL: the value lists of the semi-join filters come from different tables
    same_key = rng.random() < 0.3
    key = rng.choice(['id', 'id', 'x'])
    if same_key:
        feats.append('same-key')
    for k in range(1, n):
        jk = rng.choice(['JOIN', 'INNER JOIN', 'LEFT JOIN', 'LEFT OUTER JOIN', 'RIGHT JOIN', 'RIGHT JOIN', 'FULL JOIN',
                         'FULL OUTER JOIN'])
        if same_key:
            jk = rng.choice(['JOIN', 'INNER JOIN', 'LEFT JOIN', 'LEFT OUTER JOIN'])
        kinds.append(jk)
        j = rng.randrange(k)
        c1, c2 = rng.choice(['id', 'id', 'id', 'x']), rng.choice(['id', 'id', 'id', 'x'])
        if same_key:
            j, c2, c1 = k - 1, key, rng.choice([c for c in COLS if c != key])
        on = '%s%s = %s%s' % ((quals[k], c1, quals[j], c2) if rng.random() < 0.5 else (quals[j], c2, quals[k], c1))
        if rng.random() < 0.15:
            on += ' AND %s%s %s %d' % (rng.choice([quals[k], quals[j]]), rng.choice(COLS), rng.choice(CMP), rng.randrange(3))
        frm += ' %s %s ON %s' % (jk, table_ref(rng, cat, ts[k], als[k]), on)
    feats += ['join:' + k for k in kinds]
    conj = []
    for _ in range(rng.choice([1, 1, 2, 2, 3])):
        q, c = rng.choice(quals), rng.choice(COLS)
        r = rng.random()
        if r < 0.5:
            conj.append('%s%s IS NULL' % (q, c))
            feats.append('isnull')
        elif r < 0.65:
            conj.append('%s%s IS NOT NULL' % (q, c))
        elif r < 0.9:
            conj.append('%s%s %s %d' % (q, c, rng.choice(CMP), rng.randrange(3)))
        else:
            conj.append('NOT (%s%s = %d)' % (q, c, rng.randrange(3)))
    where = ' WHERE ' + ' AND '.join(conj) if rng.random() < 0.9 else ''
    allcols = [(q, c) for q in quals for c in COLS]
    if rng.random() < 0.5:
        tg, names = ['*'], ['%s%s' % qc for qc in allcols]
    else:
        sel = rng.sample(allcols, rng.choice([2, 3, 4]))
        tg = names = ['%s%s' % qc for qc in sel]
    body = 'SELECT %s FROM %s%s' % (', '.join(tg), frm, where)
    op, osql, lim, off = order_limit(rng, len(names), names, feats, 0.2, 0.15)
    return Q('chain', cat, body, op, osql, lim, off, ts, feats)


def gen_contents_match(rng, tables, maxrows):
    """contents for join chains: keys mostly equal so that rows really join; other columns rarely NULL"""
    out = {}
    for it in tables:
        n = rng.choice([1, 1, maxrows, maxrows, 0]) if maxrows > 1 else rng.choice([1, 1, 0])
        out[it] = [(rng.choice([1, 1, 1, 2, None]), rng.choice([1, 1, 0, 2, None]), rng.choice([0, 1, 2, None]))
                   for _ in range(n)]
    return out


def gen_orderlimit(rng, cat):
    """LEFT-join chains with a multi-key ORDER BY (keys from different tables, ASC/DESC mixes) and LIMIT; meant to be run
    on contents with ties in the leading key (feature 'ties')"""
    feats = ['ties', 'order', 'limit']
    n = 2 if rng.random() < 0.7 else 3
    ts = pick_tables(rng, n, cat)
    als = rng.sample(ALIASES, n)
    quals = [a + '.' for a in als]
    frm = table_ref(rng, cat, ts[0], als[0])
    for k in range(1, n):
        jk = rng.choice(['LEFT JOIN', 'LEFT JOIN', 'LEFT JOIN', 'LEFT OUTER JOIN', 'JOIN'])
        feats.append('join:' + jk)
        j = rng.randrange(k)
        frm += ' %s %s ON %s%s = %s%s' % (jk, table_ref(rng, cat, ts[k], als[k]), quals[k], rng.choice(['id', 'id', 'x']),
                                        quals[j], rng.choice(['id', 'id', 'x']))
    allcols = [(q, c) for q in quals for c in COLS]
    if rng.random() < 0.5:
        tg, names = ['*'], ['%s%s' % qc for qc in allcols]
    else:
        sel = rng.sample(allcols, rng.choice([2, 3, 4]))
        tg = names = ['%s%s' % qc for qc in sel]
    # leading key(s) from the first table, then a key of another table
    first = [i for i, nm in enumerate(names) if nm.startswith(quals[0])]
    other = [i for i, nm in enumerate(names) if not nm.startswith(quals[0])]
    if not first or not other:
        tg, names = ['*'], ['%s%s' % qc for qc in allcols]
        first = [i for i, nm in enumerate(names) if nm.startswith(quals[0])]
        other = [i for i, nm in enumerate(names) if not nm.startswith(quals[0])]
    pos = [rng.choice(first)]
    if rng.random() < 0.3:
        pos.append(rng.choice(first))
    pos.append(rng.choice(other))
    if rng.random() < 0.3:
        pos.append(rng.choice(first + other))
    seen, order_pos, items = set(), [], []
    for i in pos:
        if i in seen:
            continue
        seen.add(i)
        order_pos.append(i)
        items.append(names[i] + rng.choice(['', '', ' DESC', ' ASC']))
    where = ''
    if rng.random() < 0.2:
        where = ' WHERE %s%s %s %d' % (quals[0], rng.choice(COLS), rng.choice(CMP), rng.randrange(3))
    body = 'SELECT %s FROM %s%s' % (', '.join(tg), frm, where)
    lim = rng.choice([1, 1, 2, 2, 3])
    off = rng.choice([None, None, None, 1])
    return Q('orderlimit', cat, body, order_pos, ' ORDER BY ' + ', '.join(items), lim, off, ts, feats)


def gen_cte_collide(rng, cat):
    """a CTE named like a REAL table of another integration; the real table is referenced with its integration in every
    table position the probe knows (plain FROM, nested FROM, join operand, IN / scalar sub-query, UNION side; EXISTS over a planned
    sub-query has no documented step meaning and is not generated), the
    CTE is defined over a different table (so the rows differ) and is itself used or not"""
    feats = ['cte', 'cte-collide']
    T = rng.choice(TABLES)                                   # the real table, always written intK.name
    A = rng.choice([t for t in TABLES if t[0] != T[0]])      # source of the CTE
    B = rng.choice([t for t in TABLES if t not in (T, A)])   # a third table
    name = T[1]
    real = '%s.%s' % T
    cw = ''
    if rng.random() < 0.3:
        cw = ' WHERE %s %s %d' % (rng.choice(COLS), rng.choice(CMP), rng.randrange(3))
    cte = 'WITH %s AS (SELECT id, x, y FROM %s.%s%s) ' % (name, A[0], A[1], cw)
    tabs = [A, T]
    use_cte_sub = ''          # an extra conjunct that really uses the CTE
    if rng.random() < 0.5:
        use_cte_sub = '%s %sIN (SELECT %s FROM %s)' % ('%s' + rng.choice(COLS), rng.choice(['', 'NOT ']), rng.choice(COLS), name)
        feats.append('cte-used-in-subquery')

    def where(quals, extra=None):
        parts = []
        if rng.random() < 0.5:
            parts.append(wrap(tree(rng, quals, feats, rng.choice([0, 1]), allow_sub=False)))
        if extra:
            parts.append(extra)
        if use_cte_sub and rng.random() < 0.8:
            parts.append(use_cte_sub % rng.choice(quals))
        return (' WHERE ' + ' AND '.join(parts)) if parts else ''

    pos = rng.choice(['plain', 'plain', 'nested', 'nested', 'join-right', 'join-left', 'join-with-cte', 'in', 'in', 'in',
                      'scalar', 'union-right', 'union-left', 'union-with-cte'])
    feats.append('pos:' + pos)
    names = None
    if pos == 'plain':
        al = rng.choice(ALIASES + [None, None])
        q = (al or name) + '.'
        sel = rng.sample(COLS, rng.choice([1, 2, 3]))
        body = 'SELECT %s FROM %s%s%s' % (', '.join(q + c for c in sel), real, (' AS ' + al) if al else '', where([q]))
        names = [q + c for c in sel]
    elif pos == 'nested':
        iw = ''
        if rng.random() < 0.4:
            iw = ' WHERE %s %s %d' % (rng.choice(COLS), rng.choice(CMP), rng.randrange(3))
        sel = rng.sample(COLS, rng.choice([1, 2, 3]))
        body = 'SELECT %s FROM (SELECT id, x, y FROM %s%s) AS s%s' % (', '.join('s.' + c for c in sel), real, iw, where(['s.']))
        names = ['s.' + c for c in sel]
    elif pos in ('join-right', 'join-left', 'join-with-cte'):
        jk = rng.choice(JOIN_KINDS)
        feats.append('join:' + jk)
        if pos == 'join-with-cte':
            left, lq = name, name + '.'
        else:
            left, lq = '%s.%s AS a' % B, 'a.'
            tabs.append(B)
        if pos == 'join-left':
            frm = '%s AS b %s %s ON %sid = b.id' % (real, jk, left, lq)
        else:
            frm = '%s %s %s AS b ON %sid = b.id' % (left, jk, real, lq)
        body = 'SELECT %sx, b.y FROM %s%s' % (lq, frm, where([lq, 'b.']))
        names = [lq + 'x', 'b.y']
    elif pos in ('in', 'scalar'):
        tabs.append(B)
        iw = ''
        if rng.random() < 0.4:
            iw = ' WHERE %s %s %d' % (rng.choice(COLS), rng.choice(CMP), rng.randrange(3))
        if pos == 'in':
            cond = 'a.%s %sIN (SELECT %s FROM %s%s)' % (rng.choice(COLS), rng.choice(['', '', 'NOT ']), rng.choice(COLS), real, iw)
        else:
            cond = 'a.%s %s (SELECT %s(%s) FROM %s%s)' % (rng.choice(COLS), rng.choice(CMP), rng.choice(['max', 'min', 'count']),
                                                          rng.choice(COLS), real, iw)
        sel = rng.sample(COLS, 2)
        body = 'SELECT %s FROM %s.%s AS a%s' % (', '.join('a.' + c for c in sel), B[0], B[1], where(['a.'], cond))
        names = ['a.' + c for c in sel]
    else:
        k = rng.choice([1, 2, 3])
        c1, c2 = rng.sample(COLS, k), rng.sample(COLS, k)
        side_real = 'SELECT %s FROM %s' % (', '.join(c2), real)
        if pos == 'union-with-cte':
            other = 'SELECT %s FROM %s' % (', '.join(c1), name)
        else:
            other = 'SELECT %s FROM %s.%s' % (', '.join(c1), B[0], B[1])
            tabs.append(B)
        op = rng.choice(['UNION', 'UNION ALL', 'UNION ALL'])
        body = ('%s %s %s' % (side_real, op, other)) if pos == 'union-left' else ('%s %s %s' % (other, op, side_real))
        return Q('cte', cat, cte + body, tables=tabs, feats=feats)
    op, osql, lim, off = order_limit(rng, len(names), names, feats, 0.25, 0.2)
    return Q('cte', cat, cte + body, op, osql, lim, off, tabs, feats)


def gen_nested(rng, cat):
    feats = ['nested']
    r = rng.random()
    if r < 0.35:
        # nested select over one table, outer filter / group / order / limit
        a = rng.choice(TABLES)
        inner, _ = single_select(rng, cat, a, feats, cols=COLS, where_p=0.5)
        tabs = [a]
        quals = ['s.']
        frm = '(%s) AS s' % inner
    elif r < 0.65:
        # nested join inside
        feats.append('nested-join')
        a, b = pick_tables(rng, 2, cat)
        jk = rng.choice(JOIN_KINDS)
        w = ''
        if rng.random() < 0.5:
            w = ' WHERE ' + tree(rng, ['p.', 'q.'], feats, 1, allow_sub=False)
        lim = ''
        inner = 'SELECT p.id AS id, p.x AS x, q.y AS y FROM %s %s %s ON p.id = q.id%s%s' % (
            table_ref(rng, cat, a, 'p'), jk, table_ref(rng, cat, b, 'q'), w, lim)
        tabs = [a, b]
        quals = ['s.']
        frm = '(%s) AS s' % inner
    else:
        # nested select joined with a table
        feats.append('subselect-in-join')
        a, b = pick_tables(rng, 2, cat)
        inner, _ = single_select(rng, cat, a, feats, cols=COLS, where_p=0.5, allow_sub=False)
        jk = rng.choice(JOIN_KINDS)
        feats.append('join:' + jk)
        tabs = [a, b]
        quals = ['s.', 'r.']
        if rng.random() < 0.5:
            frm = '(%s) AS s %s %s ON s.id = r.id' % (inner, jk, table_ref(rng, cat, b, 'r'))
        else:
            quals = ['r.', 's.']
            frm = '%s %s (%s) AS s ON s.id = r.id' % (table_ref(rng, cat, b, 'r'), jk, inner)
    allcols = [(q, c) for q in quals for c in COLS]
    where = ''
    if rng.random() < 0.6:
        where = ' WHERE ' + tree(rng, quals, feats, rng.choice([0, 1, 1]), allow_sub=False)
        feats.append('where')
    if rng.random() < 0.15:
        feats.append('group')
        g = rng.choice(allcols)
        body = 'SELECT %s%s, count(*) AS n0 FROM %s%s GROUP BY %s%s' % (g + (frm, where) + g)
        names = ['%s%s' % g, 'n0']
    else:
        sel = rng.sample(allcols, rng.choice([1, 2, 3]))
        if rng.random() < 0.25 and len(quals) == 1:
            body = 'SELECT * FROM %s%s' % (frm, where)
            names = ['s.' + c for c in COLS]
        else:
            body = 'SELECT %s FROM %s%s' % (', '.join('%s%s' % qc for qc in sel), frm, where)
            names = ['%s%s' % qc for qc in sel]
    op, osql, lim, off = order_limit(rng, len(names), names, feats, 0.3, 0.3)
    return Q('nested', cat, body, op, osql, lim, off, tabs, feats)


def gen_api(rng, cat):
    feats = ['api']
    it = rng.choice([('int3', 'te'), ('int3', 'tf')])
    alias = None
    w = ''
    if rng.random() < 0.6:
        w = ' WHERE ' + tree(rng, [''], feats, 1, allow_sub=False)
    r = rng.random()
    if r < 0.25:
        feats.append('group')
        g = rng.choice(COLS)
        body = 'SELECT %s, count(*) AS n0 FROM %s%s GROUP BY %s' % (g, table_ref(rng, cat, it, alias), w, g)
        names = [g, 'n0']
    elif r < 0.35:
        feats.append('distinct')
        c = rng.choice(COLS)
        body = 'SELECT DISTINCT %s FROM %s%s' % (c, table_ref(rng, cat, it, alias), w)
        names = [c]
    else:
        sel = rng.sample(COLS, rng.choice([1, 2, 3]))
        body = 'SELECT %s FROM %s%s' % (', '.join(sel) if rng.random() < 0.7 else '*', table_ref(rng, cat, it, alias), w)
        names = sel if 'SELECT *' not in body else COLS
    op, osql, lim, off = order_limit(rng, len(names), names, feats, 0.4, 0.5)
    return Q('api', cat, body, op, osql, lim, off, [it], feats)


# ----------------------------------------------------------------------------- select lists with aggregates at any depth
AGG_NAMES = ['count', 'sum', 'min', 'max', 'COUNT', 'Sum', 'MIN', 'Max', 'avg']


def row_expr(rng, cols, depth):
    """a row-level (aggregate-free) expression over the column texts `cols`"""
    r = rng.random()
    if depth <= 0 or r < 0.35:
        return rng.choice(cols) if rng.random() < 0.8 else str(rng.randrange(3))
    a, b = row_expr(rng, cols, depth - 1), row_expr(rng, cols, depth - 1)
    if r < 0.55:
        return '%s %s %s' % (paren(a), rng.choice(['+', '-', '*']), paren(b))
    if r < 0.65:
        return 'abs(%s)' % a
    if r < 0.75:
        return 'coalesce(%s, %s)' % (a, b)
    if r < 0.85:
        return 'CAST(%s AS integer)' % a
    return 'CASE WHEN %s %s %s THEN %s ELSE %s END' % (paren(a), rng.choice(CMP), paren(b), rng.choice(cols), rng.randrange(3))


def paren(e):
    return '(%s)' % e if ' ' in e and not e.startswith('CASE') and not e.startswith('CAST') else e


def agg_call(rng, cols):
    f = rng.choice(AGG_NAMES)
    if f.lower() == 'count' and rng.random() < 0.5:
        return '%s(*)' % f
    return '%s(%s)' % (f, row_expr(rng, cols, rng.choice([0, 0, 1])))


def nested_agg(rng, cols, depth):
    """an expression whose aggregate call(s) are NOT the top node: operand of arithmetic / comparison, argument of a scalar
    function or of CAST, condition / result / default of CASE"""
    a = agg_call(rng, cols) if depth <= 1 or rng.random() < 0.6 else nested_agg(rng, cols, depth - 1)
    k = str(rng.randrange(3))
    r = rng.random()
    if r < 0.2:
        return '%s %s %s' % ((paren(a), rng.choice(['+', '-', '*']), k) if rng.random() < 0.5 else (k, rng.choice(['+', '-', '*']), paren(a)))
    if r < 0.35:
        return '%s %s %s' % (paren(a), rng.choice(['+', '-']), paren(agg_call(rng, cols)))
    if r < 0.5:
        return 'CAST(%s AS integer)' % a
    if r < 0.62:
        return 'abs(%s)' % a
    if r < 0.74:
        return 'coalesce(%s, %s)' % ((a, k) if rng.random() < 0.7 else (rng.choice(['NULL', k]), a))
    if r < 0.82:
        return 'CASE WHEN %s %s %s THEN %s ELSE %s END' % (paren(a), rng.choice(CMP), k, rng.randrange(3), rng.randrange(3))
    if r < 0.9:
        return 'CASE WHEN 1 = %s THEN %s ELSE %s END' % (rng.randrange(2), a, k)
    if r < 0.95:
        return 'CASE WHEN 0 = %s THEN %s ELSE %s END' % (rng.randrange(2), k, a)
    return '%s %s %s' % (paren(a), rng.choice(CMP), k)


def agg_select_list(rng, cols):
    """(target texts, feature): an aggregated select list without GROUP BY; in 'agg-nested-only' NO entry is a bare aggregate"""
    n = rng.choice([1, 1, 2, 2, 3])
    r = rng.random()
    if r < 0.55:
        tg, f = [nested_agg(rng, cols, rng.choice([1, 1, 2])) for _ in range(n)], 'agg-nested-only'
    elif r < 0.85:
        tg = [nested_agg(rng, cols, rng.choice([1, 2]))] + [agg_call(rng, cols) for _ in range(n - 1)]
        rng.shuffle(tg)
        f = 'agg-nested-and-top'
    else:
        tg, f = [agg_call(rng, cols) for _ in range(n)], 'agg-top'
    if rng.random() < 0.35:
        # entries without any column (constants) may stand anywhere beside the aggregates, also first
        for _ in range(rng.choice([1, 1, 2])):
            tg.insert(rng.randrange(len(tg) + 1), row_expr(rng, [str(rng.randrange(3)), 'NULL'], rng.choice([0, 1])))
        f += '+const'
    return tg, f


def gen_aggnest(rng, cat):
    """select-list shapes (aggregate calls at any depth / row-level expressions) x the paths that push LIMIT down: joins whose
    limit pushdown is enabled (LEFT JOIN chains, WHERE absent or evaluated in the first fetch), also other join kinds, and
    selects from an api-type integration"""
    if cat == 'api3' and rng.random() < 0.6:
        return gen_aggnest_api(rng, cat)
    feats = ['aggnest']
    n = 2 if rng.random() < 0.75 else 3
    ts = pick_tables(rng, n, cat)
    als = rng.sample(ALIASES, n)
    quals = [a + '.' for a in als]
    frm = table_ref(rng, cat, ts[0], als[0])
    for k in range(1, n):
        jk = rng.choice(['LEFT JOIN', 'LEFT JOIN', 'LEFT JOIN', 'LEFT JOIN', 'LEFT OUTER JOIN', 'JOIN', 'INNER JOIN', 'RIGHT JOIN', 'FULL JOIN'])
        feats.append('join:' + jk)
        j = rng.randrange(k)
        frm += ' %s %s ON %s%s = %s%s' % (jk, table_ref(rng, cat, ts[k], als[k]), quals[k], rng.choice(['id', 'id', 'id', 'x']),
                                        quals[j], rng.choice(['id', 'id', 'id', 'x']))
    where = ''
    r = rng.random()
    if r < 0.3:
        where = ' WHERE %s%s %s %d' % (quals[0], rng.choice(COLS), rng.choice(CMP), rng.randrange(3))
        feats.append('where')
    elif r < 0.4:
        where = ' WHERE ' + tree(rng, quals, feats, 1, allow_sub=False)
        feats.append('where')
    cols = ['%s%s' % (q, c) for q in quals for c in COLS]
    if rng.random() < 0.6:
        tg, f = agg_select_list(rng, cols)
        feats.append(f)
        names = [None] * len(tg)          # one result row: nothing to order
    else:
        feats.append('rowexpr')
        tg = [row_expr(rng, cols, rng.choice([1, 1, 2])) for _ in range(rng.choice([1, 2, 2, 3]))]
        names = ['k%d' % i for i in range(len(tg))]
    tg = ['%s AS k%d' % (t, i) for i, t in enumerate(tg)]
    body = 'SELECT %s FROM %s%s' % (', '.join(tg), frm, where)
    op, osql, _, _ = order_limit(rng, len(names), names, feats, 0.3, 0.0)
    lim = rng.choice([1, 1, 1, 2, 2, 3, 0])
    off = rng.choice([None, None, None, 0, 1])
    feats.append('limit')
    return Q('aggnest', cat, body, op, osql, lim, off, ts, feats)


def gen_aggnest_api(rng, cat):
    feats = ['aggnest', 'api']
    it = rng.choice([('int3', 'te'), ('int3', 'tf')])
    w = ''
    if rng.random() < 0.4:
        w = ' WHERE %s %s %d' % (rng.choice(COLS), rng.choice(CMP), rng.randrange(3))
    if rng.random() < 0.75:
        tg, f = agg_select_list(rng, COLS)
        feats.append(f)
        names = [None] * len(tg)
    else:
        feats.append('rowexpr')
        tg = [row_expr(rng, COLS, rng.choice([1, 1, 2])) for _ in range(rng.choice([1, 2]))]
        names = ['k%d' % i for i in range(len(tg))]
    tg = ['%s AS k%d' % (t, i) for i, t in enumerate(tg)]
    body = 'SELECT %s FROM %s%s' % (', '.join(tg), table_ref(rng, cat, it, None), w)
    op, osql, _, _ = order_limit(rng, len(names), names, feats, 0.3, 0.0)
    lim = rng.choice([1, 1, 2, 2, 3, 0])
    off = rng.choice([None, None, None, 1])
    feats.append('limit')
    return Q('aggnest', cat, body, op, osql, lim, off, [it], feats)


# ----------------------------------------------------------------------------- set operations with windowed / DISTINCT / grouped operands
SETOPS = ['UNION', 'UNION', 'UNION ALL', 'INTERSECT', 'INTERSECT', 'EXCEPT', 'EXCEPT']


def total_order(rng, names):
    """ORDER BY over ALL output columns (random order and directions): rows that tie are equal, so the rows at any
    LIMIT / OFFSET window are fixed by the query"""
    idx = list(range(len(names)))
    rng.shuffle(idx)
    return ' ORDER BY ' + ', '.join(names[i] + rng.choice(['', '', ' DESC', ' ASC']) for i in idx)


def window(rng, maxrows):
    """(limit, offset): every combination, OFFSET without LIMIT included"""
    r = rng.random()
    if r < 0.4:
        return None, rng.choice([1, 1, 2, 2, 3])
    if r < 0.7:
        return rng.choice([1, 2, 2, 3]), rng.choice([1, 1, 2])
    return rng.choice([1, 2, 2, 3]), None


def setop_operand(rng, cat, it, k, feats, maxrows=4):
    """one operand with k output columns: (mindsdb text, sqlite text, needs parentheses)"""
    r = rng.random()
    if r < 0.15 and 'operand:join' not in feats:      # at most one join operand (the cause analysis reads one join chain)
        # the operand is itself a federated join
        other = rng.choice([t for t in TABLES if t[0] != it[0]])
        jk = rng.choice(['LEFT JOIN', 'LEFT JOIN', 'JOIN'])
        cols = rng.sample([a + c for a in ('p.', 'q.') for c in COLS], k)      # no output column twice
        base = 'SELECT %s%s FROM %s %s %s ON p.id = q.id' % (rng.choice(['', '', 'DISTINCT ']), ', '.join(cols), table_ref(rng, cat, it, 'p'), jk,
                                                              table_ref(rng, cat, other, 'q'))
        feats.append('operand:join')
        names = cols
        extra = [other]
    else:
        extra = []
        cols = rng.sample(COLS, k)
        w = ''
        if rng.random() < 0.2:
            w = ' WHERE %s %s %d' % (rng.choice(COLS), rng.choice(CMP), rng.randrange(3))
        r2 = rng.random()
        if r2 < 0.15 and k >= 2:
            g = cols[:k - 1]
            base = 'SELECT %s, count(*) AS n FROM %s%s GROUP BY %s' % (', '.join(g), table_ref(rng, cat, it, None), w, ', '.join(g))
            names = g + ['n']
            feats.append('operand:group')
        else:
            d = ''
            if r2 < 0.4:
                d = 'DISTINCT '
                feats.append('operand:distinct')
            base = 'SELECT %s%s FROM %s%s' % (d, ', '.join(cols), table_ref(rng, cat, it, None), w)
            names = cols
    r = rng.random()
    if r < 0.25:
        return base, base, False, extra
    if r < 0.35:
        feats.append('operand:order')
        t = base + total_order(rng, names)
        return t, t, True, extra
    if r < 0.42:
        # a window that keeps everything / nothing needs no order
        lim, off = rng.choice([(maxrows + 3, None), (0, None), (None, 0), (maxrows + 3, 0)])
        feats.append('operand:trivial-window')
        o = ''
    else:
        lim, off = window(rng, maxrows)
        o = total_order(rng, names)
        feats.append('operand:offset-only' if lim is None else ('operand:limit-offset' if off is not None else 'operand:limit'))
    m = base + o + ('' if lim is None else ' LIMIT %d' % lim) + ('' if off is None else ' OFFSET %d' % off)
    s = base + o + (' LIMIT %d' % (-1 if lim is None else lim)) + ('' if off is None else ' OFFSET %d' % off)
    return m, s, True, extra


def gen_setops(rng, cat):
    """UNION [ALL] / INTERSECT / EXCEPT across integrations whose operands carry every combination of DISTINCT / GROUP BY /
    ORDER BY / LIMIT / OFFSET (meant to be run on contents with duplicate rows: feature 'dups')"""
    feats = ['setops', 'dups']
    n = 2 if rng.random() < 0.7 else 3
    ts = pick_tables(rng, n, cat)
    if len({i for i, _ in ts}) == 1:
        ts[-1] = rng.choice([t for t in TABLES if t[0] != ts[0][0]])
    k = rng.choice([1, 1, 2, 2, 3])
    tabs = list(ts)
    ops = []
    for it in ts:
        m, s, par, extra = setop_operand(rng, cat, it, k, feats)
        tabs += [e for e in extra if e not in tabs]
        ops.append(('(%s)' % m if par or rng.random() < 0.2 else m, 'SELECT * FROM (%s)' % s if par else s))
    o1 = rng.choice(SETOPS)
    feats.append('setop:' + o1)
    if n == 2:
        body = '%s %s %s' % (ops[0][0], o1, ops[1][0])
        ref = '%s %s %s' % (ops[0][1], o1, ops[1][1])
    else:
        o2 = rng.choice(SETOPS)
        feats.append('setop:' + o2)
        if rng.random() < 0.5:
            feats.append('setop3-left')
            body = '%s %s %s %s %s' % (ops[0][0], o1, ops[1][0], o2, ops[2][0])
            ref = '%s %s %s %s %s' % (ops[0][1], o1, ops[1][1], o2, ops[2][1])
        else:
            feats.append('setop3-right')
            body = '%s %s (%s %s %s)' % (ops[0][0], o1, ops[1][0], o2, ops[2][0])
            ref = '%s %s SELECT * FROM (%s %s %s)' % (ops[0][1], o1, ops[1][1], o2, ops[2][1])
    return Q('setops', cat, body, tables=tabs, feats=feats, ref_body=ref)


def gen_contents_dups(rng, tables, maxrows):
    """contents for set operations: several rows per table, few distinct values (duplicate rows inside a table and rows
    shared between tables), some NULLs"""
    out = {}
    for it in tables:
        n = rng.choice([maxrows, maxrows, maxrows - 1, maxrows - 2, 0]) if maxrows >= 2 else rng.randrange(maxrows + 1)
        vals = rng.choice([[0, 1], [0, 1], [0, 1, 2], [1, 2], [None, 1], [0, 0, 1, None]])
        rows = []
        for _ in range(max(n, 0)):
            if rows and rng.random() < 0.35:
                rows.append(rng.choice(rows))
            else:
                rows.append((rng.choice([1, 1, 2]), rng.choice(vals), rng.choice(vals)))
        out[it] = rows
    return out


# ----------------------------------------------------------------------------- name scoping (round 6, old escapes)
def gen_scopes(rng, cat):
    """the same CTE / alias name defined in sibling scopes (branches of a set operation, two derived tables of a join) and in
    nested scopes (a sub-query or a derived table inside a statement whose own WITH uses the name) with DIFFERENT bodies"""
    feats = ['scopes', 'cte']
    A = rng.choice(TABLES)
    B = rng.choice([t for t in TABLES if t[0] != A[0]])
    name = 'w' if rng.random() < 0.8 else rng.choice([t for t in TABLES if t not in (A, B)])[1]

    def body(t):
        w = ''
        if rng.random() < 0.3:
            w = ' WHERE %s %s %d' % (rng.choice(COLS), rng.choice(CMP), rng.randrange(3))
        return 'SELECT id, x, y FROM %s.%s%s' % (t[0], t[1], w)
    bA, bB = body(A), body(B)
    tabs = [A, B]
    shape = rng.choice(['union', 'union', 'join2', 'join2', 'nested-sub', 'nested-derived', 'alias-union', 'alias-nested', 'union3'])
    feats.append('scope:' + shape)
    k = rng.choice([1, 2, 3])
    cols = rng.sample(COLS, k)
    ref = None
    names = None
    if shape in ('union', 'union3'):
        op = rng.choice(['UNION ALL', 'UNION ALL', 'UNION', 'EXCEPT', 'INTERSECT'])
        l = 'WITH %s AS (%s) SELECT %s FROM %s' % (name, bA, ', '.join(cols), name)
        r = 'WITH %s AS (%s) SELECT %s FROM %s' % (name, bB, ', '.join(rng.sample(COLS, k)), name)
        body_, ref = '%s %s %s' % (l, op, r), 'SELECT * FROM (%s) %s SELECT * FROM (%s)' % (l, op, r)
        if shape == 'union3':
            C = rng.choice([t for t in TABLES if t not in (A, B)])
            tabs.append(C)
            t3 = 'WITH %s AS (%s) SELECT %s FROM %s' % (name, body(C), ', '.join(rng.sample(COLS, k)), name)
            body_, ref = body_ + ' UNION ALL ' + t3, ref + ' UNION ALL SELECT * FROM (%s)' % t3
        return Q('scopes', cat, body_, tables=tabs, feats=feats, ref_body=ref)
    if shape == 'join2':
        jk = rng.choice(JOIN_KINDS)
        feats.append('join:' + jk)
        body_ = 'SELECT s.%s, t.%s FROM (WITH %s AS (%s) SELECT id, x, y FROM %s) AS s %s (WITH %s AS (%s) SELECT id, x, y FROM %s) AS t ON s.id = t.%s' % (
            rng.choice(COLS), rng.choice(COLS), name, bA, name, jk, name, bB, name, rng.choice(['id', 'id', 'x']))
    elif shape == 'nested-sub':
        body_ = 'WITH %s AS (%s) SELECT %s FROM %s WHERE %s %sIN (WITH %s AS (%s) SELECT %s FROM %s)' % (
            name, bA, ', '.join(cols), name, rng.choice(COLS), rng.choice(['', 'NOT ']), name, bB, rng.choice(COLS), name)
    elif shape == 'nested-derived':
        jk = rng.choice(['JOIN', 'LEFT JOIN', 'LEFT JOIN'])
        body_ = 'WITH %s AS (%s) SELECT s.x, %s.y FROM (WITH %s AS (%s) SELECT id, x FROM %s) AS s %s %s ON %s.id = s.id' % (
            name, bA, name, name, bB, name, jk, name, name)
    elif shape == 'alias-union':
        op = rng.choice(['UNION ALL', 'UNION', 'EXCEPT'])
        l = 'SELECT %s FROM (%s) AS s' % (', '.join('s.' + c for c in cols), bA)
        r = 'SELECT %s FROM (%s) AS s' % (', '.join('s.' + c for c in rng.sample(COLS, k)), bB)
        body_ = '%s %s %s' % (l, op, r)
    else:
        body_ = 'SELECT %s FROM (SELECT s.id, s.x, s.y FROM %s.%s AS s WHERE s.%s %s %d) AS s JOIN %s.%s AS t ON t.id = s.id' % (
            ', '.join('s.' + c for c in cols), A[0], A[1], rng.choice(COLS), rng.choice(CMP), rng.randrange(3), B[0], B[1])
    return Q('scopes', cat, body_, tables=tabs, feats=feats, ref_body=ref)


def gen_derived_join(rng, cat):
    """a join whose operand is a derived table that is itself a federated join (planned by a nested join planner), with a LATER
    table joined on a column of the derived table"""
    feats = ['derived-join']
    ts = rng.sample(TABLES, 4)
    A, C, D, B = ts
    if C[0] == D[0]:
        D = rng.choice([t for t in TABLES if t[0] != C[0] and t not in (A, B)])
    jk1, jk2, jk3 = (rng.choice(['JOIN', 'JOIN', 'LEFT JOIN', 'INNER JOIN']) for _ in range(3))
    ox, oy = rng.choice(['c', 'd']), rng.choice(['c', 'd'])
    derived = '(SELECT %s.%s AS x, %s.%s AS y FROM %s.%s AS c %s %s.%s AS d ON c.%s = d.%s) AS s' % (
        ox, rng.choice(COLS), oy, rng.choice(COLS), C[0], C[1], jk2, D[0], D[1], rng.choice(['id', 'id', 'x']), rng.choice(['id', 'id', 'x']))
    r = rng.random()
    if r < 0.5:
        feats.append('derived:middle')
        frm = '%s.%s AS a %s %s ON s.x = a.%s %s %s.%s AS b ON b.%s = s.y' % (A[0], A[1], jk1, derived, rng.choice(COLS), jk3, B[0], B[1], rng.choice(COLS))
        sel = ['a.id', 's.x', 's.y', 'b.id', 'b.x']
        tabs = [A, C, D, B]
    elif r < 0.8:
        feats.append('derived:first')
        frm = '%s %s %s.%s AS b ON b.%s = s.%s' % (derived, jk3, B[0], B[1], rng.choice(COLS), rng.choice(['x', 'y']))
        sel = ['s.x', 's.y', 'b.id', 'b.y']
        tabs = [C, D, B]
    else:
        feats.append('derived:last')
        frm = '%s.%s AS a %s %s ON s.%s = a.%s' % (A[0], A[1], jk1, derived, rng.choice(['x', 'y']), rng.choice(COLS))
        sel = ['a.id', 'a.x', 's.x', 's.y']
        tabs = [A, C, D]
    cols = rng.sample(sel, rng.choice([2, 3]))
    where = ' WHERE %s %s %d' % (rng.choice(sel), rng.choice(CMP), rng.randrange(3)) if rng.random() < 0.25 else ''
    return Q('derived', cat, 'SELECT %s FROM %s%s' % (', '.join(cols), frm, where), tables=tabs, feats=feats)


def gen_query(rng):
    """a query of any kind; about one in six is rewritten under a naming whose names need quoting"""
    q = gen_query_plain(rng)
    if rng.random() < 0.17:
        return renamed(q, rng.randrange(1, len(NAMINGS)))
    return q


def gen_query_plain(rng):
    r = rng.random()
    cat = rng.choice(['names', 'names', 'default', 'project', 'api3'])
    if r < 0.07:
        return gen_orderlimit(rng, cat)
    if r < 0.16:
        return gen_chain(rng, cat)
    if r < 0.24:
        return gen_aggnest(rng, cat)
    if r < 0.32:
        return gen_setops(rng, cat)
    if r < 0.36:
        return gen_scopes(rng, rng.choice(['default', 'default', 'project']))
    if r < 0.40:
        return gen_derived_join(rng, cat)
    if r < 0.58:
        return gen_join(rng, cat)
    if r < 0.70:
        return gen_insub(rng, cat)
    if r < 0.78:
        return gen_union(rng, cat)
    if r < 0.82:
        return gen_cte(rng, rng.choice(['default', 'default', 'project']))
    if r < 0.88:
        return gen_cte_collide(rng, rng.choice(['default', 'default', 'project']))
    if r < 0.96:
        return gen_nested(rng, cat)
    return gen_api(rng, 'api3')


# ----------------------------------------------------------------------------- contents
VALUES = [None, 0, 1, 2]


def gen_contents(rng, tables, maxrows):
    out = {}
    for it in tables:
        n = rng.choice(range(maxrows + 1)) if rng.random() < 0.85 else maxrows
        rows = []
        for _ in range(n):
            if rows and rng.random() < 0.15:
                rows.append(rows[-1])       # duplicate row
                continue
            rows.append((rng.choice([0, 1, 1, 2, None]), rng.choice(VALUES), rng.choice(VALUES)))
        out[it] = rows
    return out


def gen_contents_ties(rng, tables, maxrows):
    """contents with many ties: few distinct values per column, tables mostly full, ids mostly matching"""
    out = {}
    for it in tables:
        n = maxrows if rng.random() < 0.7 else rng.randrange(maxrows + 1)
        vx = rng.choice([[0], [1], [0, 1], [0, 0, 1], [None, 1]])
        out[it] = [(rng.choice([1, 1, 2]), rng.choice(vx), rng.choice([0, 1, 2, None])) for _ in range(n)]
    return out


def all_contents_small(tables):
    """exhaustive: every table has 0 or 1 row, id in {1,NULL}, x,y in {0,1,NULL} (used for the seed queries)"""
    rows = [()] + [((i, x, y),) for i in (1, None) for x in (0, 1) for y in (1, None)]
    for combo in itertools.product(rows, repeat=len(tables)):
        yield {it: list(r) for it, r in zip(tables, combo)}


# ----------------------------------------------------------------------------- oracle
def _key(row):
    return tuple((0, 0) if v is None else (1, v) if isinstance(v, (int, float)) else (2, str(v)) for v in row)


def multiset(rows):
    return sorted((tuple(r) for r in rows), key=_key)


def sub_multiset(a, b):
    """a <= b as multisets"""
    from collections import Counter
    ca, cb = Counter(map(tuple, a)), Counter(map(tuple, b))
    return all(cb[k] >= v for k, v in ca.items())


def compare(q, full_ref, plan_rows):
    """full_ref: reference rows WITHOUT top-level limit/offset (ordered by the engine when the query has ORDER BY).
    returns None or a reason string.  Ties under ORDER BY and LIMIT without (total) order are treated as the
    property says: only what the query fixes is compared."""
    P = [tuple(r) for r in plan_rows]
    F = [tuple(r) for r in full_ref]
    if F and P and len(F[0]) != len(P[0]):
        return 'column count %d != %d' % (len(P[0]), len(F[0]))
    keyf = (lambda r: tuple(r[i] for i in q.order_pos)) if q.order_pos else (lambda r: ())
    if q.limit is None:
        if multiset(P) != multiset(F):
            return 'different multiset of rows'
        if [keyf(r) for r in P] != [keyf(r) for r in F]:
            return 'rows not in the order fixed by ORDER BY'
        return None
    off = q.offset or 0
    W = F[off: off + q.limit]
    if len(P) != len(W):
        return 'LIMIT/OFFSET: %d rows, expected %d' % (len(P), len(W))
    if not sub_multiset(P, F):
        return 'LIMIT/OFFSET: rows that the un-limited query does not return'
    if [keyf(r) for r in P] != [keyf(r) for r in W]:
        return 'LIMIT/OFFSET: not the rows at these positions of the ORDER BY order'
    if q.order_pos:
        # inside one tie group of the window, the rows must come from that group
        from collections import defaultdict
        gp, gf = defaultdict(list), defaultdict(list)
        for r in P:
            gp[keyf(r)].append(r)
        for r in F:
            gf[keyf(r)].append(r)
        for k, rows in gp.items():
            if not sub_multiset(rows, gf[k]):
                return 'LIMIT/OFFSET: wrong rows inside an ORDER BY tie group'
    return None
