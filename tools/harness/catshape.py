"""C09 catalog SHAPES: which keys of a predictor-metadata record / an integration record the planner reads is derived
from the planner sources at run time (`scan_keys`), and every such key is varied over absent / None / empty /
wrong-but-plausible values (`VALS`), for predictor metadata given as a list, as the legacy dict, as the legacy dict
with dotted names, and for integrations given as names or dicts — `shape catalogs`, addressed by a name that encodes
the base catalog and the edits so that witnesses and replays can rebuild them (`catalog_by_name`).

Documented domain of a catalog (what the check treats as legal input of `plan_query`):
  * integrations: a list of names or of dicts with the key `name` (a string); every other key of the dict
    (`type`, `class_type`, whatever the planner starts to read) is optional and may hold any value of `VALS`;
  * predictor metadata: a list of dicts with the key `name` (a string), or the legacy dict name -> dict (name plain
    or dotted `project.name`); `integration_name` is absent, None or a string; every other key (`timeseries`,
    `order_by_column`, `group_by_columns`, `window`, `to_predict`, … whatever the planner reads) is optional and
    may hold any value of `VALS`.
For every catalog of this domain and every statement, planning returns a plan or raises PlanningException /
NotImplementedError (C09: "planning never fails with an internal error")."""
import ast, copy, glob, json, os, re

from . import common

ABSENT = '~'          # spelling of "key not present" in shape names
# absent / None / empty / plausible values of another type (JSON-representable: shape names carry them)
VALS = [ABSENT, None, False, True, 0, 5, '', 'x', [], ['x'], ['G', 'x'], {}]
# keys that identify a record; they are not varied freely
PRED_IDENTITY = {'name', 'integration_name', 'version'}     # `version` / `name` are written by get_predictor itself
INT_IDENTITY = {'name'}
# what the planner is known to read today (kept in the union so that a scanner miss cannot lose coverage)
PRED_KNOWN = ['timeseries', 'order_by_column', 'group_by_columns', 'window', 'to_predict']
INT_KNOWN = ['type', 'class_type']

_PRED_SRC = re.compile(r'get_predictor\(|predictor_info|predictor_metadata|\b(l_|r_)?predictor\b|\bmodel_info\b')
_INT_SRC = re.compile(r'\bintegrations?\b')
_NOT_A_RECORD = re.compile(r'predictor_steps|query_info|result_data|get_predictor_namespace_and_name')
_KEY = re.compile(r'[A-Za-z_]\w*$')


def _names(target):
    return [n.id for n in ast.walk(target) if isinstance(n, ast.Name)]


def _root(expr):
    while isinstance(expr, (ast.Attribute, ast.Subscript, ast.Call)):
        expr = expr.func if isinstance(expr, ast.Call) else expr.value
    return expr.id if isinstance(expr, ast.Name) else None


def scan_keys(repo=None):
    """(predictor keys, integration keys): string constants used as `X['k']`, `X.get('k' …)`, `X.pop('k' …)`,
    `'k' in X` in mindsdb_sql/planner/*.py where X is (derived from) a predictor-metadata record / an integration
    record: its source text names one, or it is a local name assigned / iterated from such an expression."""
    repo = repo or common.REPO
    pred, ints = set(), set()
    for path in sorted(glob.glob(os.path.join(repo, 'mindsdb_sql', 'planner', '*.py'))):
        try:
            tree = ast.parse(open(path).read())
        except SyntaxError:
            continue
        funcs = [n for n in ast.walk(tree) if isinstance(n, (ast.FunctionDef, ast.AsyncFunctionDef))]
        for fn in funcs:
            taint = {'p': set(), 'i': set()}

            def kind(expr):
                text = ast.unparse(expr)
                if _NOT_A_RECORD.search(text):
                    return None
                r = _root(expr)
                if _PRED_SRC.search(text) or r in taint['p']:
                    return 'p'
                if _INT_SRC.search(text) or r in taint['i']:
                    return 'i'
                return None
            for _ in range(3):       # assignments / loops: propagate to a fixpoint (depth 3 is plenty)
                for n in ast.walk(fn):
                    if isinstance(n, ast.Assign):
                        pairs = [(t, n.value) for t in n.targets]
                    elif isinstance(n, (ast.For, ast.comprehension)):
                        pairs = [(n.target, n.iter)]
                    elif isinstance(n, ast.NamedExpr):
                        pairs = [(n.target, n.value)]
                    else:
                        continue
                    for t, v in pairs:
                        src = v.func.value if (isinstance(v, ast.Call) and isinstance(v.func, ast.Attribute)
                                               and v.func.attr in ('items', 'values', 'copy')) else v
                        # dict(record, k=…) keeps being the record
                        if isinstance(v, ast.Call) and isinstance(v.func, ast.Name) and v.func.id == 'dict' and v.args:
                            src = v.args[0]
                        k = kind(src)
                        if k:
                            # `for name, record in metadata.items()`: only the value is a record
                            if isinstance(t, ast.Tuple) and isinstance(v, ast.Call) and isinstance(v.func, ast.Attribute) \
                                    and v.func.attr == 'items':
                                t = t.elts[-1]
                            taint[k].update(_names(t))
            for n in ast.walk(fn):
                recv, key = None, None
                if isinstance(n, ast.Subscript) and isinstance(n.slice, ast.Constant) and isinstance(n.slice.value, str):
                    recv, key = n.value, n.slice.value
                elif (isinstance(n, ast.Call) and isinstance(n.func, ast.Attribute) and n.func.attr in ('get', 'pop', 'setdefault')
                      and n.args and isinstance(n.args[0], ast.Constant) and isinstance(n.args[0].value, str)):
                    recv, key = n.func.value, n.args[0].value
                elif (isinstance(n, ast.Compare) and len(n.ops) == 1 and isinstance(n.ops[0], (ast.In, ast.NotIn))
                      and isinstance(n.left, ast.Constant) and isinstance(n.left.value, str)):
                    recv, key = n.comparators[0], n.left.value
                if recv is None or not _KEY.match(key):
                    continue
                k = kind(recv)
                if k == 'p':
                    pred.add(key)
                elif k == 'i':
                    ints.add(key)
    return sorted(pred), sorted(ints)


_KEYS = {}


def keys():
    """dict(pred=[varied predictor keys], int=[varied integration keys], scanned=(pred, int))"""
    if common.REPO not in _KEYS:
        p, i = scan_keys()
        _KEYS[common.REPO] = dict(pred=sorted((set(p) | set(PRED_KNOWN)) - PRED_IDENTITY),
                                  int=sorted((set(i) | set(INT_KNOWN)) - INT_IDENTITY), scanned=(p, i))
    return _KEYS[common.REPO]


# ------------------------------------------------------------------ shape catalogs

def _val(v):
    return ABSENT if v == ABSENT and isinstance(v, str) else json.dumps(v, separators=(',', ':'))


def edit_name(target, key, v):
    return '%s.%s=%s' % (target, key, _val(v))


def shape_name(base, edits):
    """edits: list of (target, key, value); target = model name | integration name"""
    return '|'.join([base] + [edit_name(*e) for e in edits])


def parse_shape(name):
    parts = name.split('|')
    edits = []
    for e in parts[1:]:
        lhs, rhs = e.split('=', 1)
        target, key = lhs.split('.', 1)
        edits.append((target, key, ABSENT if rhs == ABSENT else json.loads(rhs)))
    return parts[0], edits


def _apply(record, key, v):
    if isinstance(v, str) and v == ABSENT:
        record.pop(key, None)
    else:
        record[key] = copy.deepcopy(v)


def apply_edits(cat, edits):
    """a deep copy of catalog `cat` (kwargs of plan_query) with the edits applied to the named model / integration
    record; an integration given as a bare name is first spelled as the equivalent dict"""
    cat = copy.deepcopy(cat)
    for target, key, v in edits:
        done = False
        md = cat.get('predictor_metadata')
        if isinstance(md, list):
            for m in md:
                if m.get('name') == target:
                    _apply(m, key, v)
                    done = True
        elif isinstance(md, dict):
            for n, m in md.items():
                if n == target or n.endswith('.' + target):
                    _apply(m, key, v)
                    done = True
        if done:
            continue
        ints = cat.get('integrations') or []
        for i, it in enumerate(ints):
            nm = it['name'] if isinstance(it, dict) else it
            if nm == target:
                if not isinstance(it, dict):
                    it = ints[i] = {'name': it, 'type': 'data'}
                _apply(it, key, v)
    return cat


def catalog_by_name(name, bases):
    base, edits = parse_shape(name)
    return apply_edits(bases[base], edits) if edits else bases[base]


class Catalogs(dict):
    """name -> catalog; shape names are built on demand from the base catalogs"""

    def __missing__(self, name):
        base, edits = parse_shape(name)
        if base not in self.keys() or not edits:
            raise KeyError(name)
        c = apply_edits(dict.__getitem__(self, base), edits)
        self[name] = c
        return c


# bases used for shapes: metadata as list, legacy dict, legacy dict with dotted names (with and without integration_name),
# integrations as names and as dicts
SHAPE_BASES = ['names+list', 'dicts+list+ns', 'names+legacy', 'names+legacy-dotted', 'api']
MODELS = ['m1', 'ts1', 'ts2', 'm2']


def single_edits():
    """every single-key edit: (target, key, value) for the plain model m1 and the time-series model ts1 over the varied
    predictor keys, the identity variants of integration_name, and the integration int1 over the integration keys"""
    k = keys()
    out = []
    for m in ('m1', 'ts1'):
        for key in k['pred']:
            for v in VALS:
                out.append((m, key, v))
        for v in (ABSENT, None, 'PROJ', 'proj'):
            out.append((m, 'integration_name', v))
    for key in k['int']:
        for v in VALS:
            out.append(('int1', key, v))
    return out


def random_edits(rng):
    k = keys()
    edits = []
    for _ in range(rng.choice([1, 1, 2, 3])):
        t = rng.random()
        if t < 0.75:
            m = rng.choice(MODELS)
            if rng.random() < 0.12:
                edits.append((m, 'integration_name', rng.choice([ABSENT, None, 'PROJ', 'proj'])))
            else:
                edits.append((m, rng.choice(k['pred']), rng.choice(VALS)))
        else:
            edits.append((rng.choice(['int1', 'int2']), rng.choice(k['int']), rng.choice(VALS)))
    return edits


# statement skeletons that touch a model ({M}) — every statement kind of from_query / every branch of plan_select that
# looks a model up — and a few that touch only integrations
SKELETONS = [
    "select * from int1.tab1 ta join {M} tb where ta.t > latest",
    "select * from int1.tab1 ta join {M} tb where ta.t > '2020-01-01' and ta.g = 1 limit 3",
    "select tb.y, ta.x from int1.tab1 ta join {M} tb where ta.t between '2020-01-01' and '2020-02-01'",
    "select * from int1.tab1 ta join {M} tb where ta.x = '2020-01-01'",
    "select * from int1.tab1 ta join {M} tb",
    "select * from {M} tb join int1.tab1 ta where ta.t > latest",
    "select * from int1.tab1 a join {M} b on a.y = b.y and b.x = 1 where b.y = 2",
    "select * from int1.tab1 a left join {M} b on a.id = b.id limit 2",
    "select * from int1.tab1 a join {M} b join int2.tab3 c on a.id = c.id",
    "select * from int1.tab1 a join {M} b join int2.tab3 c using partition_size=5",
    "select * from int1.tab1 a join {M}.3 b",
    "select * from {M} where x = 1",
    "select * from {M} where 1 = 0",
    "select y from {M} where t > latest and g = 1",
    "select * from (select * from int1.tab1) ta join {M} tb where ta.t > latest",
    "with cte1 as (select * from int1.tab1) select * from cte1 ta join {M} tb where ta.t > latest",
    "select * from int1.tab1 where x in (select y from {M} where x = 1)",
    "select * from int1.tab1 a join {M} b union select * from int2.tab3",
    "insert into int2.t9 (select * from int1.tab1 ta join {M} tb where ta.t > latest)",
    "create table int2.t9 (select * from int1.tab1 a join {M} b)",
    "update int1.t9 set a = df.x from (select * from int1.tab1 a join {M} b) as df where t9.id = df.id",
    "delete from int1.t9 where a in (select y from {M} where x = 1)",
    "select * from int1.tab1 a join int2.tab3 b on a.id = b.id",
    "select * from int1.tab1 where x in (select id from int2.tab3)",
    "select * from int1.tab1 a join int1.tab2 b on a.id = b.id",
    "select * from tab5 join {M} b",
]


def systematic(seed_int=0):
    """the full cross (single edit) x (statement skeleton); the base catalog (metadata form) rotates with the pair so
    that every edit meets every form and every skeleton meets every form; yields (sql, shape catalog name)"""
    edits = single_edits()
    nb = len(SHAPE_BASES)
    for i, e in enumerate(edits):
        target = e[0]
        for j, sk in enumerate(SKELETONS):
            base = SHAPE_BASES[(i + j + seed_int) % nb]
            if target in ('m1', 'ts1'):
                m = 'proj.' + target
            else:
                m = 'proj.' + ('m1', 'ts1')[(i + j) % 2]
            if '{M}' not in sk and target in ('m1', 'ts1'):
                continue        # a statement without a model does not look the edited record up
            yield sk.replace('{M}', m), shape_name(base, [e])


# ------------------------------------------------------------------ facts about a catalog (known-finding signatures)

def _models(cat):
    """(name, record, dotted-legacy?) of every predictor-metadata entry"""
    md = cat.get('predictor_metadata')
    if isinstance(md, list):
        return [(m.get('name'), m, False) for m in md if isinstance(m, dict)]
    if isinstance(md, dict):
        return [(n, m, '.' in n) for n, m in md.items() if isinstance(m, dict)]
    return []


def facts(cat):
    """shape facts of a catalog that the open known findings of round 5 are keyed on (causal attribution: a finding is
    only recognised on a catalog that has the shape it is about)"""
    out = set()
    for name, m, dotted in _models(cat):
        if m.get('timeseries'):
            if any(k not in m for k in ('order_by_column', 'group_by_columns', 'window')):
                out.add('ts-setting-missing')
            if 'order_by_column' in m and not isinstance(m['order_by_column'], str):
                out.add('ts-order-not-str')
            g = m.get('group_by_columns')
            if g is not None and not hasattr(g, '__len__'):
                out.add('ts-group-not-sized')
        t = m.get('to_predict')
        if isinstance(t, list) and len(t) > 0:
            t = t[0]
        if t is not None and not isinstance(t, str):
            out.add('to_predict-not-str')
        if 'integration_name' in m and m['integration_name'] is None:
            out.add('dotted-integration_name-none' if dotted else 'integration_name-none')
        if dotted and 'integration_name' not in m:
            out.add('dotted-without-integration_name')
    for it in cat.get('integrations') or []:
        if isinstance(it, dict) and 'type' not in it:
            out.add('integration-without-type')
    return sorted(out)


# ------------------------------------------------------------------ correspondence with Model/Catalog.lean

def enc_val(v):
    if v is None:
        return 'N'
    if v is True:
        return 'T'
    if v is False:
        return 'F'
    if isinstance(v, int):
        return 'n%d' % v
    if isinstance(v, str):
        return 's:' + v
    if isinstance(v, list):
        return 'l:' + ','.join(v)
    if isinstance(v, dict) and not v:
        return 'D'
    raise ValueError(v)


KEY_CODE = {'integration_name': 'ns', 'timeseries': 'ts', 'order_by_column': 'ob', 'group_by_columns': 'gb', 'window': 'w',
            'to_predict': 'tp'}
IKEY_CODE = {'type': 'type', 'class_type': 'ct'}
TF_SQL = {'latest': "> latest", 'gt': "> '2020-01-01'", 'ge': ">= '2020-01-01'", 'eq': "= '2020-01-01'",
          'lt': "< '2020-01-01'", 'between': "between '2020-01-01' and '2020-02-01'"}


def _pick(rng, usual, p_usual=0.6):
    return rng.choice(usual) if rng.random() < p_usual else rng.choice(VALS)


def _enc_rec(rec, codes):
    """keys the model knows by name, every other key as o<n> (n = position among the other keys, sorted)"""
    others = sorted(k for k in rec if k not in codes)
    return '( rec %s )' % ' '.join('%s=%s' % (codes.get(k) or 'o%d' % others.index(k), enc_val(v)) for k, v in rec.items())


def cat_case(rng):
    """one case of the stream `catalog`: a model record of arbitrary shape in one of the three metadata forms (or an
    integration dict of arbitrary shape) and a statement whose plan depends on it; dict(sql, catalog, line, shape)
    where `line` lacks the variant flags (`cat <fx> …` / `int <fx> …` are completed by the caller)"""
    r = rng
    if r.random() < 0.12:
        rec = {}
        for key in keys()['int']:
            v = _pick(r, {'type': ['data', 'data', 'project'], 'class_type': ['sql', 'api']}.get(key, [None]), 0.5)
            if v != ABSENT:
                rec[key] = v
        catalog = dict(integrations=[dict(rec, name='int1'), 'int2'])
        return dict(sql='select * from int1.tab1', catalog=catalog, kind='int', rest=_enc_rec(rec, IKEY_CODE),
                    shape='int/' + ','.join('%s=%s' % (k, enc_val(v)) for k, v in sorted(rec.items())))
    form = r.choice(['l', 'g', 'd'])
    ts_model = r.random() < 0.6
    usual = {
        'timeseries': [True, True, 1] if ts_model else [ABSENT, False, None],
        'order_by_column': ['t', 'T', 'x'] if ts_model else [ABSENT],
        'group_by_columns': [['g'], ['g'], [], None, ['G', 'x']] if ts_model else [ABSENT],
        'window': [5, 10] if ts_model else [ABSENT],
        'to_predict': [['y'], 'y', ABSENT, ['Y', 'z']],
    }
    rec = {}
    v = r.choice([ABSENT, None, 'proj', 'proj', 'proj', 'PROJ', 'Proj'])
    if v != ABSENT:
        rec['integration_name'] = v
    # one or two keys leave the usual shape; every key the planner reads (scanned at run time) takes part
    ks = keys()['pred']
    odd = set(r.sample(ks, r.choice([0, 1, 1, 2])))
    for key in ks:
        v = r.choice(VALS) if key in odd else r.choice(usual.get(key, [ABSENT]))
        if v != ABSENT:
            rec[key] = v
    if r.random() < 0.5:
        items = list(rec.items())
        r.shuffle(items)
        rec = dict(items)
    k = r.random()
    if k < 0.62:
        tf = r.choice(['none', 'latest', 'latest', 'gt', 'ge', 'eq', 'between', 'lt'])
        col = r.choice(['t', 't', 't', 'T', 'x', 'g'])
        gcol = r.choice(['-', '-', 'g', 'G', 'x', 't']) if tf != 'none' else '-'
        lim, star, mf = int(r.random() < 0.3), int(r.random() < 0.6), int(r.random() < 0.25)
        frm = 'proj.mx tb join int1.tab1 ta' if mf else 'int1.tab1 ta join proj.mx tb'
        sql = 'select %s from %s' % ('*' if star else 'tb.y, ta.x', frm)
        if tf != 'none':
            sql += ' where ta.%s %s' % (col, TF_SQL[tf]) + (' and ta.%s = 1' % gcol if gcol != '-' else '')
        sql += ' limit 7' if lim else ''
        q = '( mj %s %s %s %d %d %d )' % (col, tf, gcol, lim, star, mf)
    elif k < 0.78:
        sql, q = 'select * from int1.tab1 a join proj.mx b join int2.tab3 c on a.id = c.id', '( j3 )'
    else:
        co, star = int(r.random() < 0.3), int(r.random() < 0.6)
        sql = 'select %s from proj.mx where %s' % ('*' if star else 'y', '1 = 0' if co else 'x = 1')
        q = '( ms %d %d )' % (co, star)
    pns = r.choice(['proj', 'proj', 'PROJ'])
    if form == 'l':
        catalog = dict(integrations=['int1', 'int2'], predictor_namespace=pns, predictor_metadata=[dict(rec, name='mx')])
    elif form == 'g':
        catalog = dict(integrations=['int1', 'int2'], predictor_namespace=pns, predictor_metadata={'mx': dict(rec)})
    else:
        catalog = dict(integrations=['int1', 'int2', {'name': 'proj', 'type': 'project'}], predictor_metadata={'proj.mx': dict(rec)})
    return dict(sql=sql, catalog=catalog, kind='cat', rest='%s proj %s %s %s' % (form, pns.lower(), _enc_rec(rec, KEY_CODE), q),
                shape='%s/%s/%s' % (form, q.split(' ')[1], 'ts' if rec.get('timeseries') else 'plain'))


LIVE, FORMER = '1111', '0000'     # flags ts, target, ns, itype of Model/Catalog.lean: the code as it is / before the round-5 repairs


def cat_lines(case):
    """the driver lines of a case: the model of the code as it is, and of the former code (run only to pin the variant)"""
    return ['%s %s %s' % (case['kind'], v, case['rest']) for v in (LIVE, FORMER)]
