"""Shared pieces of the correspondence harness."""
import contextlib, json, os, random, signal, subprocess, sys, threading, time

REPO = os.environ.get('VERIF_REPO', '/repo')
ROOT = os.path.dirname(os.path.dirname(os.path.dirname(os.path.abspath(__file__))))
LEAN = os.path.join(ROOT, 'lean')
if REPO not in sys.path:
    sys.path.insert(0, REPO)

DIALECTS = ('sqlite', 'mysql', 'mindsdb')
MODE = {'sqlite': 'raise', 'mysql': 'raise', 'mindsdb': 'drain'}


def lean_run(driver, lines, timeout=3600):
    """pipe `lines` through `lake env lean --run Driver/<driver>.lean`, return output lines"""
    p = subprocess.run(['lake', 'env', 'lean', '--run', 'Driver/%s.lean' % driver], cwd=LEAN,
                       input='\n'.join(lines) + '\n', capture_output=True, text=True, timeout=timeout)
    if p.returncode != 0:
        raise RuntimeError('lean driver %s failed: %s' % (driver, p.stderr[-2000:]))
    out = p.stdout.split('\n')
    if out and out[-1] == '':
        out.pop()
    if len(out) != len(lines):
        raise RuntimeError('lean driver %s: %d lines in, %d out; stderr=%s' % (driver, len(lines), len(out), p.stderr[-500:]))
    return out


def side(dialect):
    return json.load(open(os.path.join(ROOT, 'gen', 'tables_%s.json' % dialect)))


def rng_for(seed, tag):
    return random.Random('%s/%s' % (seed, tag))


class HangDetected(BaseException):
    """raised by `time_limit` (BaseException: an `except Exception` in the code under test must not swallow it)"""


_HANGS = [0]


@contextlib.contextmanager
def time_limit(seconds):
    """bound one call into the real library; a call that does not return is a finding (hang), never an endless check.
    Main thread only (SIGALRM); elsewhere it is a no-op."""
    if threading.current_thread() is not threading.main_thread():
        yield
        return

    # once hangs have been seen the verdict is settled: later calls get a short limit, then none at all,
    # so that a library that hangs on a whole class of inputs cannot make the check run for hours
    if _HANGS[0] >= 5:
        raise HangDetected('skipped: %d calls did not return before' % _HANGS[0])
    if _HANGS[0] >= 1:
        seconds = min(seconds, 3)

    def handler(sig, frm):
        _HANGS[0] += 1
        raise HangDetected('no result within %ss' % seconds)
    old = signal.signal(signal.SIGALRM, handler)
    signal.setitimer(signal.ITIMER_REAL, seconds)
    try:
        yield
    finally:
        signal.setitimer(signal.ITIMER_REAL, 0)
        signal.signal(signal.SIGALRM, old)


def install_lexer_guard():
    """wrap sly's `Lexer.tokenize` (in this harness process only) so that a zero-length token - after which sly's loop
    never advances - raises `HangDetected` instead of producing tokens for ever; generators of the harness that call
    `list(lexer.tokenize(..))` then end, and the probes report the hang.  A loop that never yields is caught by `time_limit`."""
    import sly.lex
    if getattr(sly.lex.Lexer.tokenize, '_verif_guard', False):
        return
    orig = sly.lex.Lexer.tokenize

    def tokenize(self, text, lineno=1, index=0):
        for tok in orig(self, text, lineno, index):
            if getattr(tok, 'end', None) == tok.index and tok.type != 'ERROR':
                raise HangDetected('zero-length %s token at index %d: sly does not advance' % (tok.type, tok.index))
            yield tok
    tokenize._verif_guard = True
    tokenize._verif_orig = orig
    sly.lex.Lexer.tokenize = tokenize


def remove_lexer_guard():
    import sly.lex
    t = sly.lex.Lexer.tokenize
    if getattr(t, '_verif_guard', False):
        sly.lex.Lexer.tokenize = t._verif_orig
