"""Shared pieces of the correspondence harness."""
import json, os, random, subprocess, sys, time

REPO = os.environ.get('VERIF_REPO', '/repo')
ROOT = os.path.dirname(os.path.dirname(os.path.dirname(os.path.abspath(__file__))))
LEAN = os.path.join(ROOT, 'lean')
if REPO not in sys.path:
    sys.path.insert(0, REPO)

DIALECTS = ('sqlite', 'mysql', 'mindsdb')
MODE = {'sqlite': 'raise', 'mysql': 'raise', 'mindsdb': 'drain'}


def lean_run(driver, lines, timeout=3600):
    """pipe `lines` through `lake env lean --run Driver/<driver>.lean`, return output lines"""
    p = subprocess.run(['lake', 'env', 'lean', '--run', 'Driver/%s.lean' % driver], cwd=LEAN,
                       input='\n'.join(lines) + '\n', capture_output=True, text=True, timeout=timeout)
    if p.returncode != 0:
        raise RuntimeError('lean driver %s failed: %s' % (driver, p.stderr[-2000:]))
    out = p.stdout.split('\n')
    if out and out[-1] == '':
        out.pop()
    if len(out) != len(lines):
        raise RuntimeError('lean driver %s: %d lines in, %d out; stderr=%s' % (driver, len(lines), len(out), p.stderr[-500:]))
    return out


def side(dialect):
    return json.load(open(os.path.join(ROOT, 'gen', 'tables_%s.json' % dialect)))


def rng_for(seed, tag):
    return random.Random('%s/%s' % (seed, tag))
