"""SQL strings harvested from /repo/tests (every string literal that some dialect's lexer+parser
accepts or that merely looks like SQL), cached in corpus/tests_sql.json (regenerated when missing)."""
import ast, json, os, sys, re

REPO = os.environ.get('VERIF_REPO', '/repo')
ROOT = os.path.dirname(os.path.dirname(os.path.dirname(os.path.abspath(__file__))))
KW = re.compile(r'^\s*(select|insert|update|delete|create|drop|show|set|use|describe|explain|alter|with|retrain|finetune|evaluate|start|commit|rollback|\()', re.I)


def harvest():
    out = []
    seen = set()
    for dp, dn, fn in os.walk(os.path.join(REPO, 'tests')):
        for f in sorted(fn):
            if not f.endswith('.py'):
                continue
            try:
                tree = ast.parse(open(os.path.join(dp, f), encoding='utf-8').read())
            except SyntaxError:
                continue
            for node in ast.walk(tree):
                if isinstance(node, ast.Constant) and isinstance(node.value, str):
                    s = node.value
                    if KW.match(s) and len(s) < 4000 and s not in seen:
                        seen.add(s)
                        out.append(s)
                elif isinstance(node, ast.JoinedStr):
                    # f-strings: keep the constant parts joined by a neutral identifier
                    parts = []
                    for v in node.values:
                        if isinstance(v, ast.Constant) and isinstance(v.value, str):
                            parts.append(v.value)
                        else:
                            parts.append('x1')
                    s = ''.join(parts)
                    if KW.match(s) and len(s) < 4000 and s not in seen:
                        seen.add(s)
                        out.append(s)
    out.sort()
    return out


def load():
    p = os.path.join(ROOT, 'corpus', 'tests_sql.json')
    if os.path.exists(p):
        return json.load(open(p, encoding='utf-8'))
    c = harvest()
    os.makedirs(os.path.dirname(p), exist_ok=True)
    json.dump(c, open(p, 'w', encoding='utf-8'), ensure_ascii=False, indent=0)
    return c


if __name__ == '__main__':
    c = harvest()
    p = os.path.join(ROOT, 'corpus', 'tests_sql.json')
    json.dump(c, open(p, 'w', encoding='utf-8'), ensure_ascii=False, indent=0)
    print(len(c))
