"""CREATE TABLE statements derived from the grammar rules (C01, round 6).  (untrusted: generator only)

Nothing here lists column-definition shapes by hand: the alternatives of a column definition are the productions of the
exported grammar (`gen/tables_<dialect>.json`, regenerated from the live parser on every run) —

* `local(G, root)`: the nonterminals that belong to the statement `root` alone (every production that mentions them has its
  left-hand side in the statement): for `create_table` of the MindsDB grammar `table_column_list`, `table_column`;
* `alternatives(G, sym, …)`: EVERY derivation of a local nonterminal (recursive productions — `table_column NULL`,
  `table_column NOT NULL` — applied up to `rec` times), as a flat sequence of terminals and of the non-local nonterminals
  left symbolic (`id`, `column_list`, `identifier`, `select`, …); small non-local nonterminals whose productions are made of
  terminals only (`replace_or_empty`, `if_not_exists_or_empty`) are expanded completely as well;
* list nonterminals (`L -> X | L SEP X`) are recognised from their productions; lists of 1, 2 (all ordered pairs) and 3
  (fixed sample) items are built from the item alternatives;
* the symbolic nonterminals get their lexemes by ROLE, read off the production: in a column definition the first `id` is a
  fresh column name, the second a type word (plain, upper-case, quoted multi-word, with and without the length the
  production asks for), the `id` behind DEFAULT a default word, `column_list` of the PRIMARY KEY production names of the
  columns of this statement (first / last / first two / all / a name that is no column).
"""
import itertools
from . import gen


def local(G, root):
    loc = {root}
    changed = True
    while changed:
        changed = False
        for lhs in list(loc):
            for i in G.by_lhs.get(lhs, []):
                for x in G.prods[i]['rhs']:
                    if x in G.termset or x in loc or x not in G.by_lhs:
                        continue
                    if all(G.prods[j]['lhs'] in loc or G.prods[j]['lhs'] == x for j in G.parents.get(x, [])):
                        loc.add(x)
                        changed = True
    return loc


def small(G, sym):
    """a nonterminal whose productions consist of terminals only (or are empty), at most 4 of them"""
    ps = G.by_lhs.get(sym, [])
    return 0 < len(ps) <= 4 and all(all(x in G.termset or x == 'empty' for x in G.prods[i]['rhs']) for i in ps)


def list_shape(G, sym):
    """(item, separator) when sym -> item | sym SEP item"""
    ps = [G.prods[i]['rhs'] for i in G.by_lhs.get(sym, [])]
    if len(ps) != 2:
        return None
    a, b = sorted(ps, key=len)
    if len(a) == 1 and len(b) == 3 and b[0] == sym and b[2] == a[0] and b[1] in G.termset:
        return a[0], b[1]
    return None


def alternatives(G, sym, loc, rec=1, _path=()):
    """all flat symbol sequences of `sym`; lists are NOT expanded here (kept as ('list', sym))"""
    if sym in G.termset:
        return [[sym]]
    if sym == 'empty':
        return [[]]
    if sym in loc and list_shape(G, sym) and _path:
        return [[('list', sym)]]
    if sym not in loc and not small(G, sym):
        return [[('nt', sym)]]
    out = []
    for i in G.by_lhs[sym]:
        if sym in G.prods[i]['rhs'] and sum(1 for j in _path if j >= 0 and G.prods[j]['lhs'] in G.prods[j]['rhs']) >= rec:
            continue                      # recursive productions are applied at most `rec` times on a path
        parts = [alternatives(G, x, loc, rec, _path + (i,)) for x in G.prods[i]['rhs']]
        for combo in itertools.product(*parts):
            seq = [y for c in combo for y in c]
            if seq not in out:
                out.append(seq)
    return out


TYPES_PLAIN = ['int', 'text', 'INT', '`double precision`', 'decimal', 'varchar', 'Float', 'timestamp']
TYPES_LEN = ['varchar', 'char', 'int', 'decimal', 'VARCHAR', '`bit varying`']
DEFAULTS = ['d', 'x1', 'CURRENT', '`a b`']
LENGTHS = ['10', '1', '255', '007']


def render_item(dialect, seq, name, k, pk_names):
    """one column item: symbols -> text, roles read off the position in the production"""
    lx = gen.lexemes(dialect)
    out, ids = [], 0
    has_len = 'INTEGER' in seq
    for i, x in enumerate(seq):
        if x == ('nt', 'id'):
            ids += 1
            if i > 0 and seq[i - 1] == 'DEFAULT':
                out.append(DEFAULTS[k % len(DEFAULTS)])
            elif ids == 1:
                out.append(name)
            else:
                out.append((TYPES_LEN if has_len else TYPES_PLAIN)[k % len(TYPES_LEN if has_len else TYPES_PLAIN)])
        elif x == ('nt', 'column_list'):
            out.append(', '.join(pk_names))
        elif isinstance(x, tuple):
            return None
        elif x == 'INTEGER':
            out.append(LENGTHS[k % len(LENGTHS)])
        else:
            c = lx.get(x)
            if not c:
                return None
            out.append(c[0])
    return ' '.join(out)


def create_table_statements(dialect, rng, n_triples):
    """[(tag, text)]: every create_table production x every column-definition derivation, alone, in every ordered pair,
    in sampled triples; the statement options (OR REPLACE, IF NOT EXISTS) in every combination with every single item"""
    G = gen.Grammar(dialect)
    if 'create_table' not in G.by_lhs:
        return []
    loc = local(G, 'create_table')
    lx = gen.lexemes(dialect)
    out = []
    k = 0
    heads = alternatives(G, 'create_table', loc)
    list_heads = [h for h in heads if any(isinstance(x, tuple) and x[0] == 'list' for x in h)]
    for head in heads:
        lists = [x for x in head if isinstance(x, tuple) and x[0] == 'list']
        if not lists:
            # no column list: CREATE TABLE t SELECT ... / (SELECT ...)
            for ident, sel in itertools.product(['t', 'db.t', '`a b`'], ['SELECT 1', 'SELECT a, b FROM t2 WHERE a = 1', 'SELECT * FROM t2 LIMIT 1']):
                txt = []
                for x in head:
                    if x == ('nt', 'identifier'):
                        txt.append(ident)
                    elif x == ('nt', 'select'):
                        txt.append(sel)
                    elif isinstance(x, tuple):
                        txt = None
                        break
                    else:
                        txt.append((lx.get(x) or [x])[0])
                if txt:
                    out.append(('select', ' '.join(txt)))
    if list_heads:
        head = list_heads[0]
        lists = [x for x in head if isinstance(x, tuple) and x[0] == 'list']
        item_sym, sep = list_shape(G, lists[0][1])
        items = alternatives(G, item_sym, loc, rec=1, _path=(-1,))
        twice = [a for a in alternatives(G, item_sym, loc, rec=2, _path=(-1,)) if a not in items]
        rng.shuffle(twice)
        items = items + twice[:6]
        is_pk_clause = lambda a: ('nt', 'column_list') in a

        def accepted_alone(a):
            from . import rt
            t = render_item(dialect, a, 'c1', 0, ['c1'])
            if t is None:
                return False
            try:
                return rt.parse(dialect, 'CREATE TABLE t ( %s )' % t) is not None
            except Exception:
                return False
        alone = [a for a in items if accepted_alone(a)]      # an item the dialect rejects even alone stays in the singles only
        combos = [(a,) for a in items] + [(a, b) for a in alone for b in alone]
        items = alone
        for _ in range(n_triples):
            combos.append(tuple(rng.choice(items) for _ in range(3)))
        for combo in combos:
            k += 1
            plain_heads = list_heads if len(combo) == 1 else [list_heads[k % len(list_heads)]]
            names = ['c%d' % (j + 1) for j, a in enumerate(combo) if not is_pk_clause(a)]
            pk_choices = [[]]
            if any(is_pk_clause(a) for a in combo):
                pk_choices = [names[:1], names[-1:], names[:2], names, ['zz']] if names else [['zz']]
                pk_choices = [p for j, p in enumerate(pk_choices) if p and p not in pk_choices[:j]]
                if len(combo) > 1:
                    pk_choices = [pk_choices[k % len(pk_choices)], pk_choices[(k + 1) % len(pk_choices)]]
            for pk in pk_choices:
                texts, j = [], 0
                for a in combo:
                    if is_pk_clause(a):
                        t = render_item(dialect, a, None, k, pk)
                    else:
                        t = render_item(dialect, a, names[j], k + j, pk)
                        j += 1
                    texts.append(t)
                if any(t is None for t in texts):
                    continue
                body = (' %s ' % (lx.get(sep) or [','])[0]).join(texts)
                for plain_head in plain_heads:
                    txt = []
                    for x in plain_head:
                        if x == ('nt', 'identifier'):
                            txt.append(['t', 'db.t'][k % 2])
                        elif isinstance(x, tuple) and x[0] == 'list':
                            txt.append(body)
                        elif isinstance(x, tuple):
                            txt = None
                            break
                        else:
                            txt.append((lx.get(x) or [x])[0])
                    if txt:
                        out.append(('cols%d' % len(combo), ' '.join(txt)))
    seen, res = set(), []
    for tag, t in out:
        if t not in seen:
            seen.add(t)
            res.append((tag, t))
    return res
