"""extra input families for the parser-level checks (C02 crash search, C05 acceptance oracle); added after the
round-4 seeded changes escaped: each family is a CLASS of inputs, none is a seed's input.

 * append_terminal_stream  - a valid statement followed by one more token, for EVERY terminal of the dialect
                             (a token filter / recovery that swallows trailing tokens accepts a non-sentence)
 * layout_variant_stream   - the same text with its line structure changed around `--` comments: newline <-> blank;
                             consecutive members of one family are returned together so that they are parsed one after the
                             other in one process (a cache keyed by normalised text confuses them)
 * recase_stream           - statements with the case of every unquoted word changed (upper / lower / swapped / first-upper):
                             keywords and parameter names are case-insensitive, code that compares them as written is not
 * numeric_position_stream - quoted and odd constants where a number is expected (LIMIT / OFFSET / TOP-like positions,
                             type lengths, partition sizes): unicode digit look-alikes, signs, blanks, empty
"""
import re
from tools.harness import gen, streams


def append_terminal_stream(dialect, rng, n_stmts):
    lx = gen.lexemes(dialect)
    ct = streams.corpus_tokens(dialect)
    picks = [ct[i] for i in sorted(rng.sample(range(len(ct)), min(n_stmts, len(ct))))]
    for text, types, lexs in picks:
        base = re.sub(r'[\s;]+$', '', text)
        for tp in sorted(lx):
            c = lx.get(tp)
            if not c:
                continue
            yield dict(src='append:' + tp, text=base + ' ' + c[0])
            if rng.random() < 0.15:
                yield dict(src='append2:' + tp, text=base + ' ' + c[0] + ' ' + c[0])


_WORD = re.compile(r"('(?:\\.|[^'])*'|\"(?:\\.|[^\"])*\"|`[^`]*`)|([A-Za-z_][A-Za-z_0-9]*)")


def _recase(text, f):
    return _WORD.sub(lambda m: m.group(1) if m.group(1) is not None else f(m.group(2)), text)


def recase_stream(dialect, rng, n_stmts, extra_texts=()):
    ct = streams.corpus_tokens(dialect)
    texts = [ct[i][0] for i in sorted(rng.sample(range(len(ct)), min(n_stmts, len(ct))))] + list(extra_texts)
    # every statement with a parameter list (USING / SET / WITH / PARAMETERS): their keys are looked up by name
    texts += [t for t, _, _ in ct if re.search(r'\b(using|set|with|parameters)\b', t, flags=re.I) and t not in texts]
    for text in texts:
        for name, f in (('upper', str.upper), ('lower', str.lower), ('swap', str.swapcase), ('title', str.capitalize)):
            yield dict(src='recase:' + name, text=_recase(text, f))
        # one word at a time (a single parameter name / keyword in another case)
        words = [m for m in _WORD.finditer(text) if m.group(2)]
        for m in (words if len(words) <= 40 else rng.sample(words, 40)):
            w = m.group(2)
            w2 = w.upper() if not w.isupper() else w.lower()
            yield dict(src='recase:one', text=text[:m.start()] + w2 + text[m.end():])


def layout_variant_stream(dialect, rng, n_stmts):
    """families of texts that differ only in line structure; yields lists (one family = consecutive parses)"""
    ct = streams.corpus_tokens(dialect)
    picks = [ct[i] for i in sorted(rng.sample(range(len(ct)), min(n_stmts, len(ct))))]
    for text, types, lexs in picks:
        toks = [l for l in lexs if l is not None]
        if len(toks) != len(lexs) or len(toks) < 3:
            continue
        for cut in sorted(set([1, len(toks) // 2, len(toks) - 1] + [rng.randint(1, len(toks) - 1)])):
            head, tail = ' '.join(toks[:cut]), ' '.join(toks[cut:])
            fam = [head + ' -- x ' + tail,            # the tail is inside the comment
                   head + ' -- x\n' + tail,           # the comment ends, the tail is part of the statement
                   head + ' --x ' + tail + '\n',
                   head + '\n-- x\n' + tail,
                   head + ' /* x */ ' + tail,
                   head + ' /* x\n */ ' + tail,
                   head + '\n' + tail,
                   head + ' ' + tail]
            if rng.random() < 0.5:
                fam.reverse()
            yield [dict(src='layout:%d' % i, text=t) for i, t in enumerate(fam)]


ODD_NUMBERS = ["'10'", "'²'", "'①'", "'١٢'", "'1³'", "''", "' 5'", "'5 '", "'+5'", "'-5'", "'5.0'", "'1e2'", "'0x10'", "'५'",
               '"10"', '"²"', '`10`', "'1_0'", "'٣'", "'⒈'", "'𝟙'", "'Ⅳ'", "NULL", "TRUE", "-1", "1.5", "1e3", "?", "@n", "(1)"]


def numeric_position_stream(dialect, rng):
    templates = ['select a from t limit %s', 'select a from t limit 3 offset %s', 'select a from t limit %s offset 1',
                 'select a from t limit 5, %s', 'select a from t limit %s, 5', 'select a from t offset %s',
                 'select cast(a as varchar(%s)) from t', 'create table t (a varchar(%s))', 'select * from t limit %s',
                 'select * from int1.t join mindsdb.m using partition_size=%s', 'select a from t order by %s',
                 'select a from t group by %s', 'select interval %s day', 'select * from t1 join t2 limit %s']
    for t in templates:
        for v in ODD_NUMBERS:
            yield dict(src='numpos', text=t % v)
