"""Input generators and reference oracles (untrusted; search and correspondence only):
lexeme tables, token-level mutations, grammar-derived sentences, an Earley recogniser."""
import re, random
from tools.harness.common import HangDetected as _Hang
from . import common, corpus as corpus_mod

_lex_cache = {}


def lexemes(dialect):
    """token type -> list of lexemes that the real lexer tokenizes to exactly that single token"""
    if dialect in _lex_cache:
        return _lex_cache[dialect]
    from mindsdb_sql import get_lexer_parser
    lexer, parser = get_lexer_parser(dialect)
    cls = type(lexer)
    table = {}

    def single(text):
        try:
            toks = list(cls().tokenize(text))
        except (Exception, _Hang):
            return None
        if len(toks) == 1:
            return toks[0].type
        return None

    def add(tp, lx):
        if single(lx) == tp:
            table.setdefault(tp, [])
            if lx not in table[tp]:
                table[tp].append(lx)
    # from the rule strings
    for name in parser._grammar.Terminals:
        v = getattr(cls, name, None)
        if isinstance(v, str):
            for alt in [v] + v.split('|'):
                w = alt.replace('\\b', '').replace('[\\s]+', ' ').replace('\\s+', ' ').replace('\\s', ' ')
                w = re.sub(r'\\(.)', r'\1', w)
                add(name, w)
                add(name, w.lower())
    # hand-picked families
    extra = {
        'ID': ['a', 'tbl1', 'col_x', '`a b`', '`select`', '`x.y`', 'x1', '_u', '$v', '`ü`', 'primary_key1'],
        'INTEGER': ['0', '1', '42', '007'], 'FLOAT': ['1.5', '0.0', '10.25'],
        'QUOTE_STRING': ["'s'", "''", "'it''s'", "'a b'", "'2020-01-01'", "'ü'"],
        'DQUOTE_STRING': ['"d"', '""', '"a b"'],
        'VARIABLE': ['@v', "@'a b'", '@`a b`', '@"x"'], 'SYSTEM_VARIABLE': ['@@v', '@@session.x'],
        'PARAMETER': ['?'],
    }
    for tp, lxs in extra.items():
        for lx in lxs:
            add(tp, lx)
    # from the corpus
    for s in corpus_mod.load():
        try:
            for t in cls().tokenize(s):
                if t.type not in table or len(table[t.type]) < 3:
                    add(t.type, s[t.index:t.end])
        except (Exception, _Hang):
            pass
    _lex_cache[dialect] = table
    return table


def render(dialect, types, rng):
    """token types -> text (space separated lexemes)"""
    lx = lexemes(dialect)
    out = []
    for tp in types:
        c = lx.get(tp)
        if not c:
            return None
        out.append(c[0] if rng.random() < 0.6 else rng.choice(c))
    return ' '.join(out)


# ---------------------------------------------------------------- grammar sentences

class Grammar:
    def __init__(self, dialect):
        s = common.side(dialect)
        self.dialect = dialect
        self.terms = s['terms']
        self.termset = set(self.terms)
        self.prods = s['prods']
        self.by_lhs = {}
        for i, p in enumerate(self.prods):
            self.by_lhs.setdefault(p['lhs'], []).append(i)
        self.start = self.prods[0]['rhs'][0]
        # minimal derivation height per nonterminal / production
        INF = 10 ** 9
        h = {n: INF for n in self.by_lhs}
        ph = [INF] * len(self.prods)
        changed = True
        while changed:
            changed = False
            for i, p in enumerate(self.prods):
                m = 0
                for x in p['rhs']:
                    if x in self.termset:
                        continue
                    m = max(m, h.get(x, INF))
                v = m + 1 if m < INF else INF
                if v < ph[i]:
                    ph[i] = v
                    changed = True
                if v < h[p['lhs']]:
                    h[p['lhs']] = v
                    changed = True
        self.h, self.ph = h, ph
        self.used = [0] * len(self.prods)
        # which productions can reach which: for coverage targeting, parent links
        self.parents = {}
        for i, p in enumerate(self.prods):
            for x in p['rhs']:
                if x not in self.termset:
                    self.parents.setdefault(x, set()).add(i)

    def derive(self, rng, depth=9, sym=None, target=None):
        """random derivation; returns list of terminal names"""
        sym = sym or self.start
        out = []
        stack = [(sym, depth)]
        # iterative leftmost expansion
        while stack:
            x, d = stack.pop()
            if x in self.termset:
                out.append(x)
                continue
            cands = self.by_lhs[x]
            ok = [i for i in cands if self.ph[i] <= max(d, 1)] or [min(cands, key=lambda i: self.ph[i])]
            if d <= 1:
                m = min(self.ph[i] for i in ok)
                ok = [i for i in ok if self.ph[i] == m]
            # coverage guidance: prefer rarely used productions
            if rng.random() < 0.7:
                mn = min(self.used[i] for i in ok)
                ok2 = [i for i in ok if self.used[i] == mn]
                i = rng.choice(ok2)
            else:
                i = rng.choice(ok)
            self.used[i] += 1
            for y in reversed(self.prods[i]['rhs']):
                stack.append((y, d - 1))
            if len(out) + len(stack) > 400:
                depth = 0
                stack = [(s_, 0) for (s_, _) in stack]
        return out

    def coverage(self):
        return sum(1 for u in self.used if u), len(self.prods)


# ---------------------------------------------------------------- Earley recogniser

class Earley:
    """plain Earley recogniser over the exported grammar (terminal names); independent oracle"""

    def __init__(self, dialect):
        g = Grammar(dialect)
        self.g = g
        self.prods = [(p['lhs'], tuple(p['rhs'])) for p in g.prods]
        self.by_lhs = g.by_lhs
        self.termset = g.termset
        # nullable
        nullable = set()
        changed = True
        while changed:
            changed = False
            for lhs, rhs in self.prods:
                if lhs not in nullable and all(x in nullable for x in rhs):
                    nullable.add(lhs)
                    changed = True
        self.nullable = nullable

    def chart(self, toks):
        prods = self.prods
        n = len(toks)
        S = [set() for _ in range(n + 1)]
        order = [[] for _ in range(n + 1)]

        def add(k, item):
            if item not in S[k]:
                S[k].add(item)
                order[k].append(item)
        add(0, (0, 0, 0))
        for k in range(n + 1):
            i = 0
            while i < len(order[k]):
                p, dot, origin = order[k][i]
                i += 1
                lhs, rhs = prods[p]
                if dot < len(rhs):
                    x = rhs[dot]
                    if x in self.termset:
                        if k < n and toks[k] == x:
                            add(k + 1, (p, dot + 1, origin))
                    else:
                        for q in self.by_lhs[x]:
                            add(k, (q, 0, k))
                        if x in self.nullable:
                            add(k, (p, dot + 1, origin))
                else:
                    for (p2, dot2, o2) in list(S[origin]):
                        l2, r2 = prods[p2]
                        if dot2 < len(r2) and r2[dot2] == lhs:
                            add(k, (p2, dot2 + 1, o2))
            if k < n and not S[k + 1]:
                return S, k  # dead at token k
        return S, None

    def accepts(self, toks):
        S, dead = self.chart(toks)
        if dead is not None:
            return False
        return (0, 1, 0) in S[len(toks)]

    def viable_prefix_len(self, toks):
        """largest k such that toks[:k] is a prefix of some sentence (completability is assumed:
        every nonterminal is productive in these grammars)"""
        S, dead = self.chart(toks)
        return len(toks) if dead is None else dead


# ---------------------------------------------------------------- token-level mutations

def mutate(types, rng, alphabet):
    """one token-level mutation of a list of token types; returns (kind, new list)"""
    t = list(types)
    k = rng.choice(['delete', 'dup', 'replace', 'insert', 'prefix', 'suffix', 'infix', 'truncate', 'swap'])
    if not t:
        k = 'insert'
    if k == 'delete':
        del t[rng.randrange(len(t))]
    elif k == 'dup':
        i = rng.randrange(len(t))
        t.insert(i, t[i])
    elif k == 'replace':
        t[rng.randrange(len(t))] = rng.choice(alphabet)
    elif k == 'insert':
        t.insert(rng.randrange(len(t) + 1), rng.choice(alphabet))
    elif k == 'prefix':
        t = [rng.choice(alphabet) for _ in range(rng.randint(1, 3))] + t
    elif k == 'suffix':
        t = t + [rng.choice(alphabet) for _ in range(rng.randint(1, 3))]
    elif k == 'infix':
        i = rng.randrange(len(t) + 1)
        t[i:i] = [rng.choice(alphabet) for _ in range(rng.randint(1, 3))]
    elif k == 'truncate':
        t = t[:rng.randrange(len(t))]
    elif k == 'swap' and len(t) > 1:
        i = rng.randrange(len(t) - 1)
        t[i], t[i + 1] = t[i + 1], t[i]
    return k, t
