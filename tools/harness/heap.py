"""Object-graph helpers for C18: walk real Python object graphs by id(), serialise them for the Lean
heap model (Driver/Heap.lean), canonicalise a copy the same way Heap.canon does, enumerate mutations."""
import copy, enum, types

ATOMS = (str, int, float, bool, type(None), bytes, complex, type, types.FunctionType, types.BuiltinFunctionType,
         enum.Enum, range)


def is_atom(o):
    """immutable as far as copy.deepcopy and in-place mutation are concerned"""
    if isinstance(o, ATOMS):
        return True
    if isinstance(o, (tuple, frozenset)):
        return all(is_atom(x) for x in o)
    return False


def kind_of(o):
    if isinstance(o, list):
        return 'list'
    if isinstance(o, dict):
        return 'dict'
    if isinstance(o, tuple):
        return 'tuple'
    if isinstance(o, (set, frozenset)):
        return 'set'
    return type(o).__name__


def children(o):
    """ordered (key, value) pairs of a mutable object; keys are strings"""
    if isinstance(o, (list, tuple)):
        return [('', x) for x in o]
    if isinstance(o, dict):
        out = []
        for k, v in o.items():
            out.append(('K' + repr(k), v))
            if not is_atom(k):
                out.append(('', k))
        return out
    if isinstance(o, (set, frozenset)):
        return [('', x) for x in sorted(o, key=repr)]
    if hasattr(o, '__dict__'):
        return list(vars(o).items())
    return None      # opaque object


class Opaque(Exception):
    pass


def walk(root):
    """mutable objects reachable from root, in depth-first pre-order; dict id -> object"""
    order, seen = [], {}
    stack = [root]
    while stack:
        o = stack.pop()
        if is_atom(o) or id(o) in seen:
            continue
        ch = children(o)
        if ch is None:
            raise Opaque(type(o).__name__)
        seen[id(o)] = o
        order.append(o)
        for k, v in reversed(ch):
            stack.append(v)
    return order


class Interner:
    def __init__(self):
        self.atoms, self.keys = {}, {}

    def atom(self, o):
        k = (type(o).__name__, repr(o))
        if k not in self.atoms:
            self.atoms[k] = 'a%d' % len(self.atoms)
        return self.atoms[k]

    def key(self, k):
        if k == '' or (k.isidentifier() and not k.startswith('K')):
            return k
        if k not in self.keys:
            self.keys[k] = 'K%d' % len(self.keys)
        return self.keys[k]


def serialise(root, it=None):
    """-> (cells_text, root_val, addr_of: id -> address, objects, interner);  cell = 'kind k=v k=v'"""
    it = it or Interner()
    order = walk(root)
    addr = {id(o): i for i, o in enumerate(order)}

    def val(v):
        return it.atom(v) if is_atom(v) else 'r%d' % addr[id(v)]
    cells = []
    for o in order:
        cells.append(' '.join([kind_of(o)] + ['%s=%s' % (it.key(k), val(v)) for k, v in children(o)]))
    return cells, val(root), addr, order, it


def canon(root, old_addr, it):
    """mirror of Heap.canon: cells reachable from root numbered in pre-order; objects of the original
    graph (by id) are printed as o<addr> and not entered"""
    order, num = [], {}

    def visit(o):
        if is_atom(o) or id(o) in old_addr or id(o) in num:
            return
        ch = children(o)
        if ch is None:
            raise Opaque(type(o).__name__)
        num[id(o)] = len(order)
        order.append(o)
        for k, v in ch:
            visit(v)

    def val(v):
        if is_atom(v):
            return it.atom(v)
        if id(v) in old_addr:
            return 'o%d' % old_addr[id(v)]
        return 'n%d' % num[id(v)]
    import sys
    lim = sys.getrecursionlimit()
    sys.setrecursionlimit(max(lim, 20000))
    try:
        visit(root)
    finally:
        sys.setrecursionlimit(lim)
    cells = [' '.join([kind_of(o)] + ['%s=%s' % (it.key(k), val(v)) for k, v in children(o)]) for o in order]
    return val(root) + ' ; ' + ' ; '.join(cells)


def shared_objects(a, b):
    """mutable objects reachable from both a and b (by identity)"""
    ia = {id(o): o for o in walk(a)}
    return [o for o in walk(b) if id(o) in ia]


def path_to(root, target):
    """attribute path from root to the object `target` (for messages)"""
    seen = set()

    def go(o, path):
        if o is target:
            return path
        if is_atom(o) or id(o) in seen:
            return None
        seen.add(id(o))
        for i, (k, v) in enumerate(children(o) or []):
            r = go(v, path + ['.%s' % k if k else '[%d]' % i])
            if r is not None:
                return r
        return None
    r = go(root, [])
    return ''.join(r) if r is not None else '?'


class Marker:
    """a value no tree contains"""
    def __repr__(self):
        return '<marker>'

    def __str__(self):
        return '⟦marker⟧'


def mutations(root, rng, limit=None):
    """single in-place mutations of the graph below root: (description, apply()) pairs.
    set every attribute of every object to another value (None / toggled bool / changed string / number / a
    fresh Identifier), append to / remove from / replace in every list, set / delete dict entries."""
    out = []
    objs = walk(root)
    for o in objs:
        p = None
        if isinstance(o, list):
            out.append((o, 'append', lambda o=o: o.append('zz_new')))
            if o:
                out.append((o, 'remove-last', lambda o=o: o.pop()))
                out.append((o, 'remove-first', lambda o=o: o.pop(0)))
                out.append((o, 'replace-first', lambda o=o: o.__setitem__(0, 'zz_repl')))
                out.append((o, 'clear', lambda o=o: o.clear()))
        elif isinstance(o, dict):
            out.append((o, 'dict-add', lambda o=o: o.__setitem__('zz_key', 'zz_val')))
            for k in list(o)[:3]:
                out.append((o, 'dict-set %r' % (k,), lambda o=o, k=k: o.__setitem__(k, 'zz_val')))
                out.append((o, 'dict-del %r' % (k,), lambda o=o, k=k: o.__delitem__(k)))
        elif hasattr(o, '__dict__') and not isinstance(o, (tuple, set, frozenset)):
            for k, v in list(vars(o).items()):
                if isinstance(v, bool):
                    new = not v
                elif isinstance(v, str):
                    new = v + '_zz'
                elif isinstance(v, (int, float)):
                    new = v + 1
                elif v is None:
                    new = 'zz_set'
                else:
                    new = None
                out.append((o, 'set .%s' % k, lambda o=o, k=k, new=new: setattr(o, k, new)))
    if limit is not None and len(out) > limit:
        out = rng.sample(out, limit)
    return out


def iso_check(a, b, it):
    """mirror of Heap.isoCheck: is the graph below b a structural copy of the graph below a
    (same classes, attribute names / keys in order, atoms; references related consistently)?"""
    if is_atom(a) or is_atom(b):
        return is_atom(a) and is_atom(b) and it.atom(a) == it.atom(b)
    rel = set()
    order = []
    stack = [(a, b)]
    while stack:
        x, y = stack.pop()
        if is_atom(x) or is_atom(y):
            continue
        if (id(x), id(y)) in rel:
            continue
        rel.add((id(x), id(y)))
        order.append((x, y))
        cx, cy = children(x), children(y)
        for (k1, v1), (k2, v2) in reversed(list(zip(cx, cy))):
            stack.append((v1, v2))
    for x, y in order:
        cx, cy = children(x), children(y)
        if kind_of(x) != kind_of(y) or len(cx) != len(cy):
            return False
        for (k1, v1), (k2, v2) in zip(cx, cy):
            if it.key(k1) != it.key(k2):
                return False
            if is_atom(v1) or is_atom(v2):
                if not (is_atom(v1) and is_atom(v2) and it.atom(v1) == it.atom(v2)):
                    return False
            elif (id(v1), id(v2)) not in rel:
                return False
    return True
