"""Object histories (C04 round 5): observations interleaved with in-place edits of AST nodes.

A history is a statement template (parsed by the real parser) plus a list of JSON-able edits; every edit names a node by
its path from the root and changes one attribute IN PLACE, the way the parser / planner do
(`table.parts.pop(0)`, `table.parts.insert(0, x)`, `node.parts = …`, `node.alias = …`, `node.op = '='`,
`param.value = …`, `query.where = …`, `query.limit = None`, …).  Edits are discovered generically by walking the
tree: every Identifier / Constant / Variable / Parameter / operation / Select / Join / Function / Tuple / Insert /
Update node found contributes the edits that apply to its class, so a new statement template extends the stream to new
node classes without further code.

Oracles (applied by tools/props/c04.py):
 A. history independence — the tree that was observed (str, to_string, to_tree, ==, repr, copies) between the edits
    prints exactly what a tree prints that went through the same edits and was never looked at, and shows the same
    to_tree();
 B. current state — the printed text, parsed again, holds at the edited place the value the node holds NOW
    (identifier parts, constant value and type, variable name).
"""
import copy

TEMPLATES = [
    "SELECT t.a AS x, b FROM Int1.`My Tab` AS m WHERE t.c = 'v' AND d > 1 ORDER BY t.a LIMIT 5",
    "SELECT f(a, 'x'), CAST(b AS int) FROM p.t1 JOIN q.t2 ON t1.id = t2.id WHERE t1.k IN ('x', 'y')",
    "INSERT INTO a.b (c1, c2) VALUES (1, 'x')",
    "UPDATE a.b SET c = 'v' WHERE d = @var_a",
    "SELECT * FROM t WHERE a = 2.5 AND b = @@sysv",
    "DELETE FROM a.b WHERE c = 'x'",
    "SELECT a FROM (SELECT b FROM c.d WHERE e = 'q') AS s WHERE s.b > 0",
    "SELECT a FROM t1 UNION SELECT b FROM t2",
    "SELECT Col FROM Proj.Tbl WHERE Col = 'it''s' GROUP BY Col HAVING count(x) > 1",
]

IDENT_WORDS = ['Proj.A', 'Zz9', 'select', 'x y', 'NAME', 'a`b', 'Int2', 'a\r\nb', 'é', '1a']


def build(ti, edits=()):
    """fresh tree of template `ti` with `edits` applied, nothing observed"""
    from mindsdb_sql import parse_sql
    t = parse_sql(TEMPLATES[ti], 'mindsdb')
    for e in edits:
        apply_edit(t, e)
    return t


def is_node(x):
    from mindsdb_sql.parser.ast.base import ASTNode
    return isinstance(x, ASTNode)


def walk(x, path=()):
    """(path, object) of every AST node below `x`; path items: attribute name, list index, ['k', key]"""
    if is_node(x):
        yield path, x
        for k, v in vars(x).items():
            if is_node(v) or isinstance(v, (list, dict)):
                yield from walk(v, path + (k,))
    elif isinstance(x, list):
        for i, v in enumerate(x):
            if is_node(v) or isinstance(v, (list, dict)):
                yield from walk(v, path + (i,))
    elif isinstance(x, dict):
        for k, v in x.items():
            if is_node(v) or isinstance(v, (list, dict)):
                yield from walk(v, path + (['k', k],))


def resolve(root, path):
    x = root
    for p in path:
        if isinstance(p, (list, tuple)):
            x = x[p[1]]
        elif isinstance(p, int):
            x = x[p]
        else:
            x = getattr(x, p)
    return x


def mk(spec):
    """value of an edit argument: plain data, or {'Identifier': parts} / {'Constant': value} / {'Cmp': [col, value]}"""
    from mindsdb_sql.parser import ast as A
    if isinstance(spec, dict):
        if 'Identifier' in spec:
            return A.Identifier(parts=list(spec['Identifier']))
        if 'Constant' in spec:
            return A.Constant(spec['Constant'])
        if 'Cmp' in spec:
            return A.BinaryOperation('=', args=[A.Identifier(parts=[spec['Cmp'][0]]), A.Constant(spec['Cmp'][1])])
        raise ValueError(spec)
    if isinstance(spec, list):
        return [mk(x) for x in spec]
    return spec


def apply_edit(root, e):
    """one in-place edit.  e = dict(path, attr, op, args)"""
    node = resolve(root, e['path'])
    attr, op, args = e['attr'], e['op'], e.get('args', [])
    if op == 'set':                                 # node.attr = value   (re-binding)
        setattr(node, attr, mk(args[0]))
        return
    if op == 'swap':                                # node.a, node.b = node.b, node.a
        a, b = getattr(node, attr), getattr(node, args[0])
        setattr(node, attr, b)
        setattr(node, args[0], a)
        return
    box = getattr(node, attr)                       # the list / dict object held by the node, edited in place
    if op == 'pop':
        box.pop(args[0])
    elif op == 'del':
        del box[args[0]]
    elif op == 'insert':
        box.insert(args[0], mk(args[1]))
    elif op == 'append':
        box.append(mk(args[0]))
    elif op == 'setitem':
        box[args[0]] = mk(args[1])
    elif op == 'extend':
        box.extend([mk(a) for a in args[0]])
    elif op == 'iadd':
        box += [mk(a) for a in args[0]]             # list.__iadd__: in place
    elif op == 'slice':
        box[:] = [mk(a) for a in args[0]]
    elif op == 'reverse':
        box.reverse()
    elif op == 'setkey':
        box[args[0]] = mk(args[1])
    else:
        raise ValueError(op)


def candidates(root, rng):
    """the edits that apply to the nodes of this tree (JSON-able), a random sample per node"""
    from mindsdb_sql.parser import ast as A
    out = []
    for path, n in walk(root):
        P = list(path)
        cls = type(n).__name__
        is_alias = bool(path) and path[-1] == 'alias'
        under_insert_cols = 'columns' in path

        def E(attr, op, *args, leaf=None):
            out.append(dict(path=P, cls=cls, attr=attr, op=op, args=list(args), leaf=leaf))
        if type(n) is A.Identifier and all(isinstance(p, str) for p in n.parts):
            w = rng.choice(IDENT_WORDS)
            if is_alias or under_insert_cols:
                E('parts', 'setitem', 0, rng.choice(['Q q', 'zz', 'NAME', 'select']), leaf='ident')
                E('parts', 'set', [rng.choice(['k1', 'K 2'])], leaf='ident')
                E('parts', 'slice', [rng.choice(['s1', 'S 2'])], leaf='ident')
            else:
                if len(n.parts) > 1:
                    E('parts', 'pop', 0, leaf='ident')
                    E('parts', 'del', rng.randrange(len(n.parts)), leaf='ident')
                    E('parts', 'reverse', leaf='ident')
                if len(n.parts) < 3:
                    E('parts', 'insert', rng.choice([0, len(n.parts)]), w, leaf='ident')
                    E('parts', 'append', rng.choice(IDENT_WORDS), leaf='ident')
                    E('parts', 'extend', [rng.choice(IDENT_WORDS)], leaf='ident')
                    E('parts', 'iadd', [rng.choice(IDENT_WORDS)], leaf='ident')
                i = rng.randrange(len(n.parts))
                E('parts', 'setitem', i, rng.choice([n.parts[i].upper(), n.parts[i].swapcase(), w]), leaf='ident')
                E('parts', 'slice', [rng.choice(IDENT_WORDS), 'c'], leaf='ident')
                E('parts', 'set', [rng.choice(IDENT_WORDS)], leaf='ident')
        if type(n) is A.Constant and path and path[-1] in ('limit', 'offset'):
            E('value', 'set', rng.choice([7, 0, 10 ** 20]), leaf='const')
        elif type(n) is A.Constant:
            E('value', 'set', rng.choice(["it's", 'a\r\nb', 'v2', '\\', 'x\\\'y', '']), leaf='const')
            E('value', 'set', rng.choice([7, 0, 10 ** 20, 2.5e-07, 1e+16, 0.1, 123.456, True]), leaf='const')
        if type(n) is A.Variable:
            E('value', 'set', rng.choice(['v2', 'a b', 'var9', 'x.y']), leaf='var')
            E('is_system_var', 'set', not n.is_system_var, leaf='var')
        if type(n) is A.Parameter:
            E('value', 'set', rng.choice(['?', 'p1']))
        if getattr(n, 'alias', None) is not None and not is_alias:
            E('alias', 'set', {'Identifier': [rng.choice(['zz', 'Q q', 'select'])]})
            if cls != 'Select':
                E('alias', 'set', None)
        if type(n) is A.BinaryOperation:
            flip = {'=': '!=', '!=': '=', '>': '<', '<': '>', 'and': 'or', 'or': 'and', '>=': '<='}
            if str(n.op).lower() in flip:
                E('op', 'set', flip[str(n.op).lower()])
            if str(n.op).lower() in ('=', '>', '<', '!='):
                E('args', 'setitem', 1, {'Constant': rng.choice(['z', 3, 1.5e-07])})
                E('args', 'reverse')
        if type(n) is A.Select:
            E('limit', 'set', {'Constant': 9} if n.limit is None else None)
            E('distinct', 'set', not n.distinct)
            E('targets', 'append', {'Identifier': [rng.choice(['zz', 'Z z'])]})
            E('targets', 'setitem', 0, {'Constant': rng.choice(['c', 1])})
            if len(n.targets) > 1:
                E('targets', 'pop', 0)
                E('targets', 'reverse')
            if n.where is not None:
                E('where', 'set', None)
            E('where', 'set', {'Cmp': ['w1', rng.choice(['u', 5])]})
            if n.order_by:
                E('order_by', 'set', None)
            if n.from_table is not None and type(n.from_table) is A.Identifier:
                E('from_table', 'set', {'Identifier': ['Other', 'T b']})
        if type(n) is A.Join:
            E('left', 'swap', 'right')
            E('join_type', 'set', 'LEFT JOIN')
        if type(n) is A.Function:
            E('args', 'append', {'Constant': 3})
            E('op', 'set', 'g')
            if len(n.args) > 1:
                E('args', 'pop', 0)
        if type(n) is A.TypeCast:
            E('type_name', 'set', 'float')
        if type(n) is A.Tuple:
            E('items', 'append', {'Constant': 'z'})
            if len(n.items) > 1:
                E('items', 'pop', 0)
        if type(n) is A.Insert and n.values:
            E('values', 'setitem', 0, [{'Constant': 5}, {'Constant': 'y'}])
        if type(n) is A.Update:
            k = next(iter(n.update_columns))
            E('update_columns', 'setkey', k, {'Constant': rng.choice(['w', 2])})
            E('update_columns', 'setkey', 'n2', {'Constant': 1})
        if type(n) is A.Union:
            E('left', 'swap', 'right')
            E('unique', 'set', not n.unique)
    return out


def observe(tree, edited=None):
    """everything a caller may do to LOOK at a tree; none of it may change what the tree prints later"""
    str(tree)
    tree.to_string()
    tree.to_tree()
    repr(tree)
    try:
        tree == copy.deepcopy(tree)
    except Exception:
        pass
    copy.copy(tree)
    for _, n in walk(tree):
        try:
            n.to_string()
            n.get_string()
        except Exception:
            pass
    if edited is not None:
        str(edited)
        copy.copy(edited)


def leaf_state(node):
    """the value a value-carrying node holds now"""
    cls = type(node).__name__
    if cls == 'Identifier':
        return ('ident', [str(p) for p in node.parts])
    if cls == 'Constant':
        return ('const', type(node.value).__name__, repr(node.value))
    if cls == 'Variable':
        return ('var', bool(node.is_system_var), node.value)
    if cls == 'UnaryOperation' and str(node.op) == '-' and len(node.args) == 1 and type(node.args[0]).__name__ == 'Constant':
        v = node.args[0].value
        return ('const', type(v).__name__, repr(-v))
    return ('other', cls)


def gen_history(ti, rng, max_edits=3):
    """a random list of edits for template `ti` (drawn on a scratch tree that is never printed)"""
    edits = []
    for _ in range(rng.randint(1, max_edits)):
        cands = candidates(build(ti, edits), rng)
        if not cands:
            break
        edits.append(rng.choice(cands))
    return edits


def run_history(ti, edits):
    """replay a history on a tree that is looked at between the edits; first violation of oracle A / B or None"""
    from mindsdb_sql import parse_sql
    test = build(ti)
    observe(test)
    for k, e in enumerate(edits):
        apply_edit(test, e)
        ref = build(ti, edits[:k + 1])          # same edits, never observed
        out = []
        for t in (test, ref):
            try:
                out.append(str(t))
            except Exception as ex:
                out.append('EXC %s: %s' % (type(ex).__name__, ex))
        s_test, s_ref = out
        if s_test != s_ref or (not s_test.startswith('EXC') and test.to_tree() != ref.to_tree()):
            return dict(oracle='A', step=k, printed=s_test, unobserved=s_ref,
                        why='the observed tree prints %r, a tree with the same edits that was never looked at prints %r'
                            % (s_test, s_ref))
        if e.get('leaf') and not s_test.startswith('EXC'):
            held = leaf_state(resolve(test, e['path']))
            try:
                got = leaf_state(resolve(parse_sql(s_test, 'mindsdb'), e['path']))
            except Exception as ex:
                got = ('exc', type(ex).__name__)
            if list(got) != list(held):
                return dict(oracle='B', step=k, printed=s_test, held=list(held), denoted=list(got),
                            why='the node holds %r, the printed text %r denotes %r there' % (held, s_test, got))
        observe(test, resolve(test, e['path']))
    return None
