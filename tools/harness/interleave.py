"""Shared (module / class level) state of mindsdb_sql observed DURING a call, and interleavings at call granularity
(C20, round 6).

A call that changes a module-level or class-level attribute for a while and restores it before it returns (save /
restore, a context manager around a nested call) is invisible to every sequential comparison: the state before and
after the call is the same.  Another thread that runs in between sees the changed value.

* `Watch`: while a call runs, a profile hook fires at every entry into a function defined in the library
  (`co_filename` below <repo>/mindsdb_sql or <repo>/sly); at each such BOUNDARY the data attributes of every
  `mindsdb_sql.*` module and of every class defined there are compared with their values at the start of the call
  (atoms by value, everything else by identity + length).  An attribute that differs at a boundary and is back at the
  end is `transient`; one that still differs at the end is `persistent`.
* injection: at chosen boundaries the hook runs OTHER calls (victims) in the same thread and returns their results.
  With the GIL a thread switch can happen at any of these points, so "victim V run at boundary k of call A" is a
  legal two-thread schedule executed deterministically; V's answer must be what V answers alone, and A's answer must
  not change either.  (Model: `runSchedW` / `C20_quiet_steps_noninterference` in Props/C20.lean — steps = boundaries.)
Used by tools/extract/x_footprint.py (`Gen/Footprint.lean: moduleWrites`, kernel obligation in Props/C20B.lean) and by
tools/props/c20.py (streams `interleave`, `fallback-storm`)."""
import os, sys, types

from tools.harness import common

_MISSING = object()
_DESCR = (property, classmethod, staticmethod, types.MemberDescriptorType, types.GetSetDescriptorType, types.FunctionType,
          types.BuiltinFunctionType, types.MethodType, types.WrapperDescriptorType, types.MethodDescriptorType)


def _atom(v):
    return isinstance(v, (str, int, float, bool, type(None), bytes))


def fingerprint(v):
    if _atom(v):
        return ('a', type(v).__name__, v)
    try:
        n = len(v)
    except Exception:
        n = -1
    return ('o', id(v), n)


def show(v):
    if _atom(v):
        return repr(v)[:80]
    try:
        return '<%s len=%d>' % (type(v).__name__, len(v))
    except Exception:
        return '<%s>' % type(v).__name__


def watched():
    """[(holder label, attribute, holder object)] — data attributes of mindsdb_sql modules and of the classes they define"""
    out = []
    for name, m in sorted(sys.modules.items()):
        if m is None or not (name == 'mindsdb_sql' or name.startswith('mindsdb_sql.')):
            continue
        for k, v in list(vars(m).items()):
            if k.startswith('__') or isinstance(v, types.ModuleType):
                continue
            if isinstance(v, type):
                if getattr(v, '__module__', '') == name:
                    for ck, cv in list(vars(v).items()):
                        if ck.startswith('__') or isinstance(cv, _DESCR) or (callable(cv) and not isinstance(cv, type)):
                            continue
                        out.append(('%s:%s' % (name, v.__qualname__), ck, v))
                continue
            if callable(v):
                continue
            out.append((name, k, m))
    return out


class Watch:
    """with Watch() as w: w.run(thunk, inject_at={k: [victim thunks]})"""

    def __init__(self):
        root = os.path.realpath(common.REPO)
        self.prefixes = (os.path.join(root, 'mindsdb_sql') + os.sep, os.path.join(root, 'sly') + os.sep,
                         os.path.join(common.REPO, 'mindsdb_sql') + os.sep, os.path.join(common.REPO, 'sly') + os.sep)
        self.entries = None

    def new_attributes(self):
        """data attributes that exist now and did not when this Watch object first looked (a global created by a call)"""
        seen = {(h, a) for h, a, _ in self.entries or []}
        holders = {h for h, _, _ in self.entries or []}        # modules / classes loaded later are not "new attributes"
        return sorted((h, a) for h, a, _ in watched() if h in holders and (h, a) not in seen)

    def run(self, thunk, inject_at=None, check=True, on_transient=None):
        """returns dict(result | exc, boundaries, transient={(holder, attr): value seen}, persistent={...},
        injected={k: [results of the victims]}); inject_at = {boundary number: [victim thunks]}; on_transient = victim
        thunks to run at the boundary where a watched attribute is first seen changed"""
        if check and self.entries is None:
            self.entries = watched()          # enumerated once per Watch object; see new_attributes()
        entries = self.entries if check else []
        base = [(h, a, o, fingerprint(vars(o).get(a, _MISSING))) for h, a, o in entries]
        # fast path per boundary: (mapping, key, value at start, length at start or None)
        quick = []
        for h, a, o in entries:
            v0 = vars(o).get(a, _MISSING)
            n0 = None
            if not _atom(v0):
                try:
                    n0 = len(v0)
                except Exception:
                    n0 = None
            quick.append((vars(o), a, v0, n0, h))
        transient, injected = {}, {}
        state = dict(n=0, busy=False)
        prefixes = self.prefixes
        inject_at = dict(inject_at or {})

        def boundary():
            k = state['n']
            state['n'] = k + 1
            fresh_transient = False
            for d, a, v0, n0, h in quick:
                v = d.get(a, _MISSING)
                if v is v0:
                    if n0 is None or len(v) == n0:
                        continue
                elif n0 is None and type(v) is type(v0) and v == v0 and _atom(v0):
                    continue
                if (h, a) not in transient:
                    transient[(h, a)] = dict(at=k, value=show(v))
                    fresh_transient = True
            if k in inject_at or (fresh_transient and on_transient):
                if k not in inject_at:
                    inject_at[k] = on_transient
                state['busy'] = True
                sys.setprofile(None)
                try:
                    injected[k] = [_safe(v) for v in inject_at[k]]
                finally:
                    state['busy'] = False
                    sys.setprofile(hook)

        def hook(frame, event, arg):
            if event == 'call' and not state['busy'] and frame.f_code.co_filename.startswith(prefixes):
                boundary()

        out = {}
        sys.setprofile(hook)
        try:
            try:
                out['result'] = thunk()
            except Exception as e:
                out['exc'] = '%s:%s' % (type(e).__name__, e)
        finally:
            sys.setprofile(None)
        persistent = {}
        for h, a, o, f0 in base:
            v = vars(o).get(a, _MISSING)
            if fingerprint(v) != f0:
                persistent[(h, a)] = dict(value=show(v))
        for key in persistent:
            transient.pop(key, None)
        out.update(boundaries=state['n'], transient=transient, persistent=persistent, injected=injected,
                   watched=len(entries))
        return out


def _safe(thunk):
    try:
        return thunk()
    except Exception as e:
        return 'exc:%s:%s' % (type(e).__name__, e)


# ------------------------------------------------------------------------------------------------ the calls
# statements the sqlalchemy path of the renderer rejects (NotImplementedError / SQLAlchemyError -> fallback = printing the
# tree), with identifiers that need quoting so that the printed text depends on the quoting rules in force
FALLBACK_SQL = [
    'select `my col`, `order` from x.y.`my tab` where `select` = 1',
    'select t1.`x y` from t1 right join `group` t2 on t1.id = t2.id',
    'create table `my tab` (select `order`, `x y` from items)',
    'show tables', 'describe `my tab`', 'drop view `my view`', 'create database `my db`',
    'select * from a.b.c where `from` = 2',
]
# plain statements and trees whose text shows the quoting rules
QUOTING_SQL = [
    'select `order`, `x y` from crm.`select` where `group` = 1',
    'select t.`my col` from `my tab` t join items i on i.id = t.id',
    'insert into `my tab` (`order`, `x y`) values (1, 2)',
]
# a statement whose fallback print takes long (many identifiers to quote): a wide window for the real-thread stream
WIDE_FALLBACK_SQL = 'select %s from x.y.`my tab` where `select` = 1' % ', '.join('`c %d`' % i for i in range(60))


def job_thunk(job):
    """thunk for a C20 job tuple (kind, arg, d) — evaluated by tools.props.c20.do_job"""
    from tools.props import c20
    return lambda: c20.do_job(tuple(job))


def entry_jobs():
    """(entry label, job) pairs of the fixed module-state probe: every public entry point, fallback paths of every
    renderer dialect included"""
    from tools.harness.reuse import RENDER_DIALECTS
    out = []
    for d in RENDER_DIALECTS:
        for sql in FALLBACK_SQL[:3]:
            out.append(('render_fallback', ('render', sql, d)))
        out.append(('render', ('render', QUOTING_SQL[0], d)))
        out.append(('render_strict', ('rstrict', FALLBACK_SQL[0], d)))
        out.append(('render_exec', ('rexec', QUOTING_SQL[2], d)))
    for k, sql in enumerate(QUOTING_SQL + ['select * from', 'CREATE', 'select 1 1']):
        for d in ('mindsdb', 'mysql', 'sqlite')[:3 if k % 3 == 0 else 1]:
            out.append(('parse', ('parse', sql, d)))
    for sql in ['select * from int1.t1 a join int2.t2 b on a.id = b.id', 'select * from int1.`order` t join mindsdb.pred m',
                'select * from nosuch.t1 join int9.t2', 'select * from t1', 'insert into int1.`my tab` (a) values (1)']:
        out.append(('plan', ('plan', sql, 'mindsdb')))
    for sql, cat in (('select * from tab1 where a = 1', 'api'), ('select * from tab1 t1 join int2.t2 t2 on t1.id = t2.id', 'mixed'),
                     ('select * from tab6 t join mindsdb.pred p', 'legacy')):
        out.append(('plan', ('plan', sql, cat)))
    return out


def probe_modules():
    """[(entry, holder, attr, kind)] over the fixed probe — what goes into Gen/Footprint.lean; also the number of
    boundaries seen and of attributes watched (non-blindness pins)"""
    from mindsdb_sql.parser.ast.select.identifier import get_reserved_words
    get_reserved_words()                      # the lazily filled global is the business of the cold-start streams
    rows, boundaries, n_watched = set(), 0, 0
    w = Watch()
    for entry, job in entry_jobs():
        job_thunk(job)()                      # warm: lazily built per-dialect structures are not this probe's business
        r = w.run(job_thunk(job))
        boundaries += r['boundaries']
        n_watched = max(n_watched, r['watched'])
        for (h, a) in r['transient']:
            rows.add((entry, h, a, 'transient'))
        for (h, a) in r['persistent']:
            rows.add((entry, h, a, 'persistent'))
    for h, a in w.new_attributes():
        rows.add(('any', h, a, 'persistent'))
    return dict(rows=sorted(rows), boundaries=boundaries, watched=n_watched, entries=sorted({e for e, _ in entry_jobs()}),
                module_globals=sorted('%s.%s' % (h, a) for h, a, o in watched() if isinstance(o, types.ModuleType)),
                self_test=self_test())


def self_test():
    """does the probe see a module-level attribute that is switched around a nested library call and restored?
    (a sentinel attribute is put on mindsdb_sql.parser.ast.select.identifier for the duration of the test)"""
    from mindsdb_sql.parser.ast.select import identifier as mod
    from mindsdb_sql.parser.ast import Identifier
    name = '_verif_probe_sentinel'
    setattr(mod, name, 0)
    try:
        def thunk():
            setattr(mod, name, 1)
            try:
                return str(Identifier(parts=['x y', 'select']))
            finally:
                setattr(mod, name, 0)
        r = Watch().run(thunk)
        return (mod.__name__, name) in r['transient'] and not r['persistent'] and r['boundaries'] > 0
    finally:
        delattr(mod, name)
