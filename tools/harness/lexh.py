"""Shared pieces of the C04 / C07 harness: code-point line protocol, the Python mirror of the Lean
specification `Denote` (independent of the library), real-code observers."""
import itertools, json, os, re
from . import common

ALPHABET = ["'", '"', '\\', 'a', '.', '`', '\n', 'é']


def enc(s):
    return ','.join(str(ord(c)) for c in s) or '-'


def dec(s):
    return '' if s == '-' else ''.join(chr(int(x)) for x in s.split(','))


def dec_list(s):
    assert s[0] == '[' and s[-1] == ']'
    body = s[1:-1]
    if body == '':
        return []
    return [dec(x) if x else '' for x in body.split('|')]


def strings_upto(n, alphabet=ALPHABET):
    for k in range(n + 1):
        for t in itertools.product(alphabet, repeat=k):
            yield ''.join(t)


def random_string(rng, lo, hi, alphabet=ALPHABET, extra=''):
    pool = alphabet + list(extra)
    return ''.join(rng.choice(pool) for _ in range(rng.randint(lo, hi)))


UNICODE_POOL = ['é', 'ı', 'K', 'ſ', 'İ', '٣', '\U0001f600', '中', '\x00', '\t', ' ', '%', ':',
                ';', '-', '/', '*', '_', '$', '0', 'Z', 'n', '(', ')', ',', '@', '?', '=', '\r', ' ', 'x']


# ---------------------------------------------------------------- spec mirror (Lean: Model/Denote.lean)
def spec_scan(s, q, dbl):
    """s starts with q; returns (items, rest) or None.  items: ('c',ch) | ('e',ch) | ('qq',)"""
    if not s or s[0] != q:
        return None
    i, items = 1, []
    n = len(s)
    while i < n:
        c = s[i]
        if c == '\\':
            if i + 1 >= n:
                return None
            items.append(('e', s[i + 1]))
            i += 2
        elif c == q:
            if dbl and i + 1 < n and s[i + 1] == q:
                items.append(('qq',))
                i += 2
            else:
                return items, s[i + 1:]
        else:
            items.append(('c', c))
            i += 1
    return None


def item_val(it, q):
    if it[0] == 'c':
        return it[1]
    if it[0] == 'qq':
        return q
    return it[1] if it[1] in '\'"\\' else '\\' + it[1]


def denote(items, q):
    return ''.join(item_val(i, q) for i in items)


def is_q(it, q):
    return it[0] == 'qq' or (it[0] == 'e' and it[1] == q)


def has_esc_backslash(items):
    return ('e', '\\') in items


def edge_quote(items, q):
    return bool(items) and (is_q(items[0], q) or is_q(items[-1], q))


def esc_quote_run(items, q):
    """Lean escQuoteRun: an escaped delimiter directly followed by another delimiter item"""
    return any(items[i] == ('e', q) and is_q(items[i + 1], q) for i in range(len(items) - 1))


def esc_quote_run_exact(items, q):
    """the exact failing shape: a maximal run of delimiter items holding >= 2 backslash-escaped delimiters"""
    cnt = 0
    for it in items:
        if is_q(it, q):
            if it == ('e', q):
                cnt += 1
                if cnt >= 2:
                    return True
        else:
            cnt = 0
    return False


def uses_escape(items):
    return any(it[0] == 'qq' or (it[0] == 'e' and it[1] in '\'"\\') for it in items)


def show_items(items):
    return ','.join('qq' if it[0] == 'qq' else '%s%d' % (it[0], ord(it[1])) for it in items) or '-'


def enc_ok(v):
    """every backslash of the value is followed by a character other than \\ ' " (Lean: encOK)"""
    for i, c in enumerate(v):
        if c == '\\' and (i + 1 >= len(v) or v[i + 1] in '\\\'"'):
            return False
    return True


# ---------------------------------------------------------------- real-code observers
def observe_select(dialect, text):
    """parse `select <text>`; classify the single target"""
    from mindsdb_sql import parse_sql
    from mindsdb_sql.parser import ast as A
    try:
        a = parse_sql('select ' + text, dialect)
    except Exception as e:
        return ('exc', type(e).__name__)
    if type(a).__name__ != 'Select' or len(a.targets) != 1 or a.from_table is not None or a.where is not None:
        return ('other', type(a).__name__)
    t = a.targets[0]
    if getattr(t, 'alias', None) is not None:
        return ('other', 'alias')
    # `-<number>`: the MindsDB grammar folds it into the constant, sqlite / mysql keep a unary minus; both denote -n
    if type(t).__name__ == 'UnaryOperation' and str(t.op) == '-' and len(t.args) == 1 and type(t.args[0]) is A.Constant \
            and getattr(t.args[0], 'alias', None) is None and type(t.args[0].value) in (int, float):
        v = t.args[0].value
        return ('int' if type(v) is int else 'float', -v)
    if type(t) is A.Constant:
        v = t.value
        if isinstance(v, bool):
            return ('bool', v)
        if isinstance(v, str):
            return ('str', v)
        if isinstance(v, int):
            return ('int', v)
        if isinstance(v, float):
            return ('float', v)
        return ('other', 'const:' + type(v).__name__)
    if type(t) is A.Identifier:
        if all(isinstance(p, str) for p in t.parts):
            return ('ident', list(t.parts))
        return ('other', 'ident-star')
    return ('other', type(t).__name__)


def observe_variable(dialect, text):
    """parse `select <text>`; ('var', is_system, name) for a lone un-aliased Variable target"""
    from mindsdb_sql import parse_sql
    try:
        a = parse_sql('select ' + text, dialect)
    except Exception as e:
        return ('exc', type(e).__name__)
    if type(a).__name__ != 'Select' or len(a.targets) != 1 or a.from_table is not None or a.where is not None:
        return ('other', type(a).__name__)
    t = a.targets[0]
    if getattr(t, 'alias', None) is not None:
        return ('other', 'alias')
    if type(t).__name__ != 'Variable':
        return ('other', type(t).__name__)
    return ('var', bool(t.is_system_var), t.value)


_VARCLASS = re.compile(r'[a-zA-Z_.$]', re.I)


def var_ok(name):
    """Lean VarCodec.VarOK: the names some source text denotes"""
    if not name or not _VARCLASS.fullmatch(name[0]):
        return False
    return bool(re.fullmatch(r'[a-zA-Z_.$]+', name)) or '`' not in name or '"' not in name or "'" not in name


def first_token(dialect, text):
    """(type, value, end) of the first token the real lexer produces, or None on LexError / no token"""
    from mindsdb_sql import get_lexer_parser
    lexer, _ = get_lexer_parser(dialect)
    try:
        for t in lexer.tokenize(text):
            return (t.type, t.value, t.end)
    except Exception:
        return None
    return None


def lex_side():
    return json.load(open(os.path.join(common.ROOT, 'gen', 'lex.json')))


# ---------------------------------------------------------------- round 5: pre-lexing step, content alphabets
# every control / white-space character that a text normalisation in front of the lexer could touch
CTRL = ['\r', '\n', '\t', '\x0b', '\x0c', '\x1c', '\x1d', '\x1e', '\x1f', '\x85', '\u2028', '\u2029']
# content that Unicode / white-space / case normalisations, BOM or NUL stripping, smart-quote replacement would change
NORMALISE_POOL = ['e\u0301', '\xe9', '\ufb01', '\uff21', '\xb2', 'a  b', ' a', 'a ', '  ', '\ufeff', 'a\ufeffb',
                  '\u200b', '\xa0', 'a\xa0b', '\xdf', '\u0130', '\u2018', '\u2019x', '\u201c', '\u201d', 'a\tb',
                  '\x7f', '\x1b[0m', '\xad', '\u202e', '\u212b', '\u1e9b\u0323', 'A\u030a', ' \t ', '\x01', 'a\x00b',
                  'x;', ';', 'a;\n', '\\\r\n', '--\r\n', '/*\r\n*/', '\r\n;', 'Tab\there',
                  '\uff33\uff25\uff2c\uff25\uff23\uff34']


def ctrl_contents():
    """contents holding every ordered pair (and every single) of the control / white-space characters: alone and
    between two letters"""
    out = []
    for a in CTRL:
        out += [a, 'a' + a + 'b']
        for b in CTRL:
            out += [a + b, 'a' + a + b + 'b']
    return out


def lexer_input(dialect, sql):
    """the text the real parse_sql hands to lexer.tokenize (None = parse_sql did not reach the lexer through
    get_lexer_parser); the outcome of the parse itself is irrelevant here"""
    import mindsdb_sql as M
    seen = []
    orig = M.get_lexer_parser

    def wrapped(d):
        lexer, parser = orig(d)
        tok = lexer.tokenize

        def tokenize(text, *a, **k):
            seen.append(text)
            return tok(text, *a, **k)
        lexer.tokenize = tokenize
        return lexer, parser
    M.get_lexer_parser = wrapped
    try:
        try:
            M.parse_sql(sql, dialect)
        except Exception:
            pass
    finally:
        M.get_lexer_parser = orig
    return seen[0] if seen else None


def py_space_points():
    """code points matched by `\\s` of a str pattern (all of Unicode)"""
    ws = re.compile(r'\s')
    return [c for c in range(0x110000) if ws.fullmatch(chr(c))]


# ---------------------------------------------------------------- round 6: long texts on the driver protocol (run-length form)
def enc_rle(s):
    """`<count>*<code point>` joined by `+` (`-` = empty): a 10 000 character text is a short line"""
    if not s:
        return '-'
    out, prev, n = [], s[0], 0
    for c in s:
        if c == prev:
            n += 1
        else:
            out.append('%d*%d' % (n, ord(prev)))
            prev, n = c, 1
    out.append('%d*%d' % (n, ord(prev)))
    return '+'.join(out)


def dec_rle(s):
    if s == '-':
        return ''
    return ''.join(chr(int(c)) * int(n) for n, c in (seg.split('*') for seg in s.split('+')))


LONG_BOUNDS = [255, 256, 1000, 1024, 2000, 2048, 4000, 4096, 8000, 8192, 10000]


def long_values(bounds=LONG_BOUNDS):
    """strings around every power-of-two / round-number length up to 10 000 with a quote / a backslash at and around the
    boundary — in the value and, counting the doubling of earlier specials, in the RENDERED text (a quote at index B-1 of
    a value without earlier quotes is the pair straddling position B of the doubled text)"""
    out = []
    for B in bounds:
        out += [
            'x' * (B - 1) + "'" + 'y' * 50,                 # the doubled quote straddles B
            'x' * (B - 1) + "'",                            # length exactly B, quote last
            'x' * (B - 2) + "''" + 'y' * 10,
            'x' * (B - 1) + '\\' + 'y' * 50,                # backslash at the boundary (MySQL family doubles it)
            'x' * B + "'" + 'y',
            "'" + 'x' * (B - 3) + "'" + 'y' * 5,            # an earlier quote shifts the rendered position
            'x' * (B - 1) + "\\'" + ' OR 1=1 -- ',         # backslash + quote across the boundary
            'x' * B,
        ]
    out += ['x' * 3999 + "'" + 'y' * 3998 + "'" + 'z' * 100, "'" * 4000, '\\' * 4097, ("ab'" * 3400)[:10000]]
    return list(dict.fromkeys(out))
