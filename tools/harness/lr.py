"""Tie C for M3: the real SLY runtime vs the Lean driver on the same token streams."""
import json, os, sys
from . import common
from .common import side, DIALECTS, MODE

_real = {}


class Real:
    """the real lexer/parser of one dialect with every Production.func wrapped to log the
    canonical production number (done once per process, harness side only)."""

    def __init__(self, dialect):
        from mindsdb_sql import get_lexer_parser
        self.dialect = dialect
        self.side = side(dialect)
        self.tid = {n: i for i, n in enumerate(self.side['terms'])}
        self.log = []
        lexer, parser = get_lexer_parser(dialect)
        # production / state numbers of SLY depend on the hash seed of the process (the mindsdb
        # grammar iterates over a set); the canonical numbering is recomputed in this process
        from tools.extract import tables as _tables
        can = _tables.canonical(parser)
        assert can['terms'] == self.side['terms'], 'terminal table of the side file is stale'
        pid, self.sid = can['pid'], can['sid']
        self.parser_cls = type(parser)
        self.lexer_cls = type(lexer)
        for p in parser._grammar.Productions:
            f = p.func
            if f is None or getattr(f, '_verif_wrapped', False):
                continue

            def mk(f, num):
                def w(slf, pslice):
                    self.log.append(num)
                    return f(slf, pslice)
                w._verif_wrapped = True
                return w
            p.func = mk(f, pid[p.number])

    def tokenize(self, sql):
        """returns (tokens, bad) where bad tells that the generator raised after those tokens"""
        lexer = self.lexer_cls()
        toks = []
        bad = False
        try:
            with common.time_limit(30):
                for t in lexer.tokenize(sql):
                    if getattr(t, 'end', None) == t.index:
                        # zero-length match: sly does not advance; the real loop would never end
                        bad = 'Hang'
                        break
                    toks.append(t)
        except common.HangDetected:
            bad = 'Hang'
        except Exception as e:  # LexError
            bad = type(e).__name__
        return toks, bad

    def run(self, toks, bad=False):
        """run the real Parser.parse on the token objects; `bad`: the iterator raises at the end"""
        from mindsdb_sql.exceptions import ParsingException
        from sly.lex import LexError
        parser = self.parser_cls()
        self.log.clear()
        rec = {}
        orig_error = parser.error

        def error(p, expected_tokens=None):
            if 'state' not in rec:
                rec['state'] = self.sid[parser.state]
                rec['expected'] = sorted(self.tid[x] for x in (expected_tokens or []))
                rec['bad'] = p
            return orig_error(p, expected_tokens=expected_tokens)
        parser.error = error

        def gen():
            for t in toks:
                yield t
            if bad:
                raise LexError('verif: illegal character', '', 0)
        out = {}
        try:
            res = parser.parse(gen())
            out['kind'] = 'accept' if res is not None else 'none'
            out['result'] = res
        except ParsingException as e:
            out['kind'] = 'parsing_exception'
            out['msg'] = str(e)
        except LexError as e:
            out['kind'] = 'lexerr'
        except RecursionError:
            out['kind'] = 'recursion'
        except Exception as e:
            out['kind'] = 'crash:' + type(e).__name__
            out['msg'] = repr(e)
        out['log'] = list(self.log)
        if 'state' in rec:
            b = rec['bad']
            out['err'] = dict(state=rec['state'], expected=rec['expected'],
                              bad=('eof' if b is None else next((i for i, t in enumerate(toks) if t is b), -1)))
        out['parser'] = parser
        return out


def real(dialect):
    if dialect not in _real:
        _real[dialect] = Real(dialect)
    return _real[dialect]


def model_line(dialect, toks_ids, bad):
    return '%s %s %d %s' % (dialect, MODE[dialect], 1 if bad else 0, ' '.join(map(str, toks_ids)))


def parse_model(line):
    """-> dict(kind, err=(bad,state,expected) or None, log)"""
    if '|' in line:
        head, log = line.split('|', 1)
        log = [int(x) for x in log.split()]
    else:
        head, log = line, []
    f = head.split()
    out = dict(kind=f[0], log=log, err=None)
    if f[0] in ('none', 'synerr') and len(f) >= 2 and f[1] != '-':
        exp = [int(x) for x in f[3].split(',')] if len(f) > 3 and f[3] else []
        out['err'] = dict(bad=('eof' if f[1] == 'eof' else int(f[1])), state=int(f[2]), expected=sorted(exp))
    return out


def compare(dialect, py, m):
    """returns None when model and implementation agree, else a short description"""
    k = py['kind']
    mk = m['kind']
    if mk in ('stuck', 'fuel', 'bad-line', 'bad-token', 'bad-dialect'):
        return 'model outcome %s' % mk
    action_exc = k == 'parsing_exception' and 'err' not in py or k.startswith('crash') or k == 'recursion'
    if action_exc:
        # a semantic action raised: the reductions logged so far must be a prefix of the model's
        n = len(py['log'])
        if py['log'] != m['log'][:n]:
            return 'log prefix differs before action exception'
        return None
    if py['log'] != m['log']:
        return 'reduction logs differ'
    if k == 'accept':
        return None if mk == 'accept' else 'impl accept, model %s' % mk
    if k == 'lexerr':
        return None if mk == 'lexerr' else 'impl lexerr, model %s' % mk
    if k == 'none':
        if mk != 'none':
            return 'impl none, model %s' % mk
    elif k == 'parsing_exception':
        if mk != 'synerr':
            return 'impl ParsingException from error(), model %s' % mk
    pe, me = py.get('err'), m.get('err')
    if pe is None and me is None:
        return None
    if pe is None or me is None:
        return 'error info presence differs'
    if pe['bad'] != me['bad'] or pe['state'] != me['state'] or pe['expected'] != me['expected']:
        return 'error info differs: impl %s model %s' % (pe, me)
    return None
