"""Harness for C14 (table-model joins): query generator, abstraction of real ASTs / plans to the line
protocol of Driver/ModelJoin.lean, and the property oracle applied to real plans."""
import copy, json, re
from tools.harness import common

# ----------------------------------------------------------------------------- encoding


def enc(s):
    out = ['~']
    for ch in s:
        if (ch.isascii() and ch.isalnum()) or ch == '_':
            out.append(ch)
        else:
            o = ord(ch)
            if o > 255:
                raise ValueError('non-latin1 text not supported by the line protocol')
            out.append('%%%02x' % o)
    return ''.join(out)


def val_str(v):
    from mindsdb_sql.planner.step_result import Result
    if isinstance(v, Result):
        return 'r:%s' % v.step_num
    return repr(v)


# ----------------------------------------------------------------------------- AST -> E (python tuples)
# ('C', quals, name) ('K', v) ('P', v) ('B', op, l, r) ('W', a, b, c) ('U', op, e) ('F', name, args) ('O', tag) ('S',)


_CAT = [None]      # catalog of the case being abstracted (for the size of inner plans)


class InnerPlanError(Exception):
    pass


def inner_steps(select):
    """number of steps of the select's OWN plan (`planner.plan_select(select)` on a fresh planner); the inner plan
    itself is opaque to the model"""
    from mindsdb_sql.planner.query_planner import QueryPlanner
    node = copy.deepcopy(select)
    node.alias = None
    node.parentheses = False
    try:
        p = QueryPlanner(**copy.deepcopy(_CAT[0]))
        p.plan_select(node)
        return len(p.plan.steps)
    except Exception as e:
        raise InnerPlanError(type(e).__name__)


def abs_e(n):
    from mindsdb_sql.parser import ast
    if n is None:
        return ('O', 'none')
    if isinstance(n, ast.Identifier):
        if all(isinstance(p, str) for p in n.parts):
            return ('C', tuple(n.parts[:-1]), n.parts[-1])
        return ('O', 'ident-star')
    if isinstance(n, ast.Constant):
        return ('K', val_str(n.value))
    if isinstance(n, ast.Parameter):
        return ('P', val_str(n.value))
    if isinstance(n, ast.BetweenOperation):
        return ('W',) + tuple(abs_e(a) for a in n.args)
    if isinstance(n, ast.BinaryOperation):
        return ('B', n.op, abs_e(n.args[0]), abs_e(n.args[1]))
    if isinstance(n, ast.UnaryOperation):
        return ('U', n.op, abs_e(n.args[0]))
    if isinstance(n, ast.Function):
        return ('F', n.op, tuple(abs_e(a) for a in n.args))
    if isinstance(n, ast.Tuple):
        return ('F', 'tuple', tuple(abs_e(a) for a in n.items))
    if isinstance(n, ast.TypeCast):
        return ('F', 'cast', (abs_e(n.arg),))
    if isinstance(n, ast.Case):
        args = []
        for c, r in n.rules:
            args += [abs_e(c), abs_e(r)]
        if n.default is not None:
            args.append(abs_e(n.default))
        return ('F', 'case', tuple(args))
    if isinstance(n, (ast.Exists, ast.NotExists)):
        return ('F', n.op, tuple(abs_e(a) for a in n.args))
    if isinstance(n, ast.Select):
        return ('S', inner_steps(n))
    return ('O', type(n).__name__)


def show_e(e):
    k = e[0]
    if k == 'C':
        return 'C %d%s %s' % (len(e[1]), ''.join(' ' + enc(q) for q in e[1]), enc(e[2]))
    if k == 'K':
        return 'K ' + enc(e[1])
    if k == 'P':
        return 'P ' + enc(e[1])
    if k == 'B':
        return 'B %s %s %s' % (enc(e[1]), show_e(e[2]), show_e(e[3]))
    if k == 'W':
        return 'W %s %s %s' % (show_e(e[1]), show_e(e[2]), show_e(e[3]))
    if k == 'U':
        return 'U %s %s' % (enc(e[1]), show_e(e[2]))
    if k == 'F':
        return 'F %s %d%s' % (enc(e[1]), len(e[2]), ''.join(' ' + show_e(a) for a in e[2]))
    if k == 'O':
        return 'O ' + enc(e[1])
    if k == 'S':
        return 'S %d' % e[1]
    raise ValueError(e)


def count_sel(e):
    return sum(n[1] for n, _ in sub_nodes(e) if n[0] == 'S')


def sub_nodes(e):
    """every node, pre-order, with its ancestor chain (list of (kind, op, child position))"""
    out = []

    def rec(n, anc):
        out.append((n, anc))
        k = n[0]
        if k == 'B':
            rec(n[2], anc + [('B', n[1], 0)])
            rec(n[3], anc + [('B', n[1], 1)])
        elif k == 'W':
            for i in (1, 2, 3):
                rec(n[i], anc + [('W', 'between', i - 1)])
        elif k == 'U':
            rec(n[2], anc + [('U', n[1], 0)])
        elif k == 'F':
            for i, a in enumerate(n[2]):
                rec(a, anc + [('F', n[1], i)])
    rec(e, [])
    return out


def top_conjuncts(e):
    if e is None:
        return []
    if e[0] == 'B' and e[1] == 'and':
        return top_conjuncts(e[2]) + top_conjuncts(e[3])
    return [e]


# ----------------------------------------------------------------------------- operands


class Operand:
    def __init__(self, kind, parts, alias, jtype, on, target, inner=1):
        self.kind, self.parts, self.alias, self.jtype, self.on, self.target = kind, parts, alias, jtype, on, target
        self.inner = inner
        self.integ = ''
        self.tkey = ''
        self.node = None

    def names(self):
        """lower-cased qualifier tuples that denote this operand (specification reading)"""
        if self.alias is not None:
            return [tuple(p.lower() for p in self.alias)]
        ps = [p.lower() for p in self.parts]
        return [tuple(ps[i:]) for i in range(len(ps))]

    def key(self, dbs):
        if self.alias is not None:
            return self.alias[-1]
        ps = list(self.parts)
        if len(ps) > 1 and ps[0].lower() in dbs:
            ps = ps[1:]
        return '.'.join(ps)

    def line(self):
        t = [self.kind, str(len(self.parts))] + [enc(p) for p in self.parts]
        if self.alias is None:
            t.append('-')
        else:
            t += ['A', str(len(self.alias))] + [enc(p) for p in self.alias]
        t.append(enc(self.jtype))
        t.append('-' if self.on is None else show_e(self.on))
        t.append('-' if self.target is None else enc(self.target))
        t.append(str(self.inner))
        t.append(enc(self.integ))
        t.append(enc(self.tkey))
        return ' '.join(t)


def catalog_models(cat):
    """independent reading of the catalog: [(project lower, model name lower, metadata)], for both forms of
    predictor_metadata; a model without integration_name lives in predictor_namespace (default mindsdb)"""
    pns = (cat.get('predictor_namespace') or 'mindsdb').lower()
    meta = cat.get('predictor_metadata') or []
    items = meta if isinstance(meta, list) else [dict(v, name=k) for k, v in meta.items()]
    return [(str(m.get('integration_name', pns)).lower(), str(m['name']).lower(), m) for m in items]


def expected_dbs(cat):
    """independent reading of the catalog: every name that can qualify a table or a model, lower-cased — data
    integrations, projects (listed in `integrations`, or known only as the project of a model), mindsdb"""
    names = {'mindsdb'}
    for it in cat.get('integrations') or []:
        names.add((it['name'] if isinstance(it, dict) else it).lower())
    for project, _, _ in catalog_models(cat):
        names.add(project)
    return names


def model_info(ident, cat):
    """independent reading of the catalog: is this identifier a model reference? -> metadata or None
    (names compare case-insensitively in every part)"""
    parts = list(ident.parts)
    if len(parts) > 1 and parts[-1].isdigit():
        parts = parts[:-1]
    name = parts[-1].lower()
    ns = parts[-2].lower() if len(parts) > 1 else ((cat.get('default_namespace') or '').lower() or None)
    for project, mname, m in catalog_models(cat):
        if mname == name and ns is not None and ns == project:
            return m
    return None


def operands_of(query, cat):
    """left-deep join tree -> operand list (None if the shape is outside the modelled fragment)"""
    from mindsdb_sql.parser import ast
    seq = []

    def rec(node, jtype, cond):
        if isinstance(node, ast.Join):
            if isinstance(node.right, ast.Join):
                return False
            if not rec(node.left, '', None):
                return False
            return rec(node.right, node.join_type, node.condition)
        seq.append((node, jtype, cond))
        return True

    if not isinstance(query.from_table, ast.Join) or not rec(query.from_table, '', None):
        return None
    ops = []
    for node, jtype, cond in seq:
        on = abs_e(cond) if cond is not None else None
        alias = list(node.alias.parts) if getattr(node, 'alias', None) is not None else None
        if isinstance(node, ast.Identifier):
            m = model_info(node, cat)
            if m is not None:
                tp = m.get('to_predict')
                if isinstance(tp, list):
                    tp = tp[0] if tp else None
                ops.append(Operand('mod', list(node.parts), alias, jtype, on, tp))
                ops[-1].node = node
            else:
                o = Operand('tab', list(node.parts), alias, jtype, on, None)
                dbs = expected_dbs(cat)
                o.integ = (node.parts[0] if len(node.parts) > 1 and node.parts[0].lower() in dbs
                           else (cat.get('default_namespace') or '')).lower()
                # `item.table` (the integration popped when it is a known database) as Identifier equality sees it
                tp = list(node.parts[1:]) if len(node.parts) > 1 and node.parts[0].lower() in dbs else list(node.parts)
                o.tkey = '.'.join(tp) + '|' + ('.'.join(alias) if alias is not None else '')
                o.node = node
                ops.append(o)
        elif isinstance(node, ast.Select):
            ops.append(Operand('sub', ['t_sub'], alias, jtype, on, None, inner_steps(node)))
        else:
            return None
    return ops


def using_line(using):
    if using is None:
        return '-'
    return ' '.join(['G', str(len(using))] + [enc(k) + ' ' + enc(val_str(v)) for k, v in using.items()])


class SkipShape(Exception):
    pass


def query_info(q):
    """what the LIMIT logic and the final QueryStep look at: select list (aliases dropped), DISTINCT, GROUP BY / HAVING
    presence, LIMIT, OFFSET, ORDER BY fields; `others` = every expression _check_identifiers visits besides WHERE / ON"""
    from mindsdb_sql.parser import ast
    targets = [abs_e(t) for t in q.targets]
    for t in targets + [abs_e(x) for x in (q.group_by or [])] + ([abs_e(q.having)] if q.having is not None else []):
        if any(n[0] == 'S' for n, _ in sub_nodes(t)):
            raise SkipShape('select-in-targets')
    is_star = len(q.targets) == 1 and isinstance(q.targets[0], ast.Star)

    def cval(c):
        if c is None:
            return None
        return val_str(c.value) if isinstance(c, ast.Constant) else 'expr:' + str(c)
    order = None
    if q.order_by is not None:
        order = [(abs_e(o.field), '%s/%s' % (o.direction, o.nulls)) for o in q.order_by]
    others = list(targets) + [abs_e(x) for x in (q.group_by or [])] + \
        ([abs_e(q.having)] if q.having is not None else []) + [f for f, _ in (order or [])]
    return dict(targets=targets, is_star=is_star, distinct=bool(q.distinct), group_by=q.group_by is not None,
                having=q.having is not None, limit=cval(q.limit), offset=cval(q.offset), order=order, others=others)


def info_line(info):
    t = [str(len(info['targets']))] + [show_e(x) for x in info['targets']]
    t += ['1' if info[k] else '0' for k in ('is_star', 'distinct', 'group_by', 'having')]
    t += ['-' if info[k] is None else enc(info[k]) for k in ('limit', 'offset')]
    if info['order'] is None:
        t.append('-')
    else:
        t += ['R', str(len(info['order']))] + ['%s %s' % (show_e(f), enc(d)) for f, d in info['order']]
    t += [str(len(info['others']))] + [show_e(x) for x in info['others']]
    return ' '.join(t)


def catalog_line(cat):
    """the catalog as written (the Lean model lower-cases)"""
    ints, projs = [], []
    for it in cat.get('integrations') or []:
        if isinstance(it, dict):
            (ints if it['type'] == 'data' else projs).append(it['name'])
        else:
            ints.append(it)
    meta = cat.get('predictor_metadata') or []
    items = meta if isinstance(meta, list) else [dict(v, name=k) for k, v in meta.items()]
    t = [str(len(ints))] + [enc(x) for x in ints] + [str(len(projs))] + [enc(x) for x in projs] + [str(len(items))]
    for m in items:
        if '.' in m['name']:
            raise SkipShape('dotted-legacy-model-name')
        t += [enc(m['integration_name']) if 'integration_name' in m else '-', enc(m['name'])]
    t.append(enc(cat['predictor_namespace']) if cat.get('predictor_namespace') else '-')
    t.append(enc(cat['default_namespace']) if cat.get('default_namespace') else '-')
    return ' '.join(t)


_PLANNERS = {}


def real_route(ops_nodes, cat):
    """what the real planner says about every operand: model? (get_predictor) routable? (a known database qualifies it,
    or there is a default namespace)"""
    from mindsdb_sql.planner.query_planner import QueryPlanner
    key = json.dumps(cat, sort_keys=True, default=str)
    if key not in _PLANNERS:
        _PLANNERS[key] = QueryPlanner(**copy.deepcopy(cat))
    p = _PLANNERS[key]
    out = []
    for kind, node in ops_nodes:
        if kind == 'sub':
            out.append('s')
            continue
        m = p.get_predictor(node) is not None
        r = (len(node.parts) > 1 and node.parts[0].lower() in p.databases) or p.default_namespace is not None
        out.append(('m' if m else 't') + ('1' if r else '0'))
    return 'route(%s)' % ','.join(out)


def model_line(ops, where, using, info, cat):
    return ' '.join([str(len(ops))] + [o.line() for o in ops] +
                    ['-' if where is None else show_e(where), using_line(using), info_line(info), catalog_line(cat)])


# ----------------------------------------------------------------------------- real plan -> canonical


def dict_str(d, f):
    if d is None:
        return 'None'
    return '{' + ','.join(enc(k) + ':' + f(v) for k, v in d.items()) + '}'


def opt_e(n):
    return '-' if n is None else show_e(abs_e(n))


def lim_val(c):
    from mindsdb_sql.parser import ast
    if c is None:
        return None
    return val_str(c.value) if isinstance(c, ast.Constant) else 'expr:' + str(c)


AGG_NAMES = ('count', 'sum', 'min', 'max', 'avg', 'std')


def deep_aggregates(q):
    """independent of the planner: aggregate calls ANYWHERE in the select list (generic walk over every attribute)"""
    from mindsdb_sql.parser import ast
    found = []
    seen = set()

    def walk(x, depth=0):
        if depth > 40 or id(x) in seen:
            return
        if isinstance(x, (list, tuple)):
            for y in x:
                walk(y, depth + 1)
            return
        if isinstance(x, dict):
            for y in x.values():
                walk(y, depth + 1)
            return
        if not isinstance(x, ast.ASTNode):
            return
        seen.add(id(x))
        if isinstance(x, ast.Select):
            return              # an inner query aggregates its own rows
        if isinstance(x, ast.Function) and str(x.op).lower() in AGG_NAMES:
            found.append(str(x.op).lower())
        for v in vars(x).values():
            walk(v, depth + 1)
    walk(list(q.targets))
    return found


class PlanView:
    """real plan abstracted to the model's step vocabulary (also kept structured for the oracle)"""

    def __init__(self, plan, ops, dbs, n_nested):
        from mindsdb_sql.planner import steps as S
        self.items = []     # dict(kind=..., ...)
        queues = {}
        for i, o in enumerate(ops):
            queues.setdefault((o.kind, o.key(dbs).lower()), []).append(i)

        class Keys:
            """operand index of a step: operands with the same visible name are taken in join order"""
            def __init__(self, kind):
                self.kind = kind

            def get(self, key, default=-1):
                q = queues.get((self.kind, key))
                if not q:
                    return default
                return q.pop(0) if len(q) > 1 else q[0]
        sub_inputs = {}      # top-level step number -> sub-select operand (inner plan of that operand)
        subq = [i for i, o in enumerate(ops) if o.kind == 'sub']
        for s in plan.steps:
            if isinstance(s, S.SubSelectStep) and not s.query.distinct and s.table_name is not None and subq \
                    and isinstance(s.dataframe.step_num, int):
                cands = [i for i in subq if (ops[i].alias or [''])[-1] == s.table_name]
                if cands:
                    i = cands[0]
                    subq.remove(i)
                    for n in range(s.dataframe.step_num - ops[i].inner + 1, s.dataframe.step_num + 1):
                        sub_inputs[n] = i

        def ident_key(idn):
            if idn.alias is not None:
                return idn.alias.parts[-1].lower()
            return '.'.join(idn.parts).lower()

        def conv(s, idx):
            if idx is not None and idx < n_nested:
                return dict(kind='nested', k=idx)
            if idx is not None and idx in sub_inputs:
                return dict(kind='inner', t=sub_inputs[idx])
            if isinstance(s, S.FetchDataframeStep) and not hasattr(getattr(s.query, 'from_table', None), 'parts'):
                # e.g. the whole join was sent to one integration
                return dict(kind='other', name='FetchDataframeStep(%s)' % type(getattr(s.query, 'from_table', None)).__name__)
            if isinstance(s, S.FetchDataframeStep):
                t = Keys('tab').get(ident_key(s.query.from_table), -1)
                qq = s.query
                order = None
                if qq.order_by is not None:
                    order = [(str(o.field.parts[-1]), '%s/%s' % (o.direction, o.nulls)) for o in qq.order_by]
                return dict(kind='fetch', t=t, w=abs_e(qq.where) if qq.where is not None else None, step=s,
                            limit=lim_val(qq.limit), offset=lim_val(qq.offset), order=order)
            if isinstance(s, S.SubSelectStep):
                if s.query.distinct:
                    return dict(kind='dist', inp=str(s.dataframe.step_num), col=s.query.targets[0].parts[-1])
                t = Keys('sub').get((s.table_name or '').lower(), -1)
                return dict(kind='sub', t=t, inp=str(s.dataframe.step_num),
                            w=abs_e(s.query.where) if s.query.where is not None else None)
            if isinstance(s, S.ApplyPredictorStep):
                t = Keys('mod').get(ident_key(s.predictor), -1)
                return dict(kind='apply', t=t, inp=str(s.dataframe.step_num),
                            row=None if s.row_dict is None else {k: val_str(v) for k, v in s.row_dict.items()},
                            params=None if s.params is None else {k: val_str(v) for k, v in s.params.items()},
                            cmap=None if s.columns_map is None else {k: abs_e(v) for k, v in s.columns_map.items()})
            if isinstance(s, S.JoinStep):
                return dict(kind='join', l=str(s.left.step_num), r=str(s.right.step_num), jtype=s.query.join_type,
                            on=abs_e(s.query.condition) if s.query.condition is not None else None)
            if isinstance(s, S.MapReduceStep):
                return dict(kind='mr', values=str(s.values.step_num), part=val_str(s.partition),
                            subs=[conv(x, None) for x in s.step])
            if isinstance(s, S.QueryStep):
                return dict(kind='query', inp=str(s.from_table.step_num), w=abs_e(s.query.where) if s.query.where is not None else None,
                            limit=lim_val(s.query.limit), offset=lim_val(s.query.offset))
            return dict(kind='other', name=type(s).__name__)

        for i, s in enumerate(plan.steps):
            it = conv(s, i)
            it['num'] = str(s.step_num)
            self.items.append(it)
        for it in self.items:
            if it['kind'] == 'mr':
                for k, sub in enumerate(it['subs']):
                    sub['num'] = '%s_%d' % (it['num'], k)

    @staticmethod
    def walk(steps):
        from mindsdb_sql.planner import steps as S
        for s in steps:
            yield s
            if isinstance(s, S.MapReduceStep):
                for x in s.step:
                    yield x

    def flat(self):
        for it in self.items:
            yield it
            if it['kind'] == 'mr':
                for x in it['subs']:
                    yield x

    def show_item(self, it):
        k = it['kind']
        oe = lambda e: '-' if e is None else show_e(e)
        if k == 'nested':
            return 'nested(%d)' % it['k']
        so = lambda v: '-' if v is None else enc(v)
        if k == 'fetch':
            order = '-' if it['order'] is None else '[' + ','.join('%s:%s' % (enc(c), enc(d)) for c, d in it['order']) + ']'
            return 'fetch(t=%d;w=%s;limit=%s;offset=%s;order=%s)' % (it['t'], oe(it['w']), so(it['limit']), so(it['offset']), order)
        if k == 'inner':
            return 'inner(t=%d)' % it.get('t', -1)
        if k == 'sub':
            return 'sub(t=%d;in=%s;w=%s)' % (it['t'], it['inp'], oe(it['w']))
        if k == 'dist':
            return 'dist(in=%s;col=%s)' % (it['inp'], enc(it['col']))
        if k == 'apply':
            return 'apply(t=%d;in=%s;row=%s;params=%s;map=%s)' % (
                it['t'], it['inp'], dict_str(it['row'], enc), dict_str(it['params'], enc), dict_str(it['cmap'], show_e))
        if k == 'join':
            return 'join(l=%s;r=%s;type=%s;on=%s)' % (it['l'], it['r'], enc(it['jtype']), oe(it['on']))
        if k == 'mr':
            return 'mr(values=%s;part=%s;[%s])' % (it['values'], enc(it['part']), ' ; '.join(self.show_item(x) for x in it['subs']))
        if k == 'query':
            return 'query(in=%s;w=%s;limit=%s;offset=%s)' % (it['inp'], oe(it['w']), so(it['limit']), so(it['offset']))
        return 'other:%s' % it['name']

    def canon(self):
        return ' | '.join(self.show_item(it) for it in self.items)


# ----------------------------------------------------------------------------- running the real planner

CAT_NAMES = [
    dict(models=['mindsdb.pred', 'proj.pred2', 'pred', 'mindsdb.pred.3', 'proj.pred2.12', 'mindsdb.Pred'],
         tables=['int1.t1', 'int2.t2', 'int1.T3', 'int2.tab4', 't5']),
    dict(models=['mindsdb.pred', 'proj.pred2', 'mindsdb.pred.3', 'proj.Pred2'],
         tables=['int1.t1', 'int2.t2', 'int1.T3', 'int2.tab4']),
    dict(models=['mindsdb.pred', 'proj.pred2', 'pred2', 'proj.pred2.7'],
         tables=['int1.t1', 'int2.t2', 'int1.T3', 'int2.tab4', 't5']),
    dict(models=['mindsdb.Pred', 'proj.pred2', 'mindsdb.pred.2'],
         tables=['int1.t1', 'int2.t2', 'int1.T3', 'int2.tab4', 't5']),
    # catalog names in mixed case, query spellings in another case; projects known only through predictor_metadata
    dict(models=['MLProject.Pred', 'mlproject.pred', 'MLPROJECT.PRED.3', 'Proj.pred2', 'proj.Pred2', 'PROJ.pred2.7'],
         tables=['Int1.t1', 'int1.T3', 'INT2.t2', 'int2.tab4', 't5']),
    dict(models=['mlproject.Pred', 'MLProject.pred.2', 'proj.pred2', 'PROJ.Pred2', 'Proj.PRED2'],
         tables=['int1.t1', 'INT1.T3', 'Int2.t2', 'int2.tab4']),
    dict(models=['myns.pred', 'MyNS.Pred', 'MYNS.pred.4', 'pred', 'Other.pred2', 'OTHER.PRED2'],
         tables=['int1.t1', 'Int1.T3', 'int2.t2', 'INT2.tab4']),
]

CATALOGS = [
    dict(integrations=['int1', 'int2', {'name': 'proj', 'type': 'project'}],
         predictor_metadata=[{'name': 'pred', 'integration_name': 'mindsdb', 'to_predict': ['y']},
                             {'name': 'pred2', 'integration_name': 'proj', 'to_predict': 'Out'}],
         default_namespace='mindsdb'),
    dict(integrations=[{'name': 'int1', 'type': 'data'}, {'name': 'int2', 'type': 'data'}, {'name': 'proj', 'type': 'project'}],
         predictor_metadata=[{'name': 'pred', 'integration_name': 'mindsdb'},
                             {'name': 'pred2', 'integration_name': 'proj', 'to_predict': ['mc2', 'y']}],
         default_namespace=None),
    dict(integrations=['int1', 'int2', {'name': 'proj', 'type': 'project'}],
         predictor_metadata={'pred': {'to_predict': 'y'}, 'pred2': {'integration_name': 'proj'}},
         default_namespace='proj'),
    dict(integrations=['int1', 'int2'],
         predictor_metadata=[{'name': 'Pred'},
                             {'name': 'pred2', 'integration_name': 'proj', 'to_predict': ['Y']}],
         default_namespace='int1'),
    dict(integrations=['Int1', {'name': 'INT2', 'type': 'data'}],
         predictor_metadata=[{'name': 'Pred', 'integration_name': 'MLProject', 'to_predict': ['Y']},
                             {'name': 'pred2', 'integration_name': 'Proj'}],
         default_namespace='Int1'),
    dict(integrations=[{'name': 'Int1', 'type': 'data'}, 'INT2', {'name': 'Proj', 'type': 'project'}],
         predictor_metadata={'Pred': {'integration_name': 'MLProject', 'to_predict': 'y'},
                             'Pred2': {'integration_name': 'Proj', 'to_predict': ['Out']}},
         default_namespace=None),
    dict(integrations=['int1', 'Int2'],
         predictor_namespace='MyNS',
         predictor_metadata=[{'name': 'Pred', 'to_predict': 'Y'},
                             {'name': 'PRED2', 'integration_name': 'Other'}],
         default_namespace='MyNS'),
]


_DBS = {}


def databases_of(cat):
    from mindsdb_sql.planner.query_planner import QueryPlanner
    key = json.dumps(cat, sort_keys=True, default=str)
    if key not in _DBS:
        _DBS[key] = QueryPlanner(**copy.deepcopy(cat)).databases
    return _DBS[key]


def run_real(sql, cat):
    """-> dict(parse_error | out (canonical string or exc:...), line (model input), ops, where, using, view)"""
    from mindsdb_sql import parse_sql
    from mindsdb_sql.planner import plan_query
    from mindsdb_sql.exceptions import PlanningException
    try:
        q = parse_sql(sql, 'mindsdb')
    except Exception as e:
        return dict(skip='parse:' + type(e).__name__)
    from mindsdb_sql.parser import ast
    if not isinstance(q, ast.Select):
        return dict(skip='not-select')
    _CAT[0] = cat
    try:
        ops = operands_of(q, cat)
        if ops is None:
            return dict(skip='shape')
        where = abs_e(q.where) if q.where is not None else None
    except InnerPlanError as e:
        return dict(skip='inner-plan:' + str(e))
    using = dict(q.using) if q.using is not None else None
    try:
        info = query_info(q)
    except SkipShape as e:
        return dict(skip='shape:' + str(e))
    except InnerPlanError as e:
        return dict(skip='inner-plan:' + str(e))
    res = dict(ops=ops, where=where, using=using, info=info, line=model_line(ops, where, using, info, cat), sql=sql,
               route=real_route([(o.kind, o.node) for o in ops], cat),
               aggregates=deep_aggregates(q))
    if not any(o.kind == 'mod' for o in ops):
        return dict(skip='no-model')
    n_nested = count_sel(where) if where is not None else 0
    dbs = expected_dbs(cat)
    # independent reading: can every operand be routed?  (a qualifier that is a known name, or a default namespace)
    routable = all(o.kind == 'sub' or cat.get('default_namespace') or
                   (len(o.parts) > 1 and o.parts[0].lower() in dbs) for o in ops)
    try:
        plan = plan_query(q, **copy.deepcopy(cat))
    except PlanningException as e:
        if str(e).startswith('Integration not found'):
            if not routable:
                return dict(skip='routing')
            res['rejected'] = str(e)
        res['out'] = 'exc:PlanningException'
        return res
    except NotImplementedError:
        res['out'] = 'exc:NotImplementedError'
        return res
    except Exception as e:
        res['out'] = 'exc:Internal(%s)' % type(e).__name__
        res['exc'] = '%s: %s' % (type(e).__name__, e)
        return res
    view = PlanView(plan, ops, dbs, n_nested)
    res['view'] = view
    res['out'] = view.canon()
    return res


# ----------------------------------------------------------------------------- generator

MCOLS = ['mc1', 'mc2', 'MC3', 'y', 'Out']
TCOLS = ['tc1', 'tc2', 'TC3', 'id']
TABLES = ['int1.t1', 'int2.t2', 'int1.T3', 'int2.tab4', 't5']
MODELS = ['mindsdb.pred', 'proj.pred2', 'pred', 'mindsdb.pred.3', 'proj.pred2.12', 'pred2', 'mindsdb.Pred']
JOINS = ['join', 'join', 'join', 'inner join', 'left join', 'left join', 'right join', 'full join']


def join_spellings():
    """every connector the LIVE grammar allows between two FROM operands (derived from its productions by
    tools/extract/x_c14join.py at run time), with the `Join.join_type` string the live parser makes of it"""
    from tools.extract import x_c14join
    return [sp for sp in x_c14join.spellings() if sp['jtype'] is not None and 'mindsdb' in sp['dialects']]


def all_join_types():
    """the join_type strings of every dialect's parser (an AST of any dialect can be planned)"""
    from tools.extract import x_c14join
    return sorted({sp['jtype'] for sp in x_c14join.spellings() if sp['jtype'] is not None})


def respell(rng, text):
    """the same keywords in another case / with other blanks"""
    x = rng.random()
    if x < 0.4:
        text = text.lower()
    elif x < 0.6:
        text = text.title()
    elif x < 0.7:
        text = ''.join(c.upper() if rng.random() < 0.5 else c.lower() for c in text)
    if rng.random() < 0.15:
        text = text.replace(' ', rng.choice(['  ', '\t', ' \n ']))
    return text
CONSTS = ['1', '2', "'x'", '1.5', "'a b'", 'null', 'true', '-3']


class Gen:
    def __init__(self, rng, ci=0):
        self.rng = rng
        self.names = CAT_NAMES[ci]
        sps = join_spellings()
        self.explicit = [sp['sql'] for sp in sps if not sp['implicit']]
        self.implicit = [sp['sql'] for sp in sps if sp['implicit']]

    def join_words(self):
        """half of the joins in the old proportions, half uniformly over EVERY spelling of the live grammar"""
        r = self.rng
        if r.random() < 0.5 or not self.explicit:
            return r.choice(JOINS)
        return respell(r, r.choice(self.explicit))

    def const(self):
        return self.rng.choice(CONSTS)

    def operand(self, kind, i):
        r = self.rng
        if kind == 'mod':
            name = r.choice(self.names['models'])
            alias = r.choice(['m%d' % i, 'M%d' % i, 'm%d' % i, None])
            cols = MCOLS
        elif kind == 'sub':
            if r.random() < 0.6:
                name = '(select * from %s%s)' % (r.choice(TABLES[:4]), r.choice(['', ' where q = 1', ' where q > 2 and z = 3']))
            else:       # sub-selects whose own plan has several steps
                name = r.choice([
                    '(select * from int1.t1 a join int2.t2 b on a.id = b.id)',
                    '(select * from int1.t1 a join int2.t2 b on a.id = b.id where a.q = 1 and b.z > 2)',
                    '(select * from int1.t1 where tc1 in (select x from int2.t9))',
                    '(select * from int1.t1 join %s)' % self.names['models'][0],
                    '(select tc1, id from int2.t2 where q = 1 limit 5)',
                    '(select * from (select * from int2.tab4 where q = 1) z where z.id > 1)',
                    '(select * from int1.t1 a join %s pp where pp.mc1 = 1 and a.q = 2)' % self.names['models'][1],
                ])
            alias = r.choice(['s%d' % i, 'S%d' % i, 's%d' % i, 's%d' % i, None if r.random() < 0.15 else 's%d' % i])
            cols = TCOLS
        else:
            name = r.choice(self.names['tables'])
            alias = r.choice(['t%d' % i, 'T%d' % i, None, 't%d' % i])
            cols = TCOLS
        quals = []
        if alias is not None:
            quals = [alias, alias, alias.lower(), alias.upper()]
        elif kind != 'sub':
            ps = name.split('.')
            quals = ['.'.join(ps[k:]) for k in range(len(ps))] + [ps[-1], ps[-1].upper()]
        return dict(kind=kind, name=name, alias=alias, cols=cols, quals=quals or ['nosuch'])

    def qcol(self, o):
        r = self.rng
        q = r.choice(o['quals'])
        c = r.choice(o['cols'])
        if r.random() < 0.03:
            q = 'nosuch'
        if r.random() < 0.04:
            return c
        return '%s.%s' % (q, c)

    def bound(self, ops):
        """a BETWEEN bound: mostly a constant, sometimes a column of any operand (other table, model), an
        unqualified column or an expression"""
        r = self.rng
        x = r.random()
        if x < 0.6:
            return self.const()
        if x < 0.8:
            return self.qcol(r.choice(ops))
        if x < 0.87:
            return r.choice(TCOLS + MCOLS)
        if x < 0.94:
            return '%s + %s' % (self.qcol(r.choice(ops)), self.const())
        return 'abs(%s)' % self.qcol(r.choice(ops))

    def atom(self, ops, depth=0):
        r = self.rng
        o = r.choice(ops)
        x = r.random()
        col = self.qcol(o)
        if x < 0.40:
            return '%s = %s' % (col, self.const())
        if x < 0.47:
            return '%s = %s' % (self.const(), col)
        if x < 0.59:
            return '%s %s %s' % (col, r.choice(['>', '<', '!=', '>=', 'like', '<>']), self.const())
        if x < 0.63:
            return '%s %s' % (col, r.choice(['is null', 'is not null']))
        if x < 0.67:
            return '%s %s (%s, %s)' % (col, r.choice(['in', 'not in']), self.const(), self.const())
        if x < 0.71:
            return '%s between %s and %s' % (col, self.bound(ops), self.bound(ops))
        if x < 0.75:
            return '%s = %s' % (col, self.qcol(r.choice(ops)))
        if x < 0.79:
            return '%s %s %s %s %s' % (col, r.choice(['+', '-', '*']), self.const(), r.choice(['>', '=', '<']), self.const())
        if x < 0.83:
            return '%s(%s = %s, %s)' % (r.choice(['coalesce', 'ifnull', 'f']), col, self.const(), self.const())
        if x < 0.86:
            return '%s(%s) = %s' % (r.choice(['abs', 'lower']), col, self.const())
        if x < 0.89:
            return '%s = (select max(x) from int2.t9)' % col
        if x < 0.91:
            return '%s in (select x from int1.t9 where z = 1)' % col
        if x < 0.92:        # nested selects whose own plan has several steps
            return r.choice(['%s = (select max(a.x) from int1.t1 a join int2.t2 b on a.id = b.id)',
                             '%s in (select x from int1.t9 where y = (select max(z) from int2.t8))',
                             '%s in (select a.x from int1.t1 a join %s pq)' % ('%s', self.names['models'][0])]) % col
        if x < 0.935:
            return '%s = ?' % col
        if x < 0.95:
            return 'cast(%s as int) = %s' % (col, self.const())
        if x < 0.97:
            return 'case when %s = %s then 1 else 0 end = 1' % (col, self.const())
        return '%s = %s' % (col, self.const())

    def cond(self, ops, depth, p_or, p_not):
        r = self.rng
        if depth <= 0 or r.random() < 0.3:
            a = self.atom(ops)
            if r.random() < p_not:
                a = 'not %s' % a
            return a
        n = r.choice([2, 2, 3, 4])
        parts = [self.cond(ops, depth - 1, p_or, p_not) for _ in range(n)]
        op = ' or ' if r.random() < p_or else ' and '
        s = op.join(('(%s)' % p) if (' or ' in p or ' and ' in p) and r.random() < 0.8 else p for p in parts)
        if r.random() < p_not * 0.5:
            s = 'not (%s)' % s
        return s

    def on_cond(self, ops, k):
        """ON for operand k (joined to operands < k)"""
        r = self.rng
        me = ops[k]
        other = r.choice(ops[:k])
        cs = []
        for _ in range(r.choice([1, 1, 2, 3])):
            x = r.random()
            if x < 0.5:
                a, b = self.qcol(me), self.qcol(other)
                if r.random() < 0.5:
                    a, b = b, a
                cs.append('%s = %s' % (a, b))
            elif x < 0.7:
                cs.append('%s = %s' % (self.qcol(me), self.const()))
            elif x < 0.78:
                cs.append('%s = %s' % (self.const(), self.qcol(r.choice([me, other]))))
            elif x < 0.84:
                cs.append('%s = %s' % (self.qcol(other), self.const()))
            elif x < 0.89:
                cs.append('not %s = %s' % (self.qcol(me), self.const()))
            elif x < 0.94:
                cs.append('%s > %s' % (self.qcol(me), self.qcol(other)))
            elif x < 0.97:
                cs.append('%s > %s' % (self.qcol(me), self.const()))
            else:
                cs.append('(%s = %s or %s = %s)' % (self.qcol(me), self.const(), self.qcol(other), self.const()))
        return ' and '.join(cs)

    def using(self, ops):
        r = self.rng
        if r.random() < 0.45:
            return ''
        keys = ['k1', 'K2', 'Some_Opt', 'k1', 'a.b', 'zz.opt']
        for o in ops:
            if o['kind'] == 'mod' and o['alias']:
                keys += ['%s.opt' % o['alias'], '%s.Opt2' % o['alias'].lower(), '%s.opt3' % o['alias'].upper(),
                         '%s.x.y' % o['alias']]
        if r.random() < 0.35:
            keys += [r.choice(['partition_size', 'Partition_Size'])] * 3
        n = r.choice([1, 2, 3, 4])
        ks = [r.choice(keys) for _ in range(n)]
        return ' using ' + ', '.join('%s=%s' % (k, r.choice(['1', '2', "'v'", '10'])) for k in ks)

    def select_list(self, ops):
        """`*`, plain columns, aggregates as targets, aggregates NESTED in expressions / functions / CAST / CASE,
        non-aggregate functions"""
        r = self.rng
        x = r.random()
        if x < 0.45:
            return '*'
        c = lambda: self.qcol(r.choice(ops))
        plain = lambda: r.choice(['%s' % c(), '%s as c1' % c(), 'lower(%s)' % c(), '%s + 1 as p' % c(), '1 + abs(%s)' % c(),
                                  "cast(%s as int)" % c(), 'case when %s > 1 then 1 else 0 end' % c()])
        agg = lambda: r.choice(['count(*)', 'sum(%s)' % c(), 'max(%s) as mx' % c(), 'min(%s)' % c(), 'avg(%s) a' % c(),
                                'count(%s)' % c(), 'COUNT(*) as cnt', 'Std(%s)' % c()])
        nested = lambda: r.choice(['sum(%s) / count(*)' % c(), 'round(avg(%s), 2) as mean' % c(),
                                   'max(%s) - min(%s) as spread' % (c(), c()), 'cast(sum(%s) as int)' % c(),
                                   'case when count(*) > 1 then 1 else 0 end', 'coalesce(max(%s), 0) as m' % c(),
                                   '1 + count(*)', 'abs(min(%s)) * 2' % c(), 'lower(cast(max(%s) as varchar))' % c(),
                                   '- sum(%s)' % c()])
        if x < 0.65:
            items = [plain() for _ in range(r.choice([1, 2, 3]))]
        elif x < 0.78:
            items = [agg() for _ in range(r.choice([1, 2]))] + ([plain()] if r.random() < 0.3 else [])
        else:
            items = [nested() for _ in range(r.choice([1, 1, 2]))] + ([plain()] if r.random() < 0.3 else [])
        r.shuffle(items)
        return ('distinct ' if r.random() < 0.1 else '') + ', '.join(items)

    def tail(self, ops):
        """GROUP BY / HAVING / ORDER BY / LIMIT / OFFSET"""
        r = self.rng
        t = ''
        if r.random() < 0.12:
            t += ' group by %s' % self.qcol(r.choice(ops))
            if r.random() < 0.4:
                t += ' having count(*) > 1'
        elif r.random() < 0.03:
            t += ' having max(%s) > 1' % self.qcol(r.choice(ops))
        if r.random() < 0.3:
            first = ops[0]
            fields = []
            for _ in range(r.choice([1, 1, 2])):
                y = r.random()
                if y < 0.55:
                    f = self.qcol(first)
                elif y < 0.8:
                    f = self.qcol(r.choice(ops))
                elif y < 0.9:
                    f = r.choice(['1', 'tc1', 'lower(%s)' % self.qcol(first)])
                else:
                    f = self.qcol(first) + ' + 1'
                fields.append(f + r.choice(['', '', ' desc', ' asc', ' nulls last', ' desc nulls first']))
            t += ' order by ' + ', '.join(fields)
        if r.random() < 0.45:
            t += ' limit %s' % r.choice(['1', '3', '10', '100'])
            if r.random() < 0.3:
                t += ' offset %s' % r.choice(['1', '2', '5'])
        return t

    def query(self):
        r = self.rng
        nt = r.choice([1, 1, 1, 2, 2, 3])
        nm = r.choice([1, 1, 1, 2])
        kinds = [('sub' if r.random() < 0.2 else 'tab') for _ in range(nt)] + ['mod'] * nm
        x = r.random()
        if x < 0.55:
            pass                      # tables first, models last
        elif x < 0.9:
            first = kinds[0]
            rest = kinds[1:]
            r.shuffle(rest)
            kinds = [first] + rest
        else:
            r.shuffle(kinds)
        ops = [self.operand(k, i) for i, k in enumerate(kinds)]
        frm = []
        # an implicit join chain (the grammar does not mix it with JOIN clauses and gives it no ON)
        comma = r.choice(self.implicit) if self.implicit and r.random() < 0.06 else None
        for k, o in enumerate(ops):
            txt = o['name'] + ((' as %s' % o['alias']) if o['alias'] and r.random() < 0.5 else (' %s' % o['alias'] if o['alias'] else ''))
            if k == 0:
                frm.append(txt)
            elif comma is not None:
                frm.append('%s %s' % (comma, txt))
            else:
                s = '%s %s' % (self.join_words(), txt)
                if r.random() < (0.6 if o['kind'] != 'mod' else 0.35):
                    s += ' on ' + self.on_cond(ops, k)
                frm.append(s)
        sql = 'select * from ' + ' '.join(frm)
        x = r.random()
        if x < 0.12:
            pass
        else:
            shape = r.random()
            if shape < 0.5:
                w = self.cond(ops, r.choice([1, 1, 2]), 0.0, 0.0)          # pure conjunctions
            elif shape < 0.7:
                w = self.cond(ops, r.choice([1, 2]), 0.0, 0.35)           # with NOT
            elif shape < 0.85:
                w = self.cond(ops, r.choice([1, 2]), 0.4, 0.0)            # with OR
            else:
                w = self.cond(ops, r.choice([2, 3]), 0.3, 0.25)           # nested mix
            sql += ' where ' + w
        using = self.using(ops)
        if r.random() < 0.6:        # shapes of the select list and of the tail (LIMIT pushdown decision)
            sql = 'select ' + self.select_list(ops) + sql[len('select *'):]
            sql += self.tail(ops)
        sql += using
        return sql


# (catalog index, query): catalog names in mixed case, query spellings in another case, projects known only via metadata
SEEDS_CAT = [
    (4, "select * from Int1.t1 a join MLProject.Pred m where m.mc1 = 1 and a.tc1 > 2"),
    (4, "select * from t5 a join mlproject.pred m on m.mc1 = a.tc1 join PROJ.PRED2 m2 on m2.mc2 = m.Y where m2.mc1 = 1"),
    (5, "select * from int1.t1 a join mlproject.PRED.3 m where m.mc1 = 1 using M.k = 1"),
    (5, "select * from INT2.t2 a join proj.pred2 m where m.mc1 = 1 and a.tc1 > 2"),
    (6, "select * from Int1.T3 a join pred m where m.mc1 = 1"),
    (6, "select * from int2.t2 a join myns.PRED m join other.Pred2 m2 where m.mc1 = 1 and m2.mc2 = 2"),
]

SEEDS = [
    "select * from int1.t1 t join mindsdb.pred m where m.mc1 = 1 and t.tc1 > 2",
    "select * from int1.t1 t join mindsdb.pred m where not m.mc1 = 1",
    "select * from int1.t1 t join mindsdb.pred m where not t.tc1 = 1",
    "select * from int1.t1 t join mindsdb.pred m where t.tc1 + 1 > 3",
    "select * from int1.t1 t join mindsdb.pred m where coalesce(t.tc1 = 1, m.mc2 = 2)",
    "select * from int1.t1 t join mindsdb.pred m where 3 = m.mc1",
    "select * from int1.t1 t join mindsdb.pred m where m.mc1 = 1 or t.tc2 = 2",
    "select * from (select * from int1.t1 where q=1) s join mindsdb.pred m where s.tc1 = 1 or m.mc2 = 2",
    "select * from int1.t1 t right join int2.t2 s on t.id = s.id and s.tc1 = 1 join mindsdb.pred m",
    "select * from int1.t1 t left join int2.t2 s on t.id = s.id and not s.tc1 = 1 join mindsdb.pred m on m.mc1 = s.tc1 and m.mc2 > t.tc2",
    "select * from mindsdb.pred m join int1.t1 t on m.mc1 = t.tc1 where m.mc2 = 1",
    "select * from int1.t1 t join mindsdb.pred M using M.k=1, m.j=2, X.y.z=3, Partition_Size=4, A=5, a=6",
    "select * from int1.t1 t join int2.t2 s on t.id = s.id and s.tc1 = 1 join mindsdb.pred m join proj.pred2 m2 where m.mc1 = 1 and m2.mc2 = 'x' using m.k=1, m2.K2=2, Z=3, partition_size=5",
    "select * from int1.t1 join mindsdb.pred where pred.mc1 = 1 and t1.tc1 = 2 and int1.t1.tc2 = 3 and mindsdb.pred.mc2 = 4 and e = 5",
    "select * from int1.t1 t join mindsdb.pred m join int2.t2 s on s.tc1 = m.mc1 where s.tc2 = 3 and m.mc1 = 1 and m.y = 2",
    "select * from int1.t1 t join mindsdb.pred.3 m where m.mc1 = (select max(x) from int2.t9) and t.tc1 in (select x from int2.t9)",
    "select * from (select * from int1.t1 a join int2.t2 b on a.id = b.id where a.q = 1) s join mindsdb.pred m where s.tc1 = 1 and m.mc1 = 2 using partition_size=3",
    "select * from int1.t1 t join (select * from int1.t1 join mindsdb.pred) s on t.id = s.id join proj.pred2 m where t.tc1 in (select a.x from int1.t1 a join int2.t2 b on a.id = b.id) and m.mc1 = (select max(z) from int2.t8)",
    "select * from int1.t1 t join mindsdb.pred m1 on m1.mc1 = t.tc1 join proj.pred2 m2 on m2.mc2 = m1.y and m2.mc1 = t.tc2 where m1.mc2 = 1 and m2.Out = 2",
    "select * from int1.t1 t join mindsdb.pred m1 join proj.pred2 m2 on m1.y = m2.mc2 where m2.mc1 = 1",
    "select t.tc1, m.mc1 from int1.t1 t join mindsdb.pred m on m.mc2 = t.tc2 where m.mc1 = 1 limit 3",
    "select t.tc1, m.mc1 from int1.t1 t join mindsdb.pred m where m.mc1 = 1 and t.tc1 > 2 order by t.tc2 desc, t.id limit 3 offset 2",
    "select * from int1.t1 t join mindsdb.pred m where m.mc1 > 1 order by m.mc2 limit 3",
    "select sum(m.mc1) from int1.t1 t join mindsdb.pred m where m.mc2 = 1 limit 3",
    "select sum(m.mc1) / count(*), round(avg(m.mc2), 2) as mean from int1.t1 t join mindsdb.pred m on m.mc2 = t.tc2 where m.mc1 = 1 limit 3",
    "select cast(max(m.mc1) - min(m.mc1) as int) spread from int1.t1 t join mindsdb.pred m order by t.tc1 limit 5 offset 1",
    "select case when count(*) > 1 then 1 else 0 end from int1.t1 t left join int2.t2 s on t.id = s.id join mindsdb.pred m limit 2",
    "select distinct t.tc1 from int1.t1 t join mindsdb.pred m limit 3",
    "select t.tc1, avg(m.mc1) from int1.t1 t join mindsdb.pred m group by t.tc1 having count(*) > 1 order by t.tc1 limit 3",
    "select * from int1.t1 t left join int2.t2 s on t.id = s.id join mindsdb.pred m where t.tc1 = 1 limit 4 offset 1",
    "select * from (select * from int1.t1) s join int2.t2 t join mindsdb.pred m order by t.tc1 limit 4",
    "select * from int1.T3 as t0 right join proj.pred2 as m1 where t0.TC3 is null and t0.tc1 = 1 and t0.tc2 is not null",
    "select * from int1.t1 t left join int2.t2 s on t.id = s.id full join (select * from int2.tab4) z join mindsdb.pred m where t.tc1 is null and s.tc1 is null and z.tc1 is null and s.tc2 is not null",
    "select * from int1.t1 t join int2.t2 s on t.id = s.id join mindsdb.pred m where t.tc1 between 1 and s.tc2 and s.tc1 between t.tc2 and 5",
    "select * from int1.t1 t join mindsdb.pred m where t.tc1 between 1 and m.mc1 and t.tc2 between m.mc2 and 3 and m.mc1 between 1 and t.tc1",
    "select * from int1.t1 t join mindsdb.pred m where t.tc1 between 1 and tc2 and t.tc2 between t.id + 1 and abs(t.id) and t.id between 1 and 2",
    "select * from (select * from int1.t1) s join int2.t2 t join mindsdb.pred m where s.tc1 between 1 and t.tc2 and t.tc1 between s.id and m.mc1",
]


# ----------------------------------------------------------------------------- join types: what a spelling MEANS


def sem_class(jtype):
    """specification reading of a join-type string (independent of the planner; mirrored by `semClass` in
    lean/MindsVerif/Model/JoinKind.lean and compared with it in the `join_kind` stream): the side words it contains,
    wherever they stand.  A side-less OUTER JOIN names no operand whose unmatched rows may be dropped: 'outer'."""
    w = (jtype or '').upper().split()
    if 'FULL' in w or ('LEFT' in w and 'RIGHT' in w):
        return 'full'
    if 'LEFT' in w:
        return 'left'
    if 'RIGHT' in w:
        return 'right'
    if 'CROSS' in w:
        return 'cross'
    if 'OUTER' in w:
        return 'outer'
    return 'inner'


def pads_right(cls):
    """rows of the right operand can be replaced by NULLs"""
    return cls in ('left', 'full', 'outer')


def pads_left(cls):
    """rows of everything joined before can be replaced by NULLs = every row of the right operand is kept"""
    return cls in ('right', 'full', 'outer')


def jslug(jtype):
    return '-'.join((jtype or '').lower().split())


def spelling_cases():
    """every spelling of the live grammar x {table join, model join, three-table chains} x the shapes the push-down
    decisions look at (ON constant conjunct, ON equality -> semi-join, IS [NOT] NULL on either side, LIMIT).
    The spellings come from the grammar at run time; nothing here names one."""
    sps = join_spellings()
    ex = [sp['sql'] for sp in sps if not sp['implicit']]
    im = [sp['sql'] for sp in sps if sp['implicit']]
    out = []
    for j in ex:
        jl = j.lower()
        out += [
            'select * from int1.t1 a %s int2.t2 b on a.id = b.id and b.tc1 = 1 join mindsdb.pred m where m.mc1 = 1' % j,
            'select * from int1.t1 a %s int2.t2 b on b.id = a.id join mindsdb.pred m where m.mc1 = 1 and a.tc1 = 2' % jl,
            'select * from int1.t1 a %s int2.t2 b on 3 = b.tc2 join mindsdb.pred m on m.mc2 = b.tc2' % j,
            'select * from int1.t1 a %s int2.t2 b on a.id = b.id join mindsdb.pred m '
            'where b.tc1 is null and a.tc2 is null and b.tc2 is not null and a.tc1 is not null and m.mc1 = 1' % j,
            'select * from int1.t1 a %s int2.t2 b join mindsdb.pred m where b.tc1 is null and a.tc2 = 1 limit 3' % jl,
            'select * from int1.t1 a %s mindsdb.pred m on m.mc1 = a.tc1 where m.mc2 = 1 and a.tc1 is null and a.tc2 = 3' % j,
            'select * from int1.t1 a join mindsdb.pred m %s int2.t2 b on b.id = a.id and b.tc1 = 2 where a.tc2 is null and b.tc2 is null' % j,
            'select * from (select * from int1.t1) s %s int2.t2 b on s.id = b.id and b.tc1 = 1 join mindsdb.pred m where s.tc1 is null and b.tc2 is null' % j,
            'select * from int1.t1 a %s (select * from int2.t2) s on s.id = a.id and s.tc1 = 1 join mindsdb.pred m where s.tc1 is null and a.tc2 is null' % j,
            'select a.tc1 from int1.t1 a %s int2.t2 b on a.id = b.id join int1.T3 c on c.id = a.id join mindsdb.pred m limit 5' % j,
        ]
        for j2 in ex:
            out.append('select * from int1.t1 a %s int2.t2 b on a.id = b.id and b.tc1 = 1 %s int1.T3 c on c.id = b.id and c.tc2 = 2 '
                       'join mindsdb.pred m where a.tc1 is null and b.tc1 is null and c.tc1 is null' % (j, j2.lower()))
    for c in im:
        out += [
            'select * from int1.t1 a %s mindsdb.pred m where m.mc1 = 1 and a.tc1 = 2 and a.tc2 is null' % c,
            'select * from int1.t1 a %s int2.t2 b %s mindsdb.pred m where m.mc1 = 1 and a.tc1 is null and b.tc1 is null and a.id = b.id' % (c, c),
            'select * from int1.t1 a %s int2.t2 b %s int1.T3 c %s mindsdb.pred m where b.tc1 = 1 limit 2' % (c, c, c),
        ]
    return out


WORDS = ['LEFT', 'RIGHT', 'FULL', 'INNER', 'OUTER', 'CROSS', 'JOIN', 'NATURAL', 'ANTI', 'SEMI', 'LEFTJOIN', 'FULLY']


def jtype_strings(rng, n):
    """join-type strings for the classification stream: every string the live parser produces, in several cases and with
    other blanks, plus word combinations no parser produces (hand-built ASTs reach the planner with them)"""
    out = []
    for jt in all_join_types():
        out += [jt, jt.lower(), jt.title(), ' ' + jt, jt.replace(' ', '  '), jt.replace(' ', '\t') + ' ']
    for _ in range(n):
        ws = [rng.choice(WORDS) for _ in range(rng.choice([1, 2, 2, 3, 3, 4]))]
        out.append(respell(rng, ' '.join(ws)).replace('\n', ' '))
    seen, uniq = set(), []
    for x in out:
        if x.strip() and x not in seen:
            seen.add(x)
            uniq.append(x)
    return uniq


def observe_string(jt):
    """the four push-down decisions of the REAL planner for a Join whose join_type is exactly `jt` (set on the parsed
    AST, so any string reaches `PlanJoinTablesQuery`), read off the plan steps"""
    from tools.extract import x_c14join
    return x_c14join.observe_string(jt)


def jk_line(jt):
    return 'JK ' + enc(jt)


def jk_expected(jt):
    """what the Lean driver must print for `JK jt`, computed from the real planner and from `sem_class`"""
    o = observe_string(jt)
    b = lambda x: 'true' if x else 'false'
    cls = sem_class(jt)
    first = (jt.split() or [''])[0].lower()
    # every demanded decision is taken (a more cautious one is fine); LIMIT stays at most under a LEFT class
    respects = ((not pads_left(cls) or o['keepsRight']) and (not pads_right(cls) or o['padsRight']) and
                (not pads_left(cls) or o['padsLeft']) and (not o['limitLeft'] or cls == 'left'))
    return 'class=%s;kind=%s;keepsRight=%s;padsRight=%s;padsLeft=%s;limitLeft=%s;respects=%s' % (
        cls, enc(first), b(o['keepsRight']), b(o['padsRight']), b(o['padsLeft']), b(o['limitLeft']), b(respects))


# ----------------------------------------------------------------------------- the property oracle on real plans

ZERO_EQ = ('B', '=', ('K', '0'), ('K', '0'))


ATTRIBUTION_CLASSES = ('model-eq-not-argument:col-first', 'table-column-in-row_dict', 'row_dict-unjustified',
                       'on-equality-not-mapped', 'fetch-filter-unknown', 'model-eq-in-fetch', 'model-eq-not-neutralised')


def resolve(ops, quals):
    """specification reading of "the table the qualifier denotes": case-insensitive alias, or any suffix of
    the table path when un-aliased; later operand wins on clashes; None when nothing matches"""
    q = tuple(p.lower() for p in quals)
    hit = None
    for i, o in enumerate(ops):
        if q in o.names():
            hit = i
    return hit


def strip_col(e):
    """the comparison with its identifier reduced to the column name"""
    if e[0] == 'B':
        l, r = e[2], e[3]
        if l[0] == 'C':
            return ('B', e[1], ('C', (), l[2]), r)
        if r[0] == 'C':
            return ('B', e[1], l, ('C', (), r[2]))
    if e[0] == 'W' and e[1][0] == 'C':
        return ('W', ('C', (), e[1][2]), e[2], e[3])
    return e


def strip_all(e):
    """drop every qualifier (for comparing ON-derived filters, whose qualifiers are rewritten)"""
    k = e[0]
    if k == 'C':
        return ('C', (), e[2])
    if k == 'B':
        return ('B', e[1], strip_all(e[2]), strip_all(e[3]))
    if k == 'W':
        return ('W', strip_all(e[1]), strip_all(e[2]), strip_all(e[3]))
    if k == 'U':
        return ('U', e[1], strip_all(e[2]))
    if k == 'F':
        return ('F', e[1], tuple(strip_all(a) for a in e[2]))
    return e


def cols_of(e):
    return [n for n, _ in sub_nodes(e) if n[0] == 'C']


def simple_cmp(ops, c):
    """(operand, column, other side, orientation) of a comparison column-vs-constant, else None"""
    if c[0] == 'B':
        l, r = c[2], c[3]
        if l[0] == 'C' and r[0] in 'KP' and l[1]:
            return resolve(ops, l[1]), l[2], r, 'col-first'
        if r[0] == 'C' and l[0] in 'KP' and r[1]:
            return resolve(ops, r[1]), r[2], l, 'const-first'
    if c[0] == 'W' and c[1][0] == 'C' and c[1][1] and c[2][0] in 'KP' and c[3][0] in 'KP':
        return resolve(ops, c[1][1]), c[1][2], None, 'between'
    return None


def context_of(anc):
    """short description of where a node sits: '' = top-level conjunct"""
    ctx = []
    for kind, op, pos in anc:
        if kind == 'B' and op == 'and':
            continue
        if kind == 'B' and op == 'or':
            ctx.append('or')
        elif kind == 'U' and op == 'not':
            ctx.append('not')
        elif kind == 'U':
            ctx.append('unary')
        elif kind == 'B':
            ctx.append('operand')
        elif kind == 'W':
            ctx.append('operand')
        elif kind == 'F':
            ctx.append('function')
    return ctx


def polarity(anc):
    """+1 / -1 through and/or/not only, 0 when inside anything else"""
    p = 1
    for kind, op, pos in anc:
        if kind == 'B' and op in ('and', 'or'):
            continue
        if kind == 'U' and op == 'not':
            p = -p
            continue
        return 0
    return p


def find_origin(tree, pred):
    """first visited node satisfying pred, with its ancestors"""
    if tree is None:
        return None
    for n, anc in sub_nodes(tree):
        if pred(n):
            return n, anc
    return None


def flatten_and(e):
    return top_conjuncts(e)


def number_selects(e, k=None):
    """nested selects of WHERE are planned first, in walk order: replace them by Parameter(Result(k))"""
    k = k if k is not None else [0]
    t = e[0]
    if t == 'S':
        k[0] += e[1]
        return ('P', 'r:%d' % (k[0] - 1))
    if t == 'B':
        l = number_selects(e[2], k)
        return ('B', e[1], l, number_selects(e[3], k))
    if t == 'W':
        a = number_selects(e[1], k)
        b = number_selects(e[2], k)
        return ('W', a, b, number_selects(e[3], k))
    if t == 'U':
        return ('U', e[1], number_selects(e[2], k))
    if t == 'F':
        return ('F', e[1], tuple(number_selects(a, k) for a in e[2]))
    return e


def oracle(res):
    """the clauses of C14 applied to one real plan -> list of failure dicts (cls = narrow class)"""
    ops, W, using, view = res['ops'], res['where'], res['using'], res['view']
    if W is not None:
        W = number_selects(W)
    fails = []

    def fail(cls, desc, **kw):
        fails.append(dict(cls=cls, desc=desc, sql=res['sql'], **kw))

    items = list(view.flat())
    by_num = {it['num']: it for it in items}
    models = [i for i, o in enumerate(ops) if o.kind == 'mod']
    applies = [it for it in items if it['kind'] == 'apply']

    # ---- clause 1: one apply step per model reference, fed by the data it is joined to
    if sorted(a['t'] for a in applies) != models:
        fail('apply-count', 'apply steps %s for model operands %s' % (sorted(a['t'] for a in applies), models))

    def covers(num, depth=0):
        it = by_num.get(num)
        if it is None or depth > 50:
            return {'?'}
        k = it['kind']
        if k in ('fetch', 'sub', 'apply'):
            return {it['t']}
        if k == 'join':
            return covers(it['l'], depth + 1) | covers(it['r'], depth + 1)
        if k == 'mr':
            return covers(it['subs'][-1]['num'], depth + 1) if it['subs'] else {'?'}
        if k == 'query':
            return covers(it['inp'], depth + 1)
        return {'?'}

    for a in applies:
        k = a['t']
        if k < 0:
            continue
        expect = set(range(k)) if k > 0 else ({1} if len(ops) == 2 else set())
        got = covers(a['inp'])
        if got != expect:
            fail('apply-input', 'apply step of operand %d is fed by operands %s, expected %s' % (k, sorted(map(str, got)), sorted(expect)))

    # ---- clause 1b: which rows the model is applied to: the data feeding an apply step is cut by the query's
    # LIMIT / OFFSET (ordered by its ORDER BY) only if LIMIT counts rows of that data, i.e. in a plain row query
    info = res['info']
    not_plain = []
    if info['having']:
        not_plain.append('having')
    if info['group_by']:
        not_plain.append('group-by')
    if info['distinct']:
        not_plain.append('distinct')
    if res['aggregates']:
        nested = not any(t[0] == 'F' and t[1].lower() in AGG_NAMES for t in info['targets'])
        not_plain.append('aggregate-nested' if nested else 'aggregate')
    if not_plain:
        fetch_by_t = {it['t']: it for it in items if it['kind'] == 'fetch'}
        for a in applies:
            for t in sorted(x for x in covers(a['inp']) if isinstance(x, int)):
                ft = fetch_by_t.get(t)
                if ft is not None and (ft['limit'] is not None or ft['offset'] is not None):
                    fail('limit-below-model:' + '+'.join(not_plain),
                         'the fetch of operand %d, which feeds the model of operand %d, carries LIMIT %s OFFSET %s although the '
                         'query is not a plain row query (%s)' % (t, a['t'], ft['limit'], ft['offset'], ', '.join(not_plain)))

    # ---- clause 2: model-column = constant conditions
    outer = [it for it in view.items if it['kind'] == 'query']
    outer_w = outer[-1]['w'] if outer else None
    tcs = top_conjuncts(W)
    outer_tcs = top_conjuncts(outer_w)
    fetch_filters = []      # (operand, conjunct, via)
    for it in items:
        if it['kind'] in ('fetch', 'sub') and it['w'] is not None:
            for c in flatten_and(it['w']):
                fetch_filters.append((it['t'], c, it['kind']))
    apply_of = {a['t']: a for a in applies}
    for pos, c in enumerate(tcs):
        sc = simple_cmp(ops, c)
        if sc is None or sc[0] is None or ops[sc[0]].kind != 'mod' or c[0] != 'B' or c[1] != '=':
            continue
        i, col, other, orient = sc
        tgt = ops[i].target
        if tgt is not None and col.lower() == tgt.lower():
            continue            # the predicted column is an output, not an argument (documented reading)
        a = apply_of.get(i)
        if a is None:
            continue
        row = a['row'] or {}
        if col not in row or (orient == 'const-first' and len(outer_tcs) == len(tcs) and outer_tcs[pos] != ZERO_EQ):
            fail('model-eq-not-argument:' + orient,
                 'top-level condition %s on model operand %d is not in row_dict %s' % (show_e(c), i, row), conjunct=show_e(c))
            continue
        if len(outer_tcs) == len(tcs) and outer_tcs[pos] != ZERO_EQ:
            fail('model-eq-not-neutralised', 'consumed condition %s still filters the outer query: %s' % (show_e(c), show_e(outer_tcs[pos])))
        for (t, f, via) in fetch_filters:
            if f == strip_col(c) and not any(strip_col(c2) == f and (simple_cmp(ops, c2) or (None,))[0] == t for c2 in tcs):
                fail('model-eq-in-fetch', 'model condition %s was sent to operand %d' % (show_e(c), t))
    for a in applies:
        i = a['t']
        if i < 0:
            continue
        for k, v in (a['row'] or {}).items():
            def is_origin(n, k=k, v=v, i=i):
                sc = simple_cmp(ops, n)
                return (n[0] == 'B' and n[1] == '=' and sc is not None and sc[0] == i and sc[1] == k
                        and sc[2] is not None and sc[2][1] == v)
            origins = [(n, anc) for n, anc in (sub_nodes(W) if W is not None else []) if is_origin(n)]
            if not origins:
                # does it come from a table column?
                tab = [(n, anc) for n, anc in (sub_nodes(W) if W is not None else [])
                       if simple_cmp(ops, n) and simple_cmp(ops, n)[1] == k and simple_cmp(ops, n)[0] != i]
                fail('table-column-in-row_dict' if tab else 'row_dict-unjustified',
                     'row_dict entry %s=%s of operand %d has no equality on a column of that model' % (k, v, i))
                continue
            pols = [polarity(anc) for n, anc in origins]
            if all(p < 0 for p in pols):
                fail('model-arg-negated',
                     'row_dict entry %s=%s of operand %d comes only from a NEGATED comparison; the outer filter becomes NOT 0 = 0' % (k, v, i),
                     context='/'.join(context_of(origins[0][1])))

    # ---- clause 3: pushed filters are top-level conjuncts mentioning only that table
    # `model JOIN table`: the planner swaps the two operands (the table is fetched first, the join type is not looked at)
    swapped = len(ops) == 2 and ops[0].kind == 'mod'
    for (t, f, via) in fetch_filters:
        if t < 0:
            continue
        ok = False
        for c in tcs:
            sc = simple_cmp(ops, c)
            if sc is not None and sc[0] == t and strip_col(c) == f and all(resolve(ops, x[1]) == t for x in cols_of(c) if x[1]):
                ok = True
        if not ok and f[0] == 'B' and f[1] == 'in' and f[3][0] == 'P' and f[3][1].startswith('r:'):
            # semi-join reduction derived from an ON equality (that it keeps the join result is C08's subject).  Which rows
            # reach the model is ours: the right operand of a join that keeps all its rows (RIGHT / FULL / side-less OUTER,
            # however spelled) must not be reduced to the keys of the other side
            if not swapped and pads_left(sem_class(ops[t].jtype)):
                fail('on-semijoin-outer-join:' + jslug(ops[t].jtype),
                     'operand %d is the right operand of a %s, which keeps every row of it, but its fetch is restricted by the '
                     'semi-join filter %s derived from the ON clause' % (t, ops[t].jtype, show_e(f)))
            continue
        if ok and f[0] == 'B' and f[1].lower() == 'is' and f[3] == ('K', 'None') and not swapped:
            # `col IS NULL` accepts the NULLs an outer join puts in place of a missing row: applied before the join on the
            # padded side it turns matched rows into padded ones, which then pass the outer WHERE (15097fa)
            cause = None
            if t >= 1 and pads_right(sem_class(ops[t].jtype)):
                cause = ops[t].jtype
            for k2 in range(t + 1, len(ops)):
                if cause is None and pads_left(sem_class(ops[k2].jtype)):
                    cause = ops[k2].jtype
            if cause is not None:
                fail('is-null-filter-on-padded-side:' + jslug(cause),
                     'the rows of operand %d can be replaced by NULLs (%s), yet %s of WHERE is applied in its fetch' % (
                         t, cause, show_e(f)))
                continue
        on = ops[t].on
        on_hit = None
        if not ok and on is not None:
            for c in top_conjuncts(on):
                if strip_all(c) == strip_all(f) and all(resolve(ops, x[1]) == t for x in cols_of(c) if x[1]):
                    on_hit = c
            if on_hit is not None:
                # inner / cross / left, however spelled: the ON clause restricts the right operand
                if not pads_left(sem_class(ops[t].jtype)):
                    ok = True
                else:
                    fail('on-filter-outer-join:' + jslug(ops[t].jtype),
                         'ON conjunct %s of a %s is pushed into the fetch of operand %d' % (show_e(on_hit), ops[t].jtype, t))
                    continue
        if ok:
            continue
        other = None
        for c in tcs:
            if strip_col(c) == f and c[0] in 'BW':
                first = c[1] if c[0] == 'W' else (c[2] if c[2][0] == 'C' else c[3])
                if first[0] == 'C' and first[1] and resolve(ops, first[1]) == t:
                    extra = [x for x in cols_of(c) if x is not first and not (x[1] and resolve(ops, x[1]) == t)]
                    if extra or any(a[0] not in 'CKP' for a in c[1:] if isinstance(a, tuple)):
                        other = (c, extra)
        if other is not None:
            fail('fetch-filter-mentions-other-table',
                 'pushed filter %s of operand %d comes from the conjunct %s, which is not `column op constant`: it mentions %s' % (
                     show_e(f), t, show_e(other[0]), [show_e(x) for x in other[1]] or 'an expression'))
            continue
        org = find_origin(W, lambda n: strip_col(n) == f and (simple_cmp(ops, n) or (None,))[0] == t)
        src = 'where'
        if org is None and on is not None:
            org = find_origin(on, lambda n: strip_all(n) == strip_all(f) and
                              all(resolve(ops, x[1]) == t for x in cols_of(n) if x[1]))
            src = 'on'
        clash = None
        if org is None:
            for t2, o2 in enumerate(ops):
                if t2 == t or o2.names()[-1] not in ops[t].names():
                    continue
                for tree in (W, on):
                    if find_origin(tree, lambda n: n[0] in 'BW' and strip_all(n) == strip_all(f) and
                                   [x for x in cols_of(n) if x[1]] and
                                   all(resolve(ops, x[1]) == t2 for x in cols_of(n) if x[1])):
                        clash = t2
        if clash is not None:
            fail('fetch-filter-wrong-table:alias-clash',
                 'filter %s on operand %d was pushed into the fetch of operand %d: the qualifier, rewritten to %r, '
                 'is also a name of the later operand' % (show_e(f), clash, t, '.'.join(ops[clash].names()[-1])))
        elif org is None:
            fail('fetch-filter-unknown', 'filter %s of operand %d (%s) has no origin in WHERE / ON' % (show_e(f), t, via))
        else:
            ctx = context_of(org[1])
            fail('fetch-filter-not-conjunct:%s:%s:%s' % (via, src, '/'.join(sorted(set(ctx))) or 'top'),
                 'filter %s of operand %d is not a top-level conjunct (context %s of %s)' % (show_e(f), t, '/'.join(ctx), src),
                 context='/'.join(ctx))

    # ---- clause 4: USING
    for a in applies:
        i = a['t']
        if i < 0:
            continue
        if using is None:
            if a['params'] is not None:
                fail('using-params', 'params %s without USING' % a['params'])
            continue
        names = {n[0] for n in ops[i].names() if len(n) == 1}
        exp, exp_cs = {}, {}
        for k, v in using.items():
            if '.' in k:
                al, rest = k.split('.', 1)
                if al.lower() in names:
                    exp[rest.lower()] = val_str(v)
                if al in names:
                    exp_cs[rest.lower()] = val_str(v)
            else:
                exp[k.lower()] = val_str(v)
                exp_cs[k.lower()] = val_str(v)
        exp.pop('partition_size', None)
        exp_cs.pop('partition_size', None)
        got = a['params'] or {}
        if got != exp:
            if got == exp_cs:
                fail('using-alias-case', 'USING key with the alias prefix in another case is dropped: expected %s got %s' % (exp, got))
            else:
                fail('using-params', 'params of operand %d: expected %s got %s' % (i, exp, got))

    # ---- clause 5: ON model-vs-table equalities -> columns_map
    for k, o in enumerate(ops):
        if o.on is None:
            continue
        cands = {}      # (model operand, key) -> acceptable values (any visited comparison; the last one wins in the code)
        for n, _ in sub_nodes(o.on):
            if n[0] == 'B' and n[2][0] == 'C' and n[3][0] == 'C':
                for (cm, co) in ((n[2], n[3]), (n[3], n[2])):
                    if cm[1]:
                        tm = resolve(ops, cm[1])
                        if tm is not None:
                            cands.setdefault((tm, cm[2]), []).append(('C', tuple(p.lower() for p in co[1]), co[2]))
        for c in top_conjuncts(o.on):
            if c[0] == 'B' and c[1] == '=' and c[2][0] == 'C' and c[3][0] == 'C' and c[2][1] and c[3][1]:
                t1, t2 = resolve(ops, c[2][1]), resolve(ops, c[3][1])
                for (tm, cm, to, co) in ((t1, c[2], t2, c[3]), (t2, c[3], t1, c[2])):
                    # the other side: a column of the data the model is joined to — a table, a sub-select, or a model
                    # applied earlier (its output columns are part of that data)
                    if tm is not None and to is not None and ops[tm].kind == 'mod' and to != tm and \
                            (ops[to].kind != 'mod' or to < tm):
                        if tm == k:
                            cls = 'on-equality-not-mapped'
                        elif len(ops) == 2 and tm == 0 and k == 1:
                            cls = 'on-equality-not-mapped:model-first'
                        else:
                            break       # ON of a later join: the model has already been applied
                        a = apply_of.get(tm)
                        if a is None:
                            break
                        cmap = a['cmap'] or {}
                        got = cmap.get(cm[2])
                        ok = got is not None and got[0] == 'C' and any(
                            got[2] == x[2] and resolve(ops, got[1]) == resolve(ops, x[1]) for x in cands.get((tm, cm[2]), []))
                        g2 = resolve(ops, got[1]) if got is not None and got[0] == 'C' else None
                        if not ok and g2 is not None and g2 != to and got[2] == co[2] and ops[to].names()[-1] in ops[g2].names():
                            fail('columns_map-wrong-table:alias-clash',
                                 'columns_map value %s denotes operand %d, the ON equality %s names operand %d' % (
                                     show_e(got), g2, show_e(c), to))
                        elif not ok:
                            fail(cls, 'ON equality %s between model operand %d and operand %d is not in columns_map %s' % (
                                show_e(c), tm, to, {kk: show_e(vv) for kk, vv in cmap.items()}))
                        break
    # queries in which the short name of an operand is also a name of another operand: the library rewrites every
    # qualifier to the short name and then resolves it to the LATER operand (one root cause, KF-C14-10)
    clash = any(i != j and ops[i].names()[-1] in ops[j].names() for i in range(len(ops)) for j in range(len(ops)))
    if clash:
        for f in fails:
            if f['cls'] in ATTRIBUTION_CLASSES or f['cls'].startswith(('on-filter-outer-join', 'on-semijoin-outer-join',
                                                                        'is-null-filter-on-padded-side')):
                f['cls'] = 'alias-clash:' + f['cls']
    return fails
