"""Reference executor for REAL plans of mindsdb_sql (C08).

Every integration is its own in-memory sqlite3 database; a further database `ref` ATTACHes one schema per
integration and holds all tables (the "single engine").  Steps are carried out per the docstrings of
mindsdb_sql/planner/steps.py:

  FetchDataframeStep   run the step's query (printed with the library's own `str(query)`) on the integration's database,
                       `Parameter(Result(k))` replaced by the first column of step k's result
                       (tuple for IN / NOT IN, scalar otherwise);
  SubSelectStep        "select from dataframe": the dataframe is ONE table called `table_name`; columns by name;
  QueryStep            "query using injected dataframe": columns resolved by (table alias, column name);
  JoinStep             join two dataframes with the step's join type and condition (columns by (alias, name));
  UnionStep            union / intersect / except of two dataframes, `unique` = DISTINCT;
  ProjectStep, LimitOffsetStep, FilterStep, OrderByStep, GroupByStep, MultipleSteps: select over the dataframe.

A dataframe is (cols = [(table_alias | None, column_name)], rows = [tuple]).  All expression evaluation is done by
sqlite itself (scratch database), so NULL / 3-valued logic / aggregates are the engine's, not ours.
"""
import copy, sqlite3

from tools.harness import common  # noqa: F401  (puts the repo on sys.path)


class ExecError(Exception):
    pass


class DF:
    __slots__ = ('cols', 'rows')

    def __init__(self, cols, rows):
        self.cols, self.rows = list(cols), [tuple(r) for r in rows]

    def __repr__(self):
        return 'DF(%s, %s)' % (self.cols, self.rows)


# ----------------------------------------------------------------------------- AST helpers (own walker, not the library's)
def _ast():
    from mindsdb_sql.parser import ast
    return ast


def map_ast(node, fn, parent=None):
    """generic bottom-less rewrite: fn(node, parent) -> replacement or None; recurses into every attribute that holds
    AST nodes (directly, in lists/tuples, in dict values).  Independent of planner.utils.query_traversal."""
    ast = _ast()
    if isinstance(node, (list, tuple)):
        out = [map_ast(x, fn, parent) for x in node]
        return out
    if not isinstance(node, ast.ASTNode):
        return node
    r = fn(node, parent)
    if r is not None:
        return r
    for k, v in list(vars(node).items()):
        if k.startswith('_') or k == 'alias':
            continue
        if isinstance(v, ast.ASTNode):
            setattr(node, k, map_ast(v, fn, node))
        elif isinstance(v, (list, tuple)) and any(isinstance(x, (ast.ASTNode, list, tuple)) for x in v):
            setattr(node, k, map_ast(v, fn, node))
        elif isinstance(v, dict) and any(isinstance(x, ast.ASTNode) for x in v.values()):
            setattr(node, k, {kk: map_ast(vv, fn, node) for kk, vv in v.items()})
    return node


def const_node(v):
    ast = _ast()
    if v is None:
        return ast.NullConstant()
    return ast.Constant(v)


def fill_params(query, results):
    """Parameter(Result(k)) -> values of the first column of step k"""
    ast = _ast()
    from mindsdb_sql.planner.step_result import Result

    def fn(node, parent):
        if isinstance(node, ast.Parameter) and isinstance(node.value, Result):
            df = results[node.value.step_num]
            vals = [r[0] for r in df.rows]
            if isinstance(parent, ast.BinaryOperation) and parent.op.lower() in ('in', 'not in'):
                return ast.Tuple([const_node(v) for v in vals])
            if len(vals) == 0:
                return ast.NullConstant()
            if len(vals) == 1:
                return const_node(vals[0])
            raise ExecError('scalar parameter bound to %d rows' % len(vals))
        return None
    return map_ast(query, fn)


def lower(s):
    return s.lower() if isinstance(s, str) else s


# ----------------------------------------------------------------------------- databases
class World:
    """one sqlite database per integration + the reference database holding everything"""

    def __init__(self, schema, names=None):
        # schema: {integration: {table: [columns]}} in LOGICAL names; names: logical word -> the name the engines really use
        # (any string: dots, spaces, keywords, upper case); tables and columns are created with sqlite's "…" quoting
        self.schema = schema
        self.names = dict(names or {})
        self.ints = {}
        self.ref = sqlite3.connect(':memory:')
        for i, tabs in schema.items():
            c = sqlite3.connect(':memory:')
            self.ints[i] = c
            self.ref.execute("ATTACH ':memory:' AS %s" % i)
            for t, cols in tabs.items():
                cs = ', '.join(self.qn(x) for x in cols)
                c.execute('CREATE TABLE %s (%s)' % (self.qn(t), cs))
                self.ref.execute('CREATE TABLE %s.%s (%s)' % (i, self.qn(t), cs))
        self.scratch = sqlite3.connect(':memory:')
        self.ntmp = 0

    def qn(self, word):
        return '"%s"' % self.names.get(word, word).replace('"', '""')

    def load(self, contents):
        """contents: {(integration, table): [rows]} (logical table names)"""
        for i, tabs in self.schema.items():
            for t, cols in tabs.items():
                rows = contents.get((i, t), [])
                ph = ','.join('?' * len(cols))
                for conn, name in ((self.ints[i], self.qn(t)), (self.ref, '%s.%s' % (i, self.qn(t)))):
                    conn.execute('DELETE FROM %s' % name)
                    if rows:
                        conn.executemany('INSERT INTO %s VALUES (%s)' % (name, ph), rows)

    def reference(self, sql):
        cur = self.ref.execute(sql)
        return [tuple(r) for r in cur.fetchall()]

    # scratch tables
    def put(self, df, prefix='c'):
        self.ntmp += 1
        name = 'df%d' % self.ntmp
        names = ['%s%d' % (prefix, i) for i in range(len(df.cols))]
        self.scratch.execute('CREATE TABLE %s (%s)' % (name, ', '.join(names)))
        if df.rows:
            self.scratch.executemany('INSERT INTO %s VALUES (%s)' % (name, ','.join('?' * len(names))), df.rows)
        return name, names

    def cleanup(self):
        for i in range(1, self.ntmp + 1):
            self.scratch.execute('DROP TABLE IF EXISTS df%d' % i)
        self.ntmp = 0


# ----------------------------------------------------------------------------- select over a dataframe
def resolve_col(cols, ident, by_name_fallback):
    ast = _ast()
    parts = [lower(p) for p in ident.parts if not isinstance(p, ast.Star)]
    if not parts:
        return None
    name = parts[-1]
    qual = parts[-2] if len(parts) > 1 else None
    cand = [i for i, (t, n) in enumerate(cols) if n == name and (qual is None or t == qual)]
    if not cand and qual is not None and by_name_fallback:
        cand = [i for i, (t, n) in enumerate(cols) if n == name]
    if not cand:
        return None
    if len(cand) > 1:
        raise ExecError('ambiguous column %s in %s' % ('.'.join(parts), cols))
    return cand[0]


def select_over_df(world, query, df, results, table_name=None, by_name=False):
    """run a Select AST (its from_table is ignored) over a dataframe"""
    ast = _ast()
    q = copy.deepcopy(query)
    q = fill_params(q, results)
    q.cte = None
    q.using = None
    name, names = world.put(df)
    cols = df.cols
    out_cols = []
    new_targets = []
    for t in q.targets:
        if isinstance(t, ast.Star):
            for i, (tb, n) in enumerate(cols):
                new_targets.append(ast.Identifier(parts=[names[i]]))
                out_cols.append((tb, n))
        elif isinstance(t, ast.Identifier) and t.parts and isinstance(t.parts[-1], ast.Star):
            qual = lower(t.parts[-2]) if len(t.parts) > 1 else None
            hit = False
            for i, (tb, n) in enumerate(cols):
                if qual is None or tb == qual or (by_name and table_name and qual == table_name):
                    new_targets.append(ast.Identifier(parts=[names[i]]))
                    out_cols.append((tb, n))
                    hit = True
            if not hit:
                raise ExecError('no columns for %s' % t)
        else:
            if isinstance(t, ast.Identifier):
                i = resolve_col(cols, t, by_name)
                if i is None:
                    raise ExecError('unknown column %s in %s' % (t, cols))
                out_cols.append((cols[i][0], lower(t.alias.parts[-1]) if t.alias is not None else cols[i][1]))
            else:
                al = getattr(t, 'alias', None)
                out_cols.append((None, lower(al.parts[-1]) if al is not None else str(t).lower()))
            new_targets.append(t)
    q.targets = new_targets
    aliases = {c[1] for c in out_cols}

    def fn(node, parent):
        if isinstance(node, ast.Identifier):
            if node.parts and isinstance(node.parts[-1], ast.Star):
                return node
            if len(node.parts) == 1 and node.parts[0] in names:
                return node
            i = resolve_col(cols, node, by_name)
            if i is None:
                if len(node.parts) == 1 and lower(node.parts[0]) in aliases:
                    return node        # reference to a select alias (ORDER BY / GROUP BY / HAVING)
                raise ExecError('unknown column %s in %s' % (node, cols))
            node.parts = [names[i]]
            return node
        if isinstance(node, ast.Select) and node is not q:
            raise ExecError('nested select inside a dataframe query: %s' % node)
        return None
    for attr in ('targets', 'where', 'group_by', 'having', 'order_by'):
        v = getattr(q, attr)
        if v is not None:
            setattr(q, attr, map_ast(v, fn, q))
    q.from_table = ast.Identifier(parts=[name])
    if q.offset is not None and q.limit is None:
        q.limit = ast.Constant(-1)      # "OFFSET n" alone: skip n rows (sqlite spells it LIMIT -1 OFFSET n)
    sql = str(q)
    try:
        rows = world.scratch.execute(sql).fetchall()
    except sqlite3.Error as e:
        raise ExecError('sqlite: %s in %s' % (e, sql))
    if table_name is not None:
        out_cols = [(lower(table_name), n) for (_, n) in out_cols]
    return DF(out_cols, rows)


def join_dfs(world, left, right, join):
    ast = _ast()
    ln, lnames = world.put(left, 'l')
    rn, rnames = world.put(right, 'r')
    cols = left.cols + right.cols
    names = lnames + rnames
    sql = 'SELECT * FROM %s %s %s' % (ln, join.join_type, rn)
    if join.condition is not None:
        cond = copy.deepcopy(join.condition)

        def fn(node, parent):
            if isinstance(node, ast.Identifier):
                i = resolve_col(cols, node, False)
                if i is None:
                    raise ExecError('join condition: unknown column %s in %s' % (node, cols))
                node.parts = [names[i]]
                return node
            return None
        cond = map_ast(cond, fn)
        sql += ' ON ' + str(cond)
    try:
        rows = world.scratch.execute(sql).fetchall()
    except sqlite3.Error as e:
        raise ExecError('sqlite: %s in %s' % (e, sql))
    return DF(cols, rows)


def table_alias_of(query):
    ast = _ast()
    ft = getattr(query, 'from_table', None)
    if isinstance(ft, ast.Identifier):
        if ft.alias is not None:
            return lower(ft.alias.parts[-1])
        return lower(ft.parts[-1])
    return None


# ----------------------------------------------------------------------------- the interpreter
def exec_plan(world, steps, trace=None):
    from mindsdb_sql.planner import steps as S
    ast = _ast()
    results = {}
    last = None
    try:
        for st in steps:
            if isinstance(st, S.FetchDataframeStep):
                if st.query is None:
                    raise ExecError('raw_query fetch')
                if st.integration not in world.ints:
                    raise ExecError('unknown integration %r' % st.integration)
                q = fill_params(copy.deepcopy(st.query), results)
                if isinstance(q, ast.Select) and q.offset is not None and q.limit is None:
                    q.limit = ast.Constant(-1)      # "OFFSET n" alone: skip n rows (sqlite spells it LIMIT -1 OFFSET n)
                sql = str(q)
                try:
                    cur = world.ints[st.integration].execute(sql)
                    rows = cur.fetchall()
                except sqlite3.Error as e:
                    raise ExecError('sqlite(%s): %s in %s' % (st.integration, e, sql))
                tb = table_alias_of(q)
                df = DF([(tb, lower(d[0])) for d in cur.description], rows)
            elif isinstance(st, S.SubSelectStep):
                df = select_over_df(world, st.query, results[st.dataframe.step_num], results,
                                    table_name=lower(st.table_name) if st.table_name else None, by_name=True)
            elif isinstance(st, S.QueryStep):
                df = select_over_df(world, st.query, results[st.from_table.step_num], results)
            elif isinstance(st, S.JoinStep):
                df = join_dfs(world, results[st.left.step_num], results[st.right.step_num], st.query)
            elif isinstance(st, S.UnionStep):
                l, r = results[st.left.step_num], results[st.right.step_num]
                if len(l.cols) != len(r.cols):
                    raise ExecError('union of %d and %d columns' % (len(l.cols), len(r.cols)))
                ln, _ = world.put(l)
                rn, _ = world.put(r)
                op = {'union': 'UNION', 'intersect': 'INTERSECT', 'except': 'EXCEPT'}[st.operation]
                if not st.unique:
                    if op != 'UNION':
                        raise ExecError('%s ALL is not available in the reference engine' % op)
                    op += ' ALL'
                rows = world.scratch.execute('SELECT * FROM %s %s SELECT * FROM %s' % (ln, op, rn)).fetchall()
                df = DF(l.cols, rows)
            elif isinstance(st, S.ProjectStep):
                df = select_over_df(world, ast.Select(targets=list(st.columns)), results[st.dataframe.step_num], results)
            elif isinstance(st, S.LimitOffsetStep):
                df = select_over_df(world, ast.Select(targets=[ast.Star()], limit=_c(st.limit), offset=_c(st.offset)),
                                    results[st.dataframe.step_num], results)
            elif isinstance(st, S.FilterStep):
                df = select_over_df(world, ast.Select(targets=[ast.Star()], where=st.query),
                                    results[st.dataframe.step_num], results)
            elif isinstance(st, S.OrderByStep):
                df = select_over_df(world, ast.Select(targets=[ast.Star()], order_by=list(st.order_by)),
                                    results[st.dataframe.step_num], results)
            elif isinstance(st, S.GroupByStep):
                df = select_over_df(world, ast.Select(targets=list(st.targets), group_by=list(st.columns)),
                                    results[st.dataframe.step_num], results)
            elif isinstance(st, S.MultipleSteps):
                sub = exec_plan(world, st.steps)
                df = sub
            else:
                raise ExecError('step kind %s has no documented relational meaning here' % type(st).__name__)
            results[st.step_num] = df
            last = df
            if trace is not None:
                trace.append((st.step_num, type(st).__name__, df.cols, df.rows))
    finally:
        world.cleanup()
    return last


def _c(v):
    ast = _ast()
    if v is None or isinstance(v, ast.ASTNode):
        return v
    return ast.Constant(v)
