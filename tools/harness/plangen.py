"""C09 generators: catalogs (shapes taken from tests/test_planner), a broad planner query stream for the
impl-level probe, and a skeleton-first stream for the correspondence with Model/Plan.lean."""
import copy

MODELS = [
    {'name': 'm1', 'integration_name': 'proj', 'to_predict': ['y']},
    {'name': 'm2', 'integration_name': 'proj'},
    {'name': 'ts1', 'integration_name': 'proj', 'timeseries': True, 'order_by_column': 't',
     'group_by_columns': ['g'], 'window': 5},
    {'name': 'ts2', 'integration_name': 'proj', 'timeseries': True, 'order_by_column': 't',
     'group_by_columns': [], 'window': 3},
]


def legacy(models, with_ns):
    out = {}
    for m in models:
        d = {k: v for k, v in m.items() if k not in ('name',)}
        if not with_ns:
            d.pop('integration_name')
            out[m['name']] = d
        else:
            out['proj.' + m['name']] = d
    return out


def catalogs():
    """name -> kwargs of plan_query.  All describe: sql integrations int1, int2; project proj with models
    m1, m2 (plain), ts1 (time series, grouped), ts2 (time series, ungrouped)."""
    ints_d = [{'name': 'int1', 'class_type': 'sql', 'type': 'data'}, {'name': 'int2', 'class_type': 'sql', 'type': 'data'}]
    return {
        'names+list': dict(integrations=['int1', 'int2'], predictor_namespace='mindsdb', predictor_metadata=copy.deepcopy(MODELS)),
        'dicts+list+ns': dict(integrations=ints_d + [{'name': 'proj', 'type': 'project'}], default_namespace='proj',
                              predictor_metadata=copy.deepcopy(MODELS)),
        'names+legacy': dict(integrations=['int1', 'int2'], predictor_namespace='proj',
                             predictor_metadata=legacy(MODELS, False)),
        # dotted legacy names do not register their project, so it is listed as a project integration
        'names+legacy-dotted': dict(integrations=['int1', 'int2', {'name': 'proj', 'type': 'project'}],
                                    predictor_metadata=legacy(MODELS, True)),
        'names+list+ns-int1': dict(integrations=['int1', 'int2'], default_namespace='int1',
                                   predictor_metadata=copy.deepcopy(MODELS)),
        'names-with-proj': dict(integrations=['int1', 'int2', 'proj'], default_namespace='proj',
                                predictor_metadata=copy.deepcopy(MODELS)),
    }


def probe_catalogs():
    """name -> catalog.  Besides the base catalogs, every SHAPE name `<base>|<record>.<key>=<json or ~>|…`
    (tools/harness/catshape.py: a base catalog with keys of a model / integration record removed, set to None, emptied or
    given another type) is built on demand, so witnesses and replays can name the catalog they failed on."""
    from . import catshape
    c = catshape.Catalogs(catalogs())
    c['api'] = dict(integrations=[{'name': 'int1', 'class_type': 'api', 'type': 'data'}, 'int2'],
                    predictor_namespace='mindsdb', predictor_metadata=copy.deepcopy(MODELS))
    c['none'] = dict(integrations=['int1', 'int2'])
    c['files'] = dict(integrations=['int1', 'files', 'views'], default_namespace='mindsdb',
                      predictor_metadata=copy.deepcopy(MODELS))
    return c


# ------------------------------------------------------------------ broad stream for the probe

TABLES = ['int1.tab1', 'int1.tab2', 'int2.tab3', 'int2.tab4', 'INT1.tab1', 'tab5', 'files.f1', 'proj.v1', 'int1.sch.tab6']
PLAIN = ['proj.m1', 'proj.m2', 'm1', 'proj.m1.3', 'mindsdb.m1']
TSM = ['proj.ts1', 'proj.ts2', 'ts1']
COLS = ['id', 'x', 'y', 't', 'g']


class Gen:
    def __init__(self, rng):
        self.r = rng
        self.n = 0

    def alias(self):
        self.n += 1
        return 'a%d' % self.n

    def const(self):
        return self.r.choice(['1', '0', "'s'", '2.5', 'null', "'2020-01-01'"])

    def simple_select(self, depth=0):
        r = self.r
        t = r.choice(TABLES[:5])
        s = 'select %s from %s' % (r.choice(['*', 'x', 'max(x)', 'id, x', 'x as z']), t)
        if r.random() < 0.5:
            s += ' where ' + self.cond([None], depth + 1)
        if r.random() < 0.2:
            s += ' limit 3'
        return s

    def any_select(self, depth):
        r = self.r
        if depth >= 2 or r.random() < 0.6:
            return self.simple_select(depth)
        return self.select(depth + 1)

    def col(self, aliases):
        a = self.r.choice(aliases)
        c = self.r.choice(COLS)
        k = self.r.random()
        if k < 0.08:
            return c                      # unqualified although the query has aliases
        if k < 0.11:
            return 'zz.%s' % c            # unknown alias
        return c if a is None else '%s.%s' % (a, c)

    def cond(self, aliases, depth=0):
        r = self.r
        k = r.random()
        if k < 0.30:
            l, rr = self.col(aliases), self.const()
            if r.random() < 0.2:
                l, rr = rr, l             # constant on the left
            return '%s %s %s' % (l, r.choice(['=', '>', '<', '>=', '<=', '<>']), rr)
        if k < 0.40:
            return '%s = %s' % (self.col(aliases), self.col(aliases))
        if k < 0.50 and depth < 2:
            return '%s %s (%s)' % (self.col(aliases), r.choice(['in', '=', 'not in', '>']), self.any_select(depth + 1))
        if k < 0.56:
            return '%s between %s and %s' % (self.col(aliases), self.const(), self.const())
        if k < 0.62:
            return '%s %s latest' % (self.col(aliases), r.choice(['>', '=']))
        if k < 0.80 and depth < 3:
            return '%s %s %s' % (self.cond(aliases, depth + 1), r.choice(['and', 'and', 'or', 'AND', 'OR']), self.cond(aliases, depth + 1))
        if k < 0.85 and depth < 3:
            return 'not %s' % self.cond(aliases, depth + 1)
        if k < 0.90 and depth < 3:
            return '(%s)' % self.cond(aliases, depth + 1)
        if k < 0.94:
            return '%s is not null' % self.col(aliases)
        if k < 0.97 and depth < 2:
            return 'exists (%s)' % self.any_select(depth + 1)
        return '%s like %s' % (self.col(aliases), "'a%'")

    def operand(self, depth, allow_model=True):
        r = self.r
        k = r.random()
        a = self.alias()
        use_alias = r.random() < 0.85
        if k < 0.65 and k >= 0.45:
            use_alias = True if r.random() < 0.9 else use_alias
        if k < 0.45 or not allow_model and k < 0.75:
            t = r.choice(TABLES)
            return (t + (' as ' + a if use_alias else ''), a if use_alias else t.split('.')[-1], 'table')
        if k < 0.65 and allow_model:
            t = r.choice(PLAIN)
            return (t + (' as ' + a if use_alias else ''), a if use_alias else t.split('.')[-1], 'model')
        if k < 0.75 and allow_model:
            t = r.choice(TSM)
            return (t + (' as ' + a if use_alias else ''), a if use_alias else t.split('.')[-1], 'ts')
        if k < 0.93 and depth < 2:
            return ('(%s)%s' % (self.any_select(depth + 1), ' as ' + a if r.random() < 0.9 else ''), a, 'sub')
        if k < 0.97:
            return ('int1 (select * from raw)' + (' as ' + a if use_alias else ''), a, 'native')
        return (r.choice(TABLES[:4]) + ' ' + a, a, 'table')

    def on_side(self, aliases, i):
        r = self.r
        k = r.random()
        if k < 0.35:
            return '%s.%s' % (aliases[i], r.choice(COLS))
        if k < 0.55:
            return '%s.%s' % (r.choice(aliases), r.choice(COLS))
        if k < 0.78:
            return r.choice(COLS + ['order_id'])
        if k < 0.84:
            return 'zz.%s' % r.choice(COLS)
        return self.const()

    def on_cond(self, aliases, i):
        r = self.r
        return '%s %s %s' % (self.on_side(aliases, i), r.choice(['=', '=', '=', '<>', '>', '<', '>=', '<=']),
                             self.on_side(aliases, i))

    def from_clause(self, depth):
        r = self.r
        n = r.choice([1, 1, 2, 2, 2, 3, 3, 4])
        ops = [self.operand(depth) for _ in range(n)]
        aliases = [o[1] for o in ops]
        s = ops[0][0]
        commas = r.random() < 0.1
        for i in range(1, n):
            jt = r.choice(['join', 'join', 'left join', 'inner join', 'right join', 'full join', 'cross join'])
            if commas:
                s += ', ' + ops[i][0]
                continue
            s += ' %s %s' % (jt, ops[i][0])
            if jt != 'cross join' and r.random() < 0.7:
                on = '%s.%s = %s.%s' % (aliases[i], r.choice(COLS), r.choice(aliases[:i] + aliases), r.choice(COLS))
                if r.random() < 0.45:
                    # free-form ON: either side may be the joined table's column, another table's column, an
                    # UNQUALIFIED column, a column of an unknown alias, or a constant; any comparison operator
                    on = self.on_cond(aliases, i)
                    for _ in range(r.choice([0, 0, 1, 2])):
                        on += ' %s %s' % (r.choice(['and', 'and', 'and', 'or']), self.on_cond(aliases, i))
                if r.random() < 0.3:
                    on += ' and %s' % self.cond([aliases[i]] + aliases[:i], 2)
                s += ' on ' + on
        return s, aliases, [o[2] for o in ops]

    def targets(self, aliases, depth):
        r = self.r
        out = []
        for _ in range(r.choice([1, 1, 1, 2, 3])):
            k = r.random()
            if k < 0.35:
                out.append('*')
            elif k < 0.55:
                out.append(self.col(aliases))
            elif k < 0.65:
                out.append('%s.*' % r.choice([a for a in aliases if a] or ['t']))
            elif k < 0.75:
                out.append('%s(%s)%s' % (r.choice(['max', 'count', 'sum', 'lower', 'proj.fn', 'llm']), self.col(aliases),
                                         r.choice(['', ' as f'])))
            elif k < 0.82 and depth < 2:
                out.append('(%s) as sq' % self.any_select(depth + 1))
            elif k < 0.9:
                out.append(self.const() + r.choice(['', ' as c']))
            elif k < 0.95:
                out.append('%s + 1 as e' % self.col(aliases))
            else:
                out.append('case when %s then 1 else 0 end' % self.cond(aliases, 2))
        return ', '.join(out)

    def select(self, depth=0):
        r = self.r
        frm, aliases, kinds = self.from_clause(depth)
        al = aliases if len(aliases) > 1 or r.random() < 0.5 else [None]
        s = ''
        cte = None
        if depth == 0 and r.random() < 0.2:
            # one to three CTEs; bodies may themselves need several steps (joins, models, cross-integration
            # sub-selects) so that steps emitted for an earlier CTE precede the planning of a later one
            ncte = r.choice([1, 1, 2, 2, 3])
            names = ['cte%d' % (i + 1) for i in range(ncte)]
            bodies = [self.simple_select(1) if r.random() < 0.4 else self.select(1) for _ in names]
            s = 'with ' + ', '.join('%s as (%s)' % (n_, b) for n_, b in zip(names, bodies)) + ' '
            cte = names[0]
            for n_ in names:
                if r.random() < 0.75:
                    cand = [t for t in TABLES[:4] if t in frm]
                    if cand:
                        frm = frm.replace(r.choice(cand), n_, 1)
                    elif r.random() < 0.5:
                        frm += ' join %s on %s.id = %s.id' % (n_, n_, aliases[0] if aliases[0] else n_)
        s += 'select %s%s from %s' % ('distinct ' if r.random() < 0.07 else '', self.targets(al, depth), frm)
        if r.random() < 0.55:
            s += ' where ' + self.cond(al, depth)
        if r.random() < 0.12:
            s += ' group by ' + self.col(al)
            if r.random() < 0.4:
                s += ' having count(*) > 1'
        if r.random() < 0.2:
            s += ' order by %s%s' % (self.col(al), r.choice(['', ' desc']))
        if r.random() < 0.25:
            s += ' limit %d' % r.choice([1, 10, 0])
            if r.random() < 0.3:
                s += ' offset 2'
        elif r.random() < 0.05:
            s += ' offset 2'
        if r.random() < 0.3 and any(k in ('model', 'ts') for k in kinds):
            us = []
            for _ in range(r.choice([1, 1, 2])):
                key = r.choice(['partition_size', 'partition_size', 'a', 'B'])
                if r.random() < 0.3:
                    key = '%s.%s' % (r.choice(aliases), key)
                us.append('%s=%s' % (key, r.choice(['1000', '1', "'v'"])))
            s += ' using ' + ', '.join(us)
        return s

    def focused_join(self):
        """joins of 2-3 operands in every operand order (table / model / sub-select first), ON clauses of 1-3 conjuncts
        (equality with another operand, constant on either side, IN list, IN sub-select, other comparison, unqualified
        column), optional WHERE, with and without ORDER BY / LIMIT / OFFSET (the limit push-down path of the first fetch)"""
        r = self.r
        n = r.choice([2, 2, 2, 3])
        kinds = [r.choice(['table', 'table', 'model', 'sub', 'ts']) for _ in range(n)]
        ops = []
        for i, kd in enumerate(kinds):
            a = 'j%d' % i
            if kd == 'table':
                t = r.choice(TABLES[:6])
            elif kd == 'model':
                t = r.choice(PLAIN)
            elif kd == 'ts':
                t = r.choice(TSM)
            else:
                t = '(%s)' % self.simple_select(1)
            ops.append('%s as %s' % (t, a) if (kd == 'sub' or r.random() < 0.9) else t)
        al = ['j%d' % i for i in range(n)]

        def conj(i):
            k = r.random()
            me = '%s.%s' % (al[i], r.choice(COLS + ['k']))
            if k < 0.30:
                o = '%s.%s' % (r.choice(al[:i] + al[i + 1:]), r.choice(COLS))
                return '%s = %s' % ((me, o) if r.random() < 0.5 else (o, me))
            if k < 0.55:
                c = self.const()
                return '%s = %s' % ((me, c) if r.random() < 0.6 else (c, me))
            if k < 0.65:
                return '%s in (1, 2, 3)' % me
            if k < 0.73:
                return '%s in (select id from %s)' % (me, r.choice(TABLES[:4]))
            if k < 0.85:
                return '%s %s %s' % (me, r.choice(['>', '<', '<>', '>=']), r.choice([self.const(), '%s.%s' % (r.choice(al), r.choice(COLS))]))
            if k < 0.93:
                return '%s = %s' % (me, r.choice(COLS + ['order_id']))
            return '%s between 1 and 5' % me
        s = ops[0]
        for i in range(1, n):
            s += ' %s %s' % (r.choice(['join', 'join', 'left join', 'inner join', 'right join']), ops[i])
            m = r.choice([0, 1, 1, 2, 2, 3])
            if m:
                s += ' on ' + (' %s ' % r.choice(['and', 'and', 'and', 'or'])).join(conj(r.choice([i, i, i, 0])) for _ in range(m))
        q = 'select %s from %s' % (r.choice(['*', '*', '%s.*' % al[0], '%s.x, %s.y' % (al[0], al[-1]), 'count(*)']), s)
        if r.random() < 0.5:
            q += ' where ' + ' and '.join(conj(r.randrange(n)) for _ in range(r.choice([1, 1, 2])))
        if r.random() < 0.3:
            q += ' order by %s.%s' % (r.choice(al), r.choice(COLS))
        k = r.random()
        if k < 0.45:
            q += ' limit %d' % r.choice([1, 5, 0])
            if r.random() < 0.4:
                q += ' offset 2'
        elif k < 0.55:
            q += ' offset 2'
        if r.random() < 0.25 and any(kd in ('model', 'ts') for kd in kinds):
            q += ' using %s=%s' % (r.choice(['partition_size', 'a', '%s.partition_size' % r.choice(al)]), r.choice(['10', "'v'"]))
        return q

    def multi_model_join(self):
        """a table followed by two to four models (plain, occasionally time-series), tables / sub-selects in between or after,
        and USING options per model: own / global / no partition_size, equal or different sizes, other keys, alias case varied —
        several partitions in one plan"""
        r = self.r
        ops, al, kinds = [], [], []
        n_models = r.choice([2, 2, 2, 3, 4])
        seq = ['table'] + ['model'] * n_models
        for _ in range(r.choice([0, 0, 1, 2])):
            seq.insert(r.randrange(1, len(seq) + 1), r.choice(['table', 'table', 'sub']))
        if r.random() < 0.1:
            seq[0], seq[1] = seq[1], seq[0]
        for i, kd in enumerate(seq):
            a = 'j%d' % i
            if kd == 'table':
                t = r.choice(TABLES[:5])
            elif kd == 'model':
                t = r.choice(PLAIN[:3]) if r.random() < 0.93 else r.choice(TSM)
            else:
                t = '(%s)' % self.simple_select(1)
            ops.append('%s as %s' % (t, a))
            al.append(a)
            kinds.append(kd)
        s = ops[0]
        for i in range(1, len(ops)):
            s += ' %s %s' % (r.choice(['join', 'join', 'left join', 'inner join']), ops[i])
            if r.random() < 0.4:
                s += ' on %s.%s = %s.%s' % (al[i], r.choice(COLS), r.choice(al[:i]), r.choice(COLS))
        q = 'select %s from %s' % (r.choice(['*', '*', '%s.*' % al[0], 'count(*)']), s)
        if r.random() < 0.3:
            q += ' where %s.%s = %s' % (r.choice(al), r.choice(COLS), self.const())
        if r.random() < 0.25:
            q += ' limit %d' % r.choice([1, 5])
        us = []
        models = [a for a, kd in zip(al, kinds) if kd == 'model']
        sizes = [r.choice(['10', '20']) for _ in range(2)]
        for a in models:
            k = r.random()
            if k < 0.6:
                key = '%s.partition_size' % (a if r.random() < 0.8 else a.upper())
                us.append('%s=%s' % (key if r.random() < 0.85 else key.replace('partition_size', 'Partition_Size'),
                                     r.choice(sizes + ['5', "'v'", '0'])))
            elif k < 0.7:
                us.append('%s.%s=%s' % (a, r.choice(['a', 'B']), r.choice(['1', "'v'"])))
        if r.random() < 0.25:
            us.insert(r.randrange(len(us) + 1), 'partition_size=%s' % r.choice(['10', '3']))
        if us:
            q += ' using ' + ', '.join(us)
        return q

    def multi_cte(self):
        """two or three CTEs whose bodies need one step or several (cross-integration sub-select, join of two integrations, join
        with a model, set operation), a later body may use an earlier CTE; the main select uses one or several of them, alone
        or joined with tables / a model"""
        r = self.r
        bodies = ['select * from int1.tab1', 'select id, x from int2.tab3 where x > 1',
                  'select * from int1.tab1 where x in (select id from int2.tab3)',
                  'select a.id, b.x from int1.tab1 a join int2.tab3 b on a.id = b.id',
                  'select * from int1.tab2 a join proj.m1 b',
                  'select * from int1.tab1 union select * from int2.tab4',
                  'select * from proj.m1 where x = 1']
        n = r.choice([2, 2, 3])
        names = ['cte%d' % (i + 1) for i in range(n)]
        defs = []
        for i, nm in enumerate(names):
            b = r.choice(bodies) if r.random() < 0.8 else self.simple_select(1)
            if i > 0 and r.random() < 0.25:
                b = 'select * from %s%s' % (r.choice(names[:i]), r.choice(['', ' where x = 1', ' join int2.tab4 t on t.id = %s.id' % names[0]]))
            defs.append('%s as (%s)' % (nm, b))
        used = r.sample(names, r.choice([1, 1, 2, n]))
        frm = '%s as c0' % used[0] if r.random() < 0.7 else used[0]
        a0 = 'c0' if ' as c0' in frm else used[0]
        extra = used[1:] + [r.choice(TABLES[:4] + PLAIN[:2])] * r.choice([0, 1, 1])
        for j, t in enumerate(extra):
            frm += ' join %s as c%d on c%d.id = %s.id' % (t, j + 1, j + 1, a0)
        q = 'with %s select %s from %s' % (', '.join(defs), r.choice(['*', '%s.x' % a0, 'count(*)']), frm)
        if r.random() < 0.3:
            q += ' where %s.x %s' % (a0, r.choice(['= 1', 'in (select id from int2.tab4)']))
        if r.random() < 0.2:
            q += ' limit 3'
        return q

    def statement(self):
        r = self.r
        self.n = 0
        k = r.random()
        if k < 0.03:
            return self.multi_cte()
        if k < 0.08:
            return self.multi_model_join()
        if k < 0.14:
            return self.focused_join()
        if k < 0.62:
            return self.select(0)
        if k < 0.72:
            return '%s %s %s' % (self.select(1), r.choice(['union', 'union all', 'intersect', 'except']), self.select(1))
        if k < 0.80:
            return 'insert into %s (%s)' % (r.choice(['int1.t9', 't9', 'int2.t9 (a, b)']), self.select(1)) \
                if r.random() < 0.8 else "insert into int1.t9 (a, b) values (1, 's')"
        if k < 0.86:
            t = r.choice(['int1.t9', 't9', 'proj.m1'])
            if r.random() < 0.5:
                return 'update %s set a = 1, b = %s where %s' % (t, self.const(), self.cond([None], 1))
            return 'update %s set a = df.x from (%s) as df where %s.id = df.id' % (t, self.select(1), t.split('.')[-1])
        if k < 0.93:
            return 'delete from %s where %s' % (r.choice(['int1.t9', 't9', 'int2.t9', 'files.f']), self.cond([None], 0))
        return 'create %stable %s (%s)' % (r.choice(['', 'or replace ']), r.choice(['int1.t9', 'int2.s.t9', 't9']), self.select(1)) \
            if r.random() < 0.85 else 'create table int1.t9 (a int, b text)'


# ------------------------------------------------------------------ identifier case variation

import re as _re

IDENT_CLASSES = {
    'cte': _re.compile(r'cte\d+$|c\d?$', _re.I),
    'alias': _re.compile(r'a\d+$|j\d$|b\d$|t[ab]$|s$|df$|sq$|mx$|p\d?$', _re.I),
    'integration': _re.compile(r'int\d$|proj$|files$|views$|mindsdb$', _re.I),
    'table': _re.compile(r'tab\d+$|t9$|f1$|v1$|sch$|raw$', _re.I),
    'model': _re.compile(r'm\d$|ts\d$|fn$', _re.I),
    'column': _re.compile(r'id$|[xyztg]$|order_id$', _re.I),
}
_TOK = _re.compile(r"'[^']*'|`[^`]*`|[A-Za-z_][A-Za-z_0-9]*|.", _re.S)
_KEYWORDS = {'as', 'select', 'from', 'where', 'join', 'on', 'and', 'or', 'not', 'in', 'is', 'null', 'with', 'using',
             'union', 'all', 'intersect', 'except', 'limit', 'offset', 'group', 'by', 'order', 'having', 'desc', 'left',
             'right', 'inner', 'full', 'cross', 'insert', 'into', 'update', 'set', 'delete', 'create', 'table', 'replace',
             'values', 'case', 'when', 'then', 'else', 'end', 'between', 'like', 'latest', 'distinct', 'exists', 'max',
             'min', 'count', 'sum', 'lower', 'int', 'text', 'llm', 'partition_size'}


def _spell(word, rng):
    k = rng.random()
    if k < 0.3:
        return word.upper()
    if k < 0.6:
        return word[0].upper() + word[1:].lower()
    if k < 0.8:
        return ''.join(c.upper() if i % 2 else c.lower() for i, c in enumerate(word))
    return word.lower()


def recase(sql, rng, classes, consistent=True):
    """re-spell the identifiers of the given classes in mixed case: `consistent` = one spelling per identifier
    (all occurrences alike — the same query for a case-insensitive reader), else every occurrence on its own"""
    memo = {}
    out = []
    for m in _TOK.finditer(sql):
        t = m.group(0)
        if t[0].isalpha() or t[0] == '_':
            low = t.lower()
            if low not in _KEYWORDS:
                cls = next((c for c in classes if IDENT_CLASSES[c].match(t)), None)
                if cls is not None:
                    if consistent:
                        if low not in memo:
                            memo[low] = _spell(t, rng)
                        t = memo[low]
                    else:
                        t = _spell(t, rng)
        out.append(t)
    return ''.join(out)


def probe_stream(rng, n, shapes=False):
    """(statement, catalog name); with `shapes` a quarter of the statements get a SHAPE catalog (catshape.py) — C09 only:
    other users of the stream (C18) keep the base catalogs"""
    from . import catshape
    g = Gen(rng)
    cats = probe_catalogs()
    names = sorted(cats)
    all_classes = sorted(IDENT_CLASSES)
    for _ in range(n):
        sql, cat = g.statement(), rng.choice(names)
        k = rng.random()
        if k < 0.35:
            # identifier case variation: CTE names, aliases, integration / table / model / column names
            classes = [c for c in all_classes if rng.random() < 0.5] or [rng.choice(all_classes)]
            sql = recase(sql, rng, classes, consistent=rng.random() < 0.7)
        if shapes and rng.random() < 0.25:
            # catalog SHAPES: one to three keys of model / integration records absent, None, empty or of another type
            base = cat if cat in catshape.SHAPE_BASES else rng.choice(catshape.SHAPE_BASES)
            cat = catshape.shape_name(base, catshape.random_edits(rng))
        yield sql, cat


FIXED = [
    # (sql, catalog name)
    ("select * from int1.tab1 a join proj.m1 p1 join int1.tab2 b on a.id = b.id using partition_size=1000", 'names+list'),
    ("select * from int1.tab1 a join proj.m1 p1 join proj.m2 p2 using partition_size=1000", 'names+list'),
    ("select p1.* from int1.tab1 a join proj.m1 p1 join (select * from int2.tab3) s using partition_size=10", 'names+list'),
    ("select 1", 'names+list'),
    ("select * from int1.tab1 ta join proj.ts1 tb where ta.t > latest and ta.g = 1", 'names+list'),
    ("select * from int1.tab1 ta join proj.ts2 tb where ta.t > '2020-01-01'", 'names+list'),
    ("select * from proj.m1 where x = 1", 'names+list'),
    ("select * from int1.tab1 where x in (select id from int2.tab3)", 'names+list'),
    ("with cte1 as (select * from int1.tab1) select * from cte1 join int2.tab3 b on cte1.id = b.id", 'dicts+list+ns'),
    ("select * from int1.tab1 union select * from int2.tab3", 'names+list'),
    ("insert into int1.t9 (select * from int2.tab3)", 'names+list'),
    ("create table int1.t9 (select * from int1.tab1 a join proj.m1 p1 join int1.tab2 b using partition_size=5)", 'names+list'),
    ("delete from int1.t9 where a in (select id from int2.tab3)", 'names+list'),
    ("update int1.t9 set a = df.x from (select * from int2.tab3) as df where t9.id = df.id", 'names+list'),
]


# ------------------------------------------------------------------ skeleton-first stream for the correspondence

def _join_case(rng, top=True):
    """one join-skeleton case (a SELECT whose FROM is a join handled by PlanJoinTablesQuery): returns dict(sql, cat, line) where `line` is the input of Driver/Plan.lean.
    `standalone(sql_text, cat)` plans a select on its own with the real planner and returns
    (list of abstract steps, index of the answer step) — used for the blocks of sub-selects, nested selects
    and CTE bodies, which the model takes as given."""
    r = rng
    cats = catalogs()
    catname = r.choice(sorted(cats))
    cat = cats[catname]
    has_ns = cat.get('default_namespace') == 'proj'
    n = r.choice([2, 2, 3, 3, 3, 4])
    ops = []          # dict(kind, text, alias)
    use_cte = has_ns and r.random() < 0.25
    for i in range(n):
        a = 'a%d' % i
        k = r.random()
        last = i == n - 1
        if use_cte and i == 0:
            ops.append(dict(kind='cte', text='cte1 as %s' % a, alias=a))
        elif i == 0 and r.random() < 0.22:
            # the model written first: with two operands 'model JOIN table' is swapped by the planner, with more operands it is
            # "Predictor can't be first element of join syntax"
            ops.append(dict(kind='model', text='%s as %s' % (r.choice(['proj.m1', 'proj.m2']), a), alias=a))
        elif k < 0.5 or (i == 0 and k < 0.8):
            ops.append(dict(kind='table', text='%s as %s' % (r.choice(['int1.tab1', 'int1.tab2', 'int2.tab3', 'int2.tab4']), a), alias=a))
        elif k < 0.78:
            ops.append(dict(kind='model', text='%s as %s' % (r.choice(['proj.m1', 'proj.m2']), a), alias=a))
        elif k < 0.84 and n >= 3 and not last:
            ops.append(dict(kind='ts', text='proj.ts1 as %s' % a, alias=a))
        else:
            inner = r.choice(['select * from int2.tab3', 'select id, x from int1.tab1 where x > 1',
                              'select * from int1.tab1 limit 3',
                              'select * from int1.tab1 b1 join proj.m1 b2',
                              'select * from int1.tab1 b1 join int2.tab3 b2 on b1.id = b2.id',
                              'select * from proj.m1 where x = 1'])
            aliased = r.random() < 0.9
            ops.append(dict(kind='sub', text='(%s)%s' % (inner, ' as ' + a if aliased else ''), alias=a,
                            inner=inner, aliased=aliased))
    # make sure the whole query is not shipped to one integration and the TS planner is not chosen
    ints = {o['text'][:4] for o in ops if o['kind'] == 'table'}
    if not any(o['kind'] in ('model', 'ts', 'sub', 'cte') for o in ops) and len(ints) < 2:
        ops[-1] = dict(kind='table', text='%s as a%d' % ('int2.tab3' if 'int1' in ints else 'int1.tab1', n - 1), alias='a%d' % (n - 1))
    # ON conditions (an un-aliased sub-select cannot be referenced: identifier resolution is not modelled)
    refable = [i for i in range(n) if not (ops[i]['kind'] == 'sub' and not ops[i]['aliased'])]
    dataconds = {i: [] for i in range(n)}
    join_sql = ops[0]['text']
    for i in range(1, n):
        jt = r.choice(['join', 'join', 'left join', 'inner join'])
        join_sql += ' %s %s' % (jt, ops[i]['text'])
        conds, dc, other = [], [], False
        others = [x for x in refable if x != i]
        for _ in range(r.choice([0, 1, 1, 2, 3]) if (i in refable and others) else 0):
            k = r.random()
            if k < 0.45:
                j = r.choice(others)
                l, rr = 'a%d.id' % i, 'a%d.%s' % (j, r.choice(['id', 'x']))
                conds.append('%s = %s' % ((l, rr) if r.random() < 0.5 else (rr, l)))
                dc.append(j)
            elif k < 0.70:
                # a constant restricts the joined operand (either side)
                c_ = r.choice(['1', "'s'", '2.5'])
                col = 'a%d.%s' % (i, r.choice(['x', 'k']))
                conds.append('%s = %s' % ((col, c_) if r.random() < 0.6 else (c_, col)))
            elif k < 0.78:
                # an unqualified column resolves to no table: not a data condition
                conds.append('a%d.id = %s' % (i, r.choice(['order_id', 'y'])))
            elif k < 0.86:
                conds.append('a%d.x in (1, 2)' % i)
                other = True
            else:
                j = r.choice(others)
                conds.append('a%d.y %s a%d.y' % (i, r.choice(['>', '<', '<>']), j))
                other = True
        if conds:
            join_sql += ' on ' + ' and '.join(conds)
        dataconds[i] = [] if other else dc
    # targets / where with nested selects
    pre_blocks = []     # (sql text, keep)
    if use_cte:
        pre_blocks.append(('select * from int1.tab1 where x > 0', False))
    targets = r.choice(['*', '*', 'a0.*', 'a0.x, a1.y']) if (0 in refable and 1 in refable) else '*'
    tgt_nested = r.random() < 0.15
    if tgt_nested:
        targets += ', (select max(x) from int2.tab4) as mx'
        pre_blocks.append(('select max(x) from int2.tab4', True))
    where, pre_of = [], {i: [] for i in range(n)}
    has_or = False
    table_like = [i for i in range(n) if ops[i]['kind'] in ('table', 'cte')]
    for _ in range(r.choice([0, 0, 1, 2])):
        k = r.random()
        if k < 0.5 and refable:
            where.append('a%d.x %s 1' % (r.choice(refable), r.choice(['=', '>'])))
        elif table_like:
            i = r.choice(table_like)
            sub = r.choice(['select max(y) from int2.tab4', 'select id from int1.tab2 where x = 3'])
            where.append('a%d.y %s (%s)' % (i, r.choice(['=', '>']), sub))
            pre_of[i].append(len(pre_blocks))
            pre_blocks.append((sub, True))
    where_sql = ''
    if where:
        glue = r.choice([' and ', ' and ', ' or ', ' AND ', ' OR ']) if len(where) > 1 else ' and '
        has_or = glue.strip().lower() == 'or'  # the parser lower-cases the operator; the planner tests `'or' in binary_ops`
        glue_parsed = glue
        where_sql = ' where ' + glue.join(where)
    tail = ''
    if r.random() < 0.15 and 0 in refable:
        tail += ' group by a0.x'
    if r.random() < 0.2 and 0 in refable:
        tail += ' order by a0.x'
    if r.random() < 0.25:
        tail += ' limit 5' + (' offset 1' if r.random() < 0.3 else '')
    using, ps_all, ps_of = '', False, set()
    models = [i for i in range(n) if ops[i]['kind'] in ('model', 'ts')]
    if models and r.random() < 0.6:
        us = []
        k = r.random()
        if k < 0.6:
            us.append('partition_size=%d' % r.choice([1, 100]))
            ps_all = True
        elif k < 0.85:
            # per-model sizes: one or several models, equal or different sizes (the size itself is not consulted)
            for m in r.sample(models, r.choice([1, 1, len(models)])):
                us.append('a%d.partition_size=%d' % (m, r.choice([10, 10, 20, 5])))
                ps_of.add(m)
            if r.random() < 0.2:
                us.insert(r.randrange(len(us) + 1), 'partition_size=%d' % r.choice([10, 7]))
                ps_all = True
        if r.random() < 0.4:
            us.append('a=1')
        if us:
            using = ' using ' + ', '.join(us)
    sql = ('with cte1 as (%s) ' % pre_blocks[0][0] if use_cte else '') + \
        'select %s from %s%s%s%s' % (targets, join_sql, where_sql, tail, using)
    wrap = bool(where or tail or targets != '*')
    # a query that mentions one sql integration only and no project entity is shipped whole to that
    # integration (check_single_integration) and never reaches the join planner: outside the fragment
    single = 'proj.' not in sql and not ('int1.' in sql and 'int2.' in sql)
    # CTE bodies and nested selects are `bind`s around the join node; `uses` index the environment (0 = innermost)
    m = len(pre_blocks)
    def leaf(i):
        o = ops[i]
        if o['kind'] in ('table', 'cte'):
            pre = [m - 1 - j for j in pre_of[i]] if not has_or else []
            if o['kind'] == 'cte':
                pre = [m - 1] + pre
            return '(T %d (d %s) (u %s))' % (1 if o['kind'] == 'cte' else 0, ' '.join(map(str, dataconds[i])),
                                             ' '.join(map(str, pre)))
        if o['kind'] in ('model', 'ts'):
            return '(M %d %d)' % (1 if o['kind'] == 'ts' else 0, 1 if (ps_all or i in ps_of) else 0)
        return '(S %d %s)' % (1 if o['aliased'] else 0, INNER[o['inner']])
    tree = leaf(0)
    for i in range(1, n):
        tree = '(j %s %s)' % (tree, leaf(i))
    term = '(jt %s %d (u %s))' % (tree, 1 if wrap else 0,
                                  ' '.join(str(m - 1 - j) for j, (_, keep) in enumerate(pre_blocks) if keep))
    for (t, keep) in reversed(pre_blocks):
        term = '(bind (tab 0 (u)) %s)' % term
    if single:
        term = '(whole)'        # check_single_integration: one FetchDataframeStep, nothing else is planned
    return dict(sql=sql, cat=catname, term=term, shape='%d:%s%s' % (n, ''.join(o['kind'][0] for o in ops),
                                                                   '+ps' if (ps_all or ps_of) else ''))


# sub-selects used as join operands, with their skeletons
INNER = {
    'select * from int2.tab3': '(tab 0 (u))',
    'select id, x from int1.tab1 where x > 1': '(tab 0 (u))',
    'select * from int1.tab1 limit 3': '(tab 0 (u))',
    'select * from int1.tab1 b1 join proj.m1 b2': '(jt (j (T 0 (d) (u)) (M 0 0)) 0 (u))',
    'select * from int1.tab1 b1 join int2.tab3 b2 on b1.id = b2.id': '(jt (j (T 0 (d) (u)) (T 0 (d 0) (u))) 0 (u))',
    'select * from proj.m1 where x = 1': '(pred 0 (u) 1 (u))',
}


def _sel(r, depth, has_ns):
    """a SELECT planned by plan_select (not at statement level): (sql, skeleton)"""
    k = r.random()
    if k < 0.22:
        t = r.choice(['int1.tab1', 'int1.tab2', 'int2.tab3', 'int2.tab4'])
        sql = 'select %s from %s%s%s' % (r.choice(['*', 'x', 'id, x', 'max(x)']), t,
                                        r.choice(['', ' where x > 1', " where y = 's' and x < 3"]),
                                        r.choice(['', ' limit 3', ' order by x']))
        return sql, '(tab 0 (u))'
    if k < 0.34:
        v = r.choice([0, 1, 2, 3])
        if v == 0:
            return 'select * from proj.m1 where x = 1', '(pred 0 (u) 1 (u))'
        if v == 1:
            return "select y, x from proj.m2 where x = 1 and z = 's'", '(pred 0 (u) 0 (u))'
        if v == 2:
            return 'select * from proj.m1 where 1 = 0', '(pred 1 (u) 1 (u))'
        return 'select * from proj.m1', '(fail 0)'
    if k < 0.44:
        # nested select over another integration in WHERE: planned first, replaced by Parameter(Result)
        a, b = r.choice([('int1.tab1', 'int2.tab3'), ('int2.tab4', 'int1.tab2')])
        op = r.choice(['in', '=', '>'])
        return 'select * from %s where x %s (select id from %s%s)' % (a, op, b, r.choice(['', ' where y = 1'])), \
            '(bind (tab 0 (u)) (tab 0 (u 0)))'
    if k < 0.50:
        w = r.choice([0, 1])
        return 'select %s from int1 (select 1 from raw)%s' % ('*' if not w else r.choice(['a', '*']), ' where a = 1' if w else ''), \
            '(nat %d (u))' % w
    if k < 0.55:
        return 'select proj.fn(x) from %s' % r.choice(['int1.tab1', 'int2.tab3']), '(fn (u) 1 (u))'
    if k < 0.70 and depth < 2:
        sql, t = _sel(r, depth + 1, has_ns)
        while t.startswith('(un '):      # FROM (a UNION b) is 'Unsupported from_table'; not generated
            sql, t = _sel(r, depth + 1, has_ns)
        w = r.choice([0, 1, 1])
        outer = {0: 'select * from (%s)%s', 1: r.choice(['select x from (%s)%s', 'select * from (%s)%s where x = 1',
                                                         'select * from (%s)%s limit 2'])}[w]
        return outer % (sql, r.choice([' as s', ''])), '(fs %s %d)' % (t, w)
    if k < 0.82:
        # time-series join
        grouped = r.random() < 0.5
        model = 'proj.ts1' if grouped else 'proj.ts2'
        tf, two = r.choice([('', 0), (' where ta.t > latest', 0), (" where ta.t > '2020-01-01'", 1),
                            (" where ta.t between '2020-01-01' and '2020-02-01'", 1), (" where ta.t = '2020-01-01'", 0),
                            (" where ta.t >= '2020-01-01' and ta.g = 1" if grouped else " where ta.t >= '2020-01-01'", 1)])
        lim = r.choice([0, 0, 1])
        star = r.choice([1, 1, 0])
        left = r.random() < 0.25
        frm = ('%s tb join int1.tab1 ta' % model) if left else ('int1.tab1 ta join %s tb' % model)
        sql = 'select %s from %s%s%s' % ('*' if star else 'tb.y, ta.x', frm, tf, ' limit 7' if lim else '')
        return sql, '(ts %d %d 0 %d %d (u))' % (1 if grouped else 0, two, lim, star)
    if k < 0.90 and depth < 2:
        l, lt = _sel(r, depth + 1, has_ns)
        rr, rt = _sel(r, depth + 1, has_ns)
        while rt.startswith('(un '):     # set operations associate to the left: keep the right operand simple
            rr, rt = _sel(r, depth + 1, has_ns)
        if ' limit' in l or ' order by' in l:
            l, lt = 'select * from int1.tab1', '(tab 0 (u))'
        return '%s %s %s' % (l, r.choice(['union', 'union all', 'intersect', 'except']), rr), '(un %s %s)' % (lt, rt)
    c = _join_case(r, top=False)
    while not isinstance(c, dict) or c['sql'].startswith('with '):
        c = _join_case(r, top=False)
    return c['sql'], c['term']


CORR_RECASE = ['cte', 'alias', 'integration', 'table', 'model', 'column']


def corr_case(rng, standalone=None):
    """one correspondence case: dict(sql, cat, line, shape); `line` is the input of Driver/Plan.lean.
    In a third of the cases the identifiers are re-spelled in mixed case, every identifier consistently: the
    expected skeleton is the same (names are matched case-insensitively or, for CTE names, as written)"""
    c = _corr_case(rng)
    if isinstance(c, dict) and rng.random() < 0.35:
        classes = [k for k in CORR_RECASE if rng.random() < 0.6] or [rng.choice(CORR_RECASE)]
        c['sql'] = recase(c['sql'], rng, classes, consistent=True)
        c['shape'] = c['shape'] + ':recased'
    return c


def _corr_case(rng, standalone=None):
    """one correspondence case: dict(sql, cat, line, shape); `line` is the input of Driver/Plan.lean"""
    r = rng
    k = r.random()
    if k < 0.5:
        c = _join_case(r)
        if not isinstance(c, dict):
            return c
        c['line'] = '0 (sel %s)' % c.pop('term')
        return c
    cats = catalogs()
    catname = r.choice(sorted(cats))
    has_ns = cats[catname].get('default_namespace') == 'proj'
    kind = r.choice(['sel', 'sel', 'sel', 'ins', 'cta', 'upd', 'del', 'misc', 'api', 'data'])
    if kind == 'api':
        # int1 is an API integration: plan_api_db_select (fetch with targets/where/order/limit, then plan_sub_select on what
        # is left); nested selects are always planned (force=True)
        t = r.choice(['int1.tab1', 'int1.tab2'])
        v = r.choice([0, 1, 2, 3, 4])
        if v == 0:
            sql, term = 'select * from %s%s%s' % (t, r.choice(['', ' where x = 1']), r.choice(['', ' limit 2'])), '(api (u) 0 (u))'
        elif v == 1:
            sql, term = 'select %s from %s where x > 1' % (r.choice(['x', 'id, x', 'max(x)']), t), '(api (u) 1 (u))'
        elif v == 2:
            sql, term = 'select * from %s %s' % (t, r.choice(['order by x', 'group by x', 'where x = 1 order by x limit 3'])), '(api (u) 1 (u))'
        elif v == 3:
            sql = 'select * from %s where x in (select id from %s)' % (t, r.choice(['int1.tab2', 'int2.tab3']))
            term = '(bind %s (api (u 0) 0 (u)))' % ('(api (u) 1 (u))' if 'int1.tab2)' in sql else '(tab 0 (u))')
        else:
            sql = 'select x, (select max(id) from int2.tab3) as m from %s' % t
            term = '(bind (tab 0 (u)) (api (u 0) 1 (u 0)))'
        return dict(sql=sql, cat='api', line='0 (sel %s)' % term, shape='api')
    if kind == 'data':
        # FROM <injected Data>: DataStep, then plan_sub_select(add_absent_cols=True)
        v = r.choice([0, 1, 2])
        sql, w = [('select * from injected', 0), ('select * from injected where x = 1', 1), ('select x from injected limit 2', 1)][v]
        return dict(sql=sql, cat=catname, line='0 (sel (dat %d (u)))' % w, shape='data', inject_data=True)
    if kind == 'misc':
        sql, line = r.choice([("insert into int1.t9 (a, b) values (1, 's')", '(insv)'),
                              ('create table int1.t9 (a int, b text)', '(ct 1)'),
                              ("update int1.t9 set a = 1 where b = 's'", '(upd0)')])
        return dict(sql=sql, cat=catname, line='0 ' + line, shape='misc')
    if kind == 'del':
        a, b = r.choice([('int1.t9', 'int2.tab3'), ('int2.t9', 'int1.tab2')])
        v = r.choice([0, 1, 2])
        if v == 0:
            return dict(sql='delete from %s where a = 1' % a, cat=catname, line='0 (del (dml 4 (u)))', shape='del')
        if v == 1:
            return dict(sql='delete from %s where a in (select id from %s)' % (a, b), cat=catname,
                        line='0 (del (bind (tab 0 (u)) (dml 4 (u 0))))', shape='del')
        return dict(sql='delete from %s where a in (select id from %s) and b > (select max(x) from %s)' % (a, b, b),
                    cat=catname, line='0 (del (bind (tab 0 (u)) (bind (tab 0 (u)) (dml 4 (u 1 0)))))', shape='del')
    sql, term = _sel(r, 0, has_ns)
    while kind == 'upd' and term.startswith('(un '):     # UPDATE … FROM (a UNION b) is not in the grammar
        sql, term = _sel(r, 0, has_ns)
    if kind == 'sel':
        # at statement level a query over one sql integration and no project entity is shipped whole
        if 'proj.' not in sql and 'int1 (' not in sql and not ('int1.' in sql and 'int2.' in sql):
            term = '(whole)'
        return dict(sql=sql, cat=catname, line='0 (sel %s)' % term, shape='sel/' + term.split(' ')[0].strip('()'))
    if kind == 'ins':
        return dict(sql='insert into int1.t9 (%s)' % sql, cat=catname, line='0 (ins %s)' % term, shape='ins')
    if kind == 'cta':
        return dict(sql='create %stable int1.t9 (%s)' % (r.choice(['', 'or replace ']), sql), cat=catname,
                    line='0 (cta %s)' % term, shape='cta')
    return dict(sql='update int1.t9 set a = df.x from (%s) as df where t9.id = df.id' % sql, cat=catname,
                line='0 (upd %s)' % term, shape='upd')


# ------------------------------------------------------------------ CTE dictionary (plan_cte / get_integration_select_step)

CTE_WORDS = ['recent', 'ab', 'c1', 'totals', 'tab1', 'x9']


def cte_case(rng):
    """definitions (1..3 CTE names in arbitrary case, possibly the same word twice in different spellings) and a
    bare table name that is one of them as written, one of them in another spelling, or unrelated"""
    n = rng.choice([1, 2, 2, 3])
    defs = [_spell(rng.choice(CTE_WORDS), rng) for _ in range(n)]
    k = rng.random()
    if k < 0.45:
        ref = rng.choice(defs)
    elif k < 0.85:
        ref = _spell(rng.choice(defs), rng)
    else:
        ref = _spell(rng.choice(CTE_WORDS), rng)
    bodies = ['select * from %s' % rng.choice(['int1.tab1', 'int2.tab3', 'int1.tab2']) for _ in defs]
    sql = 'with ' + ', '.join('%s as (%s)' % (d, b) for d, b in zip(defs, bodies)) + \
        ' select * from %s join int2.tab4 b on b.id = %s.id' % (ref, ref)
    return dict(defs=defs, ref=ref, sql=sql, cat='dicts+list+ns', line='(defs %s) %s' % (' '.join(defs), ref))


# ------------------------------------------------------------------ per-model USING partition sizes (Model/PlanSizes.lean)

def sizes_case(rng):
    """one case of the stream `partition_sizes`: a join of a table with two to four plain models, tables / sub-selects in between
    or after, and USING options that give every model its own size, a global size, or none; returns dict(sql, cat, lines,
    shape) — `lines` = the `sz` inputs of Driver/Plan.lean for the policies joinOpen (the code as it is) and splitStale"""
    r = rng
    catname = r.choice(['names+list', 'dicts+list+ns', 'names+legacy', 'names+legacy-dotted', 'names-with-proj'])
    seq = ['table'] + ['model'] * r.choice([2, 2, 2, 3, 4])
    for _ in range(r.choice([0, 0, 1, 1, 2])):
        seq.insert(r.randrange(2, len(seq) + 1), r.choice(['table', 'table', 'sub']))
    n = len(seq)
    ops, leaves = [], []
    for i, kd in enumerate(seq):
        a = 'a%d' % i
        if kd == 'table':
            ops.append('%s as %s' % (r.choice(['int1.tab1', 'int1.tab2', 'int2.tab3', 'int2.tab4']), a))
        elif kd == 'model':
            ops.append('%s as %s' % (r.choice(['proj.m1', 'proj.m2']), a))
        else:
            ops.append('(select * from int2.tab3) as %s' % a)
    models = [i for i, kd in enumerate(seq) if kd == 'model']
    # USING: the dict is read in text order; a later key overrides an earlier one for the same model
    pool = r.choice([[10, 20], [10, 20, 30], [10, 10], [5]])
    entries = []       # (model index or None for the global key, size)
    mode = r.random()
    for m in models:
        if mode < 0.55 or r.random() < 0.6:
            entries.append((m, r.choice(pool)))
    if r.random() < 0.25:
        entries.insert(r.randrange(len(entries) + 1), (None, r.choice([7, 10])))
    if not entries:
        entries.append((models[-1], 20))
    eff = {}
    for m, sz in entries:
        for t in (models if m is None else [m]):
            eff[t] = sz
    us = []
    for m, sz in entries:
        if m is None:
            us.append('partition_size=%d' % sz)
        else:
            al = 'a%d' % m
            us.append('%s.%s=%d' % (al.upper() if r.random() < 0.15 else al, 'partition_size' if r.random() < 0.9 else 'PARTITION_SIZE', sz))
    if r.random() < 0.3:
        us.insert(r.randrange(len(us) + 1), '%sa=1' % r.choice(['', 'a%d.' % r.choice(models)]))
    tail = r.choice(['', '', ' limit 5', ' where a0.x = 1', ' order by a0.x'])
    targets = r.choice(['*', '*', 'a0.*'])
    sql = 'select %s from %s%s using %s' % (targets, ' join '.join(ops), tail, ', '.join(us))
    for i, kd in enumerate(seq):
        if kd == 'table':
            leaves.append('(T 0 (d) (u))')
        elif kd == 'model':
            leaves.append('(M 0 %d)' % (1 if i in eff else 0))
        else:
            leaves.append('(S 1 (tab 0 (u)))')
    tree = leaves[0]
    for i in range(1, n):
        tree = '(j %s %s)' % (tree, leaves[i])
    wrap = 1 if (tail or targets != '*') else 0
    sizes = ' '.join(str(eff.get(i, 0)) for i in range(n))
    body = '(sizes %s) (jt %s %d (u))' % (sizes, tree, wrap)
    distinct = len({eff[m] for m in models if m in eff})
    return dict(sql=sql, cat=catname, lines=['sz j ' + body, 'sz s ' + body],
                shape='%s/%d-sizes' % (''.join(k[0] for k in seq), distinct))


# ------------------------------------------------------------------ sequences on one planner object

def sequence_stream(rng, pool, n):
    """sequences of two or three statements for ONE QueryPlanner object: the same statement twice, two unrelated statements,
    and a second statement of another kind that embeds a sub-query TEXT of the first (what a per-text cache would hit);
    `pool` = (sql, catalog name) pairs of the probe stream; yields (list of sql, catalog name)"""
    from . import planwalk
    wrappers = ['select * from int2.tab4 where id in (%s)', 'delete from int1.t9 where a in (%s)',
                'select * from int1.tab2 where x = (%s) and y in (%s)', 'insert into int1.t9 (select * from int2.tab3 where id in (%s))',
                'select * from int1.tab1 a join proj.m1 b where a.x in (%s)']
    pool = [p for p in pool if '|' not in p[1] and not p[1].startswith('#')]
    withs = [p for p in pool if p[0][:5].lower() == 'with ']
    for _ in range(n):
        sql, cat = rng.choice(pool)
        k = rng.random()
        if k < 0.2 and withs:
            # names bound by the first statement (CTEs) used as table names by the second: the main select without its WITH
            sql, cat = rng.choice(withs)
            try:
                q = planwalk.parse(sql)
                q.cte = None
                yield [sql, q.to_string()], cat
            except Exception:
                yield [sql, sql], cat
        elif k < 0.3:
            yield [sql, sql], cat
        elif k < 0.45:
            yield [sql, rng.choice(pool)[0]] + ([sql] if rng.random() < 0.3 else []), cat
        else:
            subs = planwalk.nested_selects(sql)
            if not subs:
                sub = rng.choice(['select id from int2.tab3', 'select max(x) from int2.tab4', 'select id from int1.tab2 where x = 3'])
                sql = rng.choice(wrappers[:2]) .replace('%s', sub)
                subs = [sub]
            sub = rng.choice(subs)
            w = rng.choice(wrappers)
            yield [sql, w.replace('%s', sub)], cat
