"""C09 harness: run the real planner, abstract its plan to (kind, step_num, referenced results, sub-steps)
by walking EVERY attribute of every step (embedded ASTs, dicts, lists, sub-steps), and check the C09
invariant directly on the real objects."""
import copy, re, traceback
from . import common  # noqa: puts the repo on sys.path

KIND_MODEL = {'FetchDataframeStep': 'f', 'SubSelectStep': 'ss', 'JoinStep': 'j', 'ApplyPredictorStep': 'a',
              'MapReduceStep': 'mr', 'QueryStep': 'q'}
OTHER = ['ApplyPredictorRowStep', 'ApplyTimeseriesPredictorStep', 'CreateTableStep', 'DataStep', 'DeleteStep',
         'FilterStep', 'GetPredictorColumns', 'GetTableColumns', 'GroupByStep', 'InsertToTable', 'LimitOffsetStep',
         'MultipleSteps', 'OrderByStep', 'ProjectStep', 'SaveToTable', 'UnionStep', 'UpdateToTable', 'PlanStep']


def kind_of(step):
    n = type(step).__name__
    if n in KIND_MODEL:
        return KIND_MODEL[n]
    return 'o%d' % (OTHER.index(n) if n in OTHER else 99)


def num_of(v):
    """step_num -> canonical: 't<n>' | 's<p>_<i>' | 'none' | 'bad:<repr>'"""
    if v is None:
        return 'none'
    if isinstance(v, int) and not isinstance(v, bool):
        return 't%d' % v if v >= 0 else 'bad:%r' % (v,)
    if isinstance(v, str):
        m = re.fullmatch(r'(\d+)_(\d+)', v)
        if m:
            return 's%d_%d' % (int(m.group(1)), int(m.group(2)))
    return 'bad:%r' % (v,)


def collect_refs(obj, out, seen):
    """every Result (and every PlanStep object used as a value) reachable from obj"""
    from mindsdb_sql.planner.step_result import Result
    from mindsdb_sql.planner.steps import PlanStep
    if obj is None or isinstance(obj, (str, int, float, bool, bytes)):
        return
    if id(obj) in seen:
        return
    seen.add(id(obj))
    if isinstance(obj, Result):
        out.append(('result', obj.step_num, None))
        return
    if isinstance(obj, PlanStep):
        out.append(('step', obj.step_num, obj))
        return
    if isinstance(obj, dict):
        for k, v in obj.items():
            collect_refs(k, out, seen)
            collect_refs(v, out, seen)
        return
    if isinstance(obj, (list, tuple, set, frozenset)):
        for v in obj:
            collect_refs(v, out, seen)
        return
    d = getattr(obj, '__dict__', None)
    if isinstance(d, dict):
        for v in d.values():
            collect_refs(v, out, seen)
    for s in getattr(type(obj), '__slots__', ()) or ():
        if hasattr(obj, s):
            collect_refs(getattr(obj, s), out, seen)


CONTAINER_ATTR = {'MapReduceStep': 'step', 'MultipleSteps': 'steps'}


def own_refs(step):
    """references made by the step's own attributes (not by its sub-steps)"""
    out, seen = [], set()
    skip = {'step_num', 'result_data'}
    ca = CONTAINER_ATTR.get(type(step).__name__)
    for k, v in vars(step).items():
        if k in skip or k == ca:
            continue
        collect_refs(v, out, seen)
    return out


def flat_subs(step):
    """sub-steps of a container, flattened in order (containers inside containers included)"""
    from mindsdb_sql.planner.steps import PlanStep
    ca = CONTAINER_ATTR.get(type(step).__name__)
    if ca is None:
        return []
    v = getattr(step, ca, None)
    items = list(v) if isinstance(v, (list, tuple)) else ([v] if v is not None else [])
    out = []
    for s in items:
        if isinstance(s, PlanStep):
            out.append(s)
            out.extend(flat_subs(s))
        else:
            out.append(s)
    return out


def abstract_step(step):
    refs = sorted({num_of(n) for (_, n, _) in own_refs(step)})
    subs = []
    for s in flat_subs(step):
        if hasattr(s, 'step_num'):
            subs.append(dict(kind=kind_of(s), num=num_of(s.step_num),
                             refs=sorted({num_of(n) for (_, n, _) in own_refs(s)})))
        else:
            subs.append(dict(kind='o98', num='bad:%s' % type(s).__name__, refs=[]))
    return dict(kind=kind_of(step), num=num_of(step.step_num), refs=refs, subs=subs, cls=type(step).__name__)


def abstract_plan(steps):
    return [abstract_step(s) for s in steps]


def canon(asteps, answer):
    """the canonical line that Driver/Plan.lean prints (refs sorted on both sides)"""
    def st(s):
        return '%s:%s:%s:%s' % (s['kind'], s['num'], ','.join(s['refs']),
                                '|'.join('%s:%s:%s' % (u['kind'], u['num'], ','.join(u['refs'])) for u in s['subs']))
    return 'ok %s %s' % (answer, ';'.join(st(s) for s in asteps))


def canon_model_line(line):
    """sort the reference lists of a driver output line"""
    if not line.startswith('ok '):
        return line
    _, ans, rest = line.split(' ', 2) if line.count(' ') >= 2 else (line.split(' ') + [''])[:3]
    steps = []
    for s in rest.split(';') if rest else []:
        k, n, r, u = s.split(':', 3)
        subs = []
        for x in u.split('|') if u else []:
            k2, n2, r2 = x.split(':', 2)
            subs.append('%s:%s:%s' % (k2, n2, ','.join(sorted(set(r2.split(',')))) if r2 else ''))
        steps.append('%s:%s:%s:%s' % (k, n, ','.join(sorted(set(r.split(',')))) if r else '', '|'.join(subs)))
    return 'ok %s %s' % (ans, ';'.join(steps))


def top_index(n):
    return int(n[1:]) if re.fullmatch(r't\d+', n or '') else None


def inv_violations(steps, answer, query_kind):
    """C09's invariant on the real plan objects; returns a list of (code, text)"""
    from mindsdb_sql.planner.steps import PlanStep
    v = []
    for i, s in enumerate(steps):
        if not isinstance(s, PlanStep):
            v.append(('not-a-step', 'plan.steps[%d] is %s' % (i, type(s).__name__)))
            continue
        a = abstract_step(s)
        if a['num'] != 't%d' % i:
            v.append(('numbering', 'plan.steps[%d] (%s) has step_num %r' % (i, a['cls'], s.step_num)))
        for (how, n, obj) in own_refs(s):
            k = top_index(num_of(n))
            if k is None or k >= i:
                # a sub-result 'p_j' lives inside container p: nothing of that name is computed at plan level
                foreign = re.fullmatch(r's\d+_\d+', num_of(n)) is not None
                v.append(('forward-ref', 'step %d (%s) references result %r%s' % (
                    i, a['cls'], n, ' — a sub-result of another container, not a step of the plan' if foreign else ''),
                    'top-foreign-sub' if foreign else 'top'))
            elif how == 'step' and steps[k] is not obj:
                v.append(('foreign-step', 'step %d (%s) holds a step object numbered %r that is not plan.steps[%d]'
                          % (i, a['cls'], n, k)))
        for j, u in enumerate(flat_subs(s)):
            if not isinstance(u, PlanStep):
                v.append(('not-a-step', 'sub-step %d of step %d is %s' % (j, i, type(u).__name__)))
                continue
            un = num_of(u.step_num)
            if un not in ('none', 's%d_%d' % (i, j)):
                v.append(('sub-numbering', 'sub-step %d of step %d (%s) has step_num %r' % (j, i, type(u).__name__, u.step_num)))
            for (how, n, obj) in own_refs(u):
                c = num_of(n)
                k = top_index(c)
                m = re.fullmatch(r's(\d+)_(\d+)', c)
                ok = (k is not None and k < i) or (m is not None and int(m.group(1)) == i and int(m.group(2)) < j)
                if not ok:
                    part = (a['cls'] == 'MapReduceStep' and isinstance(u.step_num, str) and k is not None and k > i)
                    foreign = m is not None and int(m.group(1)) != i
                    v.append(('forward-ref', 'sub-step %d of step %d (%s in %s) references result %r%s'
                              % (j, i, type(u).__name__, a['cls'], n,
                                 ' — a sub-result of another container' if foreign else ''),
                              'partition-sub' if part else ('sub-foreign-sub' if foreign else 'sub')))
    if not steps:
        v.append(('empty', 'planning returned an empty plan'))
        return v
    last = steps[-1]
    if query_kind in ('Select', 'Union', 'Except', 'Intersect'):
        if answer is not None and answer is not last:
            v.append(('answer-not-last', 'the step returned as the answer (step_num %r, %s) is not the last step (%d steps)'
                      % (getattr(answer, 'step_num', None), type(answer).__name__, len(steps)),
                      'partition-answer' if is_partition(answer) else 'other'))
    else:
        want = {'Insert': ('InsertToTable',), 'Update': ('UpdateToTable',), 'Delete': ('DeleteStep',),
                'CreateTable': ('SaveToTable', 'CreateTableStep')}.get(query_kind)
        if want and type(last).__name__ not in want:
            v.append(('answer-not-last', 'last step of a %s plan is %s' % (query_kind, type(last).__name__)))
        if answer is not None and hasattr(last, 'dataframe') and last.dataframe is not answer:
            v.append(('answer-not-last', '%s consumes %r, the planned select returned step %r'
                      % (type(last).__name__, getattr(last.dataframe, 'step_num', last.dataframe),
                         getattr(answer, 'step_num', None)), 'other'))
    return v


def site_of(e):
    tb = traceback.extract_tb(e.__traceback__)
    frs = [f for f in tb if '/mindsdb_sql/' in f.filename]
    fr = frs[-1] if frs else tb[-1]
    return dict(exc=type(e).__name__, file=fr.filename.split('/')[-1], func=fr.name)


def norm_msg(m):
    m = re.sub(r't_\d+', 't_N', str(m))
    m = re.sub(r'0x[0-9a-f]+', '0xN', m)
    return re.sub(r'\d+', 'N', m)[:120]


def run_planner(query, catalog):
    """plan `query` (an AST) with the real planner; returns dict(kind='plan', steps, answer, planner) or
    dict(kind='user-error', exc) or dict(kind='internal-error', site, msg)"""
    from mindsdb_sql.planner import query_planner as qp
    from mindsdb_sql.exceptions import PlanningException
    cat = copy.deepcopy(catalog)
    rec = dict(depth=0, answer=None)
    try:
        planner = qp.QueryPlanner(query, **cat)
        orig = planner.plan_select

        def plan_select(q, integration=None):
            rec['depth'] += 1
            try:
                r = orig(q, integration=integration)
            finally:
                rec['depth'] -= 1
            if rec['depth'] == 0:
                rec['answer'] = r
            return r
        planner.plan_select = plan_select
        orig_csi = planner.check_single_integration

        def check_single_integration(q):
            r = orig_csi(q)
            if r is not None and rec['depth'] == 0:
                rec['answer'] = r
            return r
        planner.check_single_integration = check_single_integration
        plan = planner.from_query()
        return dict(kind='plan', steps=list(plan.steps), answer=rec['answer'], planner=planner)
    except (PlanningException, NotImplementedError) as e:
        return dict(kind='user-error', exc=type(e).__name__, msg=str(e)[:200])
    except RecursionError as e:
        return dict(kind='internal-error', site=dict(exc='RecursionError', file='', func=''), msg='recursion')
    except Exception as e:
        return dict(kind='internal-error', site=site_of(e), msg=str(e)[:300])


def parse(sql):
    from mindsdb_sql import parse_sql
    return parse_sql(sql, dialect='mindsdb')


def probe_sequence(sqls, catalog):
    """ONE QueryPlanner object plans the statements one after the other (`planner.from_query(q)`, as prepared-statement style
    re-planning does); every plan of the sequence must satisfy C09 on its own — nothing of an earlier plan (results, caches)
    may be referenced.  Returns (list of outcome kinds, failure-or-None)"""
    from mindsdb_sql.planner import query_planner as qp
    from mindsdb_sql.exceptions import PlanningException
    try:
        qs = [parse(s) for s in sqls]
    except Exception as e:
        return ['parse-fail'], None
    try:
        planner = qp.QueryPlanner(qs[0], **copy.deepcopy(catalog))
    except Exception as e:
        return ['constructor-' + type(e).__name__], None      # catalog errors are the business of `probe`
    kinds = []
    for n, q in enumerate(qs):
        try:
            plan = planner.from_query(q)
            steps = list(plan.steps)
        except (PlanningException, NotImplementedError) as e:
            kinds.append('user-error')
            continue
        except RecursionError:
            kinds.append('internal-error')
            continue
        except Exception as e:
            st = site_of(e)
            kinds.append('internal-error')
            if n == 0:
                continue          # reported by `probe` on the single statement
            # only a defect of the SEQUENCE if the statement plans on a fresh planner
            _, single = probe(sqls[n], catalog)
            if single is None:
                cls = 'sequence/internal/%s/%s/%s/%s' % (st['exc'], st['file'], st['func'], norm_msg(str(e)))
                return kinds, dict(desc='statement %d of a reused planner raised %s (%s) in %s:%s; on a fresh planner it plans'
                                        % (n, st['exc'], str(e)[:80], st['file'], st['func']), sql=sqls[n], sqls=list(sqls),
                                   code='sequence-internal', site=st, msg=str(e)[:300], **{'class': cls})
            continue
        kinds.append('plan')
        v = inv_violations(steps, None, type(q).__name__)
        if v and n > 0:
            v = [(x + ('',))[:3] for x in v]
            details = sorted({'%s:%s' % (c, d) for c, _, d in v})
            return kinds, dict(desc='statement %d of a reused planner: plan violates the invariant: %s' % (
                                   n, '; '.join(t for _, t, _ in v[:3])), sql=sqls[n], sqls=list(sqls), code='sequence-inv',
                               details=details, violations=[t for _, t, _ in v][:6],
                               plan=canon(abstract_plan(steps), 'none'), **{'class': 'sequence-inv/' + '+'.join(details)})
    return kinds, None


def nested_selects(sql):
    """texts of the SELECTs nested inside a statement (sub-queries of WHERE / targets / FROM)"""
    from mindsdb_sql.parser.ast import Select
    try:
        q = parse(sql)
    except Exception:
        return []
    out = []
    for node in ast_nodes(q):
        if isinstance(node, Select) and node is not q:
            try:
                node2 = copy.deepcopy(node)
                node2.parentheses = False
                node2.alias = None
                out.append(node2.to_string())
            except Exception:
                pass
    return out


def probe(sql, catalog):
    """impl-level oracle of C09 on one (query text, catalog); returns (outcome, failure-or-None)"""
    try:
        q = parse(sql)
    except Exception as e:
        return dict(kind='parse-fail', msg=str(e)[:100]), None
    qk = type(q).__name__
    r = run_planner(q, catalog)
    if r['kind'] == 'internal-error':
        s = r['site']
        cls = 'internal/%s/%s/%s/%s' % (s['exc'], s['file'], s['func'], norm_msg(r['msg']))
        return r, dict(desc='planning raised %s (%s) in %s:%s' % (s['exc'], r['msg'][:80], s['file'], s['func']),
                       sql=sql, catalog=catalog, code='internal', site=s, msg=r['msg'], **{'class': cls})
    if r['kind'] == 'plan':
        v = inv_violations(r['steps'], r['answer'], qk)
        if v:
            v = [(x + ('',))[:3] for x in v]
            codes = sorted({c for c, _, _ in v})
            details = sorted({'%s:%s' % (c, d) for c, _, d in v})
            a = abstract_plan(r['steps'])
            return r, dict(desc='plan violates the invariant: ' + '; '.join(t for _, t, _ in v[:3]), sql=sql,
                           catalog=catalog, code='inv', codes=codes, details=details,
                           violations=[t for _, t, _ in v][:6],
                           plan=canon(a, num_of(getattr(r['answer'], 'step_num', None))),
                           **{'class': 'inv/' + '+'.join(details)})
    return r, None


def is_partition(step):
    """a MapReduceStep built by PlanJoinTablesQuery.add_plan_step (sub-steps numbered 'p_i')"""
    subs = getattr(step, 'step', None)
    return (type(step).__name__ == 'MapReduceStep' and isinstance(subs, list) and len(subs) > 0
            and all(isinstance(getattr(u, 'step_num', None), str) for u in subs))


def ast_nodes(obj, seen=None):
    """every ASTNode reachable from obj through attributes, lists, tuples and dicts"""
    from mindsdb_sql.parser.ast.base import ASTNode
    seen = set() if seen is None else seen
    if obj is None or isinstance(obj, (str, int, float, bool)) or id(obj) in seen:
        return
    seen.add(id(obj))
    if isinstance(obj, ASTNode):
        yield obj
        for v in vars(obj).values():
            yield from ast_nodes(v, seen)
    elif isinstance(obj, dict):
        for v in obj.values():
            yield from ast_nodes(v, seen)
    elif isinstance(obj, (list, tuple)):
        for v in obj:
            yield from ast_nodes(v, seen)


def fallthrough_shape(sql, catalog):
    """class predicate of KF-C09-1 computed from the query alone (mirrors Lean's `noFallThrough`): some
    SELECT has `partition_size` among its USING keys and its FROM is a join in which a model operand is
    followed by an operand that is not a model"""
    from mindsdb_sql.parser.ast import Select, Join, Identifier
    from mindsdb_sql.planner import query_planner as qp
    try:
        q = parse(sql)
        planner = qp.QueryPlanner(q, **copy.deepcopy(catalog))
    except Exception:
        return False

    def leaves(n):
        if isinstance(n, Join):
            return leaves(n.left) + leaves(n.right)
        return [n]
    for node in ast_nodes(q):
        if not isinstance(node, Select) or not isinstance(node.from_table, Join) or not isinstance(node.using, dict):
            continue
        if not any(str(k).lower().split('.')[-1] == 'partition_size' for k in node.using):
            continue
        seen_model = False
        for lf in leaves(node.from_table):
            is_model = False
            if isinstance(lf, Identifier):
                try:
                    is_model = planner.get_predictor(lf) is not None
                except Exception:
                    is_model = False
            if is_model:
                seen_model = True
            elif seen_model:
                return True
    return False
