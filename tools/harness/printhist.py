"""History-aware observations of the printers (C01, round 5).  (untrusted: search / classification only)

The round-trip oracle `rt.oracle` looks at ONE statement.  A printer that consults process state — a module-level table of
remembered decisions keyed by a non-injective normal form of a name (upper / lower / casefold / NFKC / stripped / joined
path / value equality 1 == 1.0 == True), a per-class attribute, an object identity — prints a statement differently
depending on what the process printed before.  What is observed here, for every statement of a family of *confusable
groups* (members = distinct trees that some plausible key function identifies):

  * the statement is printed in fresh interpreters that run the whole family in OPPOSITE orders (every ordered pair of
    statements occurs in both orders, each member is once "first of its group in a fresh state" and once "after its
    confusables") and in the check's own process (after the ~60 000 statements of the other streams);
  * the three printed texts must be identical and the round-trip verdicts must be identical (`ok` everywhere);
  * trees kept alive while their confusables are printed must print the same text again afterwards.

A deviation is minimised to (history, statement) by re-running candidate histories in fresh interpreters; the replay holds
both and re-runs them.  Atoms (Identifier / Constant / Variable / Parameter built directly) are printed in the same runs and
compared with `Driver/PrintHist.lean` (= `(atomPrinter reserved).texts history`, the model's claim that a run prints
`history.map atomPrint`).
"""
import json, os, re, subprocess, sys, unicodedata
from . import common, rt

ROOT = common.ROOT
PLAIN = re.compile(r'[a-zA-Z_][a-zA-Z_0-9]*')
ASCII_WORD = re.compile(r'[A-Za-z0-9_]+')


# ------------------------------------------------------------------------------------------ key functions
def _fold_accents(s):
    return ''.join(c for c in unicodedata.normalize('NFKD', s) if not unicodedata.combining(c))


KEYFUNS = [
    ('upper', str.upper), ('lower', str.lower), ('casefold', str.casefold), ('title', str.title),
    ('nfkc', lambda s: unicodedata.normalize('NFKC', s)), ('nfkc-casefold', lambda s: unicodedata.normalize('NFKC', s).casefold()),
    ('accent-fold', _fold_accents), ('ascii-ignore', lambda s: s.encode('ascii', 'ignore').decode()),
    ('strip', str.strip), ('collapse-blanks', lambda s: ' '.join(s.split())), ('strip-bq', lambda s: s.strip('`')),
    ('word-chars', lambda s: re.sub(r'\W', '', s)), ('prefix-16', lambda s: s[:16]),
]
NOTABLE = 'ßﬁﬂﬀıſKÅａＡªº²éÉüİǰŉµ'      # Kelvin sign, Angstrom sign, full-width letters, ordinal indicators, ...
_SPECIALS = {}


def specials(name, K):
    """code points whose image under K is a different, purely ASCII word"""
    if name not in _SPECIALS:
        out = []
        for cp in list(range(0x80, 0x3000)) + list(range(0xFB00, 0xFB07)) + list(range(0xFF10, 0xFF5B)) + list(range(0x1D400, 0x1D7FF, 7)):
            c = chr(cp)
            try:
                img = K(c)
            except Exception:
                continue
            if img != c and img and ASCII_WORD.fullmatch(img):
                out.append(c)
        _SPECIALS[name] = out
    return _SPECIALS[name]


def ident_groups(rng, n_per_key):
    """[(name, [member parts ...])]: identifier parts identified by a key function, different as strings"""
    groups, seen = [], set()
    frames = [('', ''), ('stra', 'e'), ('x', ''), ('', '1'), ('a_', '_b'), ('', 'rst')]
    for name, K in KEYFUNS:
        sp = specials(name, K)
        picked = [c for c in NOTABLE if c in sp]
        rest = [c for c in sp if c not in picked]
        rng.shuffle(rest)
        for i, c in enumerate(picked + rest[:n_per_key]):
            for pre, suf in ([frames[0], frames[1 + i % (len(frames) - 1)]] if i < len(picked) else [frames[i % len(frames)]]):
                x = pre + c + suf
                kx = K(x)
                img = K(c)
                cands = [kx, kx.lower(), kx.upper(), pre + img + suf, pre + img.lower() + suf, pre + img.upper() + suf]
                ys = []
                for y in cands:
                    try:
                        if y and y != x and y not in ys and K(y) == kx:
                            ys.append(y)
                    except Exception:
                        pass
                ys.sort(key=lambda y: (not PLAIN.fullmatch(y), y != y.lower()))
                if ys and tuple(sorted([x] + ys[:2])) not in seen:
                    seen.add(tuple(sorted([x] + ys[:2])))
                    groups.append(('ident:%s:U+%04X' % (name, ord(c)), [x] + ys[:2]))
    # ASCII-only confusables: case variants, blanks, back-quotes, dotted paths, long common prefixes
    groups += [
        ('ident:case:plain', ['abc', 'ABC', 'Abc']), ('ident:case:reserved', ['select', 'SELECT', 'Select']),
        ('ident:case:quoted', ['a b', 'A B', 'a  b']), ('ident:case:dash', ['a-b', 'A-B', 'ab']),
        ('ident:blank', ['a', 'a ', ' a']), ('ident:bq', ['a', 'a`', '`a`']), ('ident:digit', ['a1', '1a', 'A1']),
        ('ident:dot', ['a.b', 'a', 'b']), ('ident:reserved-mix', ['from', 'fro', 'FROM_']),
        ('ident:prefix', ['a' * 15 + 'x', 'a' * 15 + 'x y', 'a' * 16, 'a' * 16 + '-']),
        ('ident:quote', ["a'b", 'a"b', 'ab']), ('ident:dollar', ['a$b', 'a$B', 'ab$']),
    ]
    return groups


# values identified by ==, str(), case, normal forms: source spellings of different trees
CONST_GROUPS = [
    ('const:one', ['1', '1.0', 'TRUE', "'1'", '"1"', "'1.0'", '01', "'TRUE'", 'true']),
    ('const:zero', ['0', '0.0', 'FALSE', "'0'", "''", "'FALSE'", '00', "'0.0'", 'NULL', "'NULL'", "'None'"]),
    ('const:num', ['2', '2.0', "'2'", '2.50', '2.5', "'2.5'", '10', '10.0', '1e1', "'10'"]),
    ('const:neg', ['-1', '-1.0', "'-1'", '- 1', '-(1)']),
    ('const:word', ["'a'", 'a', '`a`', '"a"', '@a', "'A'", 'A', "'`a`'", '@`a`', '@A']),
    ('const:case', ["'abc'", "'ABC'", "'Abc'", "'abc '", "' abc'"]),
    ('const:unicode', ["'straße'", "'strasse'", "'STRASSE'", "'ﬁ'", "'fi'", "'é'", "'e'", "'É'"]),
    ('const:quote', ["'a''b'", "'a\"b'", "'ab'", "'a\\\\b'", "'a\\\\'"]),
    ('const:keyword', ["'select'", '`select`', "'SELECT'", '`SELECT`', "'null'", '`null`']),
]


NAME_PRINTER_CTX = ['SELECT @%s', 'SELECT %s(a)', 'CREATE TABLE t (%s int)']
EXTRA_NAME_CTX = ['SELECT * FROM t WHERE @%s = 1', 'SELECT a FROM t USING %s = 1', 'SELECT CAST(a AS %s)', 'SELECT @@%s', 'SHOW TABLES FROM %s',
                  'SELECT a AS %s FROM t', 'INSERT INTO t (%s) VALUES (1)']


def src_name(v):
    return '`' + v.replace('`', '``') + '`'


def build_groups(seed, quick, id_contexts, lit_contexts, corpus_texts):
    """the family of confusable groups: dict(name, keep, atoms, cases); quick = True | 'deep' (middle size) | False"""
    mid = quick == 'deep'
    quick = quick is True
    rng = common.rng_for(seed, 'C01/history')
    rngf = common.rng_for('C01-fixed-history', 'groups')
    dialects = common.DIALECTS
    out = []
    gi = 0
    for name, members in ident_groups(rng, 3 if quick else (10 if mid else 30)):
        gi += 1
        ctxs = [id_contexts[(gi * 3 + j * 5) % len(id_contexts)] for j in range(1 if quick else (3 if mid else 5))]
        ds = dialects if (gi % 5 == 0 or not (quick or mid)) else [dialects[gi % 3]]
        cases = []
        for d in ds:
            for c in ctxs:
                for k, m in enumerate(members):
                    src = m if (PLAIN.fullmatch(m) and (k + gi) % 2 == 0) else src_name(m)
                    cases.append([d, c % ((src,) * c.count('%s'))])
        # the other printers that take a quoting decision on a name: @variable, function name, column definition; and one
        # further name holder in rotation (USING key, CAST type, system variable, SHOW ... FROM)
        for x in NAME_PRINTER_CTX + [EXTRA_NAME_CTX[gi % len(EXTRA_NAME_CTX)]]:
            d = dialects[1 + (gi + len(x)) % 2]
            for m in members:
                if '`' not in m:
                    cases.append([d, x % ((m if PLAIN.fullmatch(m) else src_name(m)),)])
        # two members inside ONE statement, both orders
        a, b = members[0], members[1]
        d = dialects[gi % 3]
        cases.append([d, 'SELECT %s, %s FROM t WHERE %s = 1' % (src_name(a), src_name(b), src_name(a))])
        cases.append([d, 'SELECT %s, %s FROM t WHERE %s = 1' % (src_name(b), src_name(a), src_name(b))])
        atoms = [['I', [m]] for m in members] + [['I', ['t', m]] for m in members] + [['I', [members[0], members[-1]]]] + \
                [['V', 0, m] for m in members if m] + [['S', m] for m in members]
        out.append(dict(name=name, keep=gi % 2 == 0, atoms=atoms, cases=cases))
    for name, forms in CONST_GROUPS:
        gi += 1
        cases = []
        for j, c in enumerate(lit_contexts):
            if quick and j % 3 != gi % 3:
                continue
            for d in dialects if j % 2 == 0 else [dialects[(gi + j) % 3]]:
                for f in forms:
                    cases.append([d, c % ((f,) * c.count('%s'))])
        atoms = [['S', f[1:-1]] for f in forms if f[0] == "'" and '\\' not in f and "''" not in f] + \
                [['P', f] for f in ('?', 'a', '1')]
        out.append(dict(name=name, keep=gi % 2 == 0, atoms=atoms, cases=cases))
    # whole statements and their case twins (function names, type names, operators, engine / category words, strings)
    for d in dialects:
        acc = [t for t in corpus_texts if len(t) < 300 and (t.upper() != t or t.lower() != t)]
        rngf.shuffle(acc)
        n = 0
        for t in acc:
            if n >= (24 if quick else (60 if mid else 400)):
                break
            try:
                if rt.parse(d, t) is None:
                    continue
            except Exception:
                continue
            n += 1
            gi += 1
            tw = []
            for x in (t, t.upper(), t.lower(), t.swapcase()):
                if x not in tw:
                    tw.append(x)
            out.append(dict(name='twin:%s' % d, keep=gi % 2 == 0, atoms=[], cases=[[d, x] for x in tw]))
    return out


# ------------------------------------------------------------------------------------------ orders / ops
def ops_of(groups, reverse=False, order=None):
    """flat list of operations of one run: ['A', g, i, atom] / ['C', g, i, dialect, text] / ['E', g, keep]"""
    idx = list(range(len(groups))) if order is None else list(order)
    if reverse:
        idx = idx[::-1]
    ops = []
    for g in idx:
        G = groups[g]
        A = [['A', g, i, a] for i, a in enumerate(G['atoms'])]
        C = [['C', g, i, c[0], c[1]] for i, c in enumerate(G['cases'])]
        ops += (C[::-1] + A[::-1]) if reverse else (A + C)
        ops.append(['E', g, bool(G.get('keep'))])
    return ops


def print_atom(a):
    from mindsdb_sql.parser.ast import Identifier, Constant, Variable, Parameter
    if a[0] == 'I':
        return Identifier(parts=list(a[1])).to_string()
    if a[0] == 'S':
        return Constant(a[1]).to_string()
    if a[0] == 'V':
        return Variable(a[2], is_system_var=bool(a[1])).to_string()
    return Parameter(a[1]).to_string()


def observe(d, text):
    """(printed text | None when rejected, verdict 'ok' | 'kind:exc' | None, message, tree, oracle result)"""
    info = {}
    r = rt.oracle(d, text, info)
    s = info.get('printed')
    if r is None:
        return None, None, '', None, None
    if r == 'ok':
        return s, 'ok', '', info.get('tree'), r
    if not isinstance(s, str):
        s = '%s:%s' % (r['kind'], r['exc'])
    return s, '%s:%s' % (r['kind'], r['exc']), (r.get('msg') or '')[:160], info.get('tree'), r


def run_ops(ops):
    """execute one run in THIS process; result aligned with ops.  Trees of a group with keep=True stay alive until the
    end of the group and are printed again there; the others are dropped at once (object identities get re-used)"""
    keep = {o[1]: o[2] for o in ops if o[0] == 'E'}
    res = []
    kept = {}
    for op in ops:
        if op[0] == 'A':
            try:
                res.append(print_atom(op[3]))
            except Exception as e:
                res.append('!' + type(e).__name__)
        elif op[0] == 'C':
            s, v, msg, t, _ = observe(op[3], op[4])
            res.append([s, v, msg])
            if t is not None and isinstance(s, str) and keep.get(op[1]):
                kept.setdefault(op[1], []).append((op[2], t, s))
            del t
        else:
            bad = []
            for i, t, s in kept.pop(op[1], []):
                try:
                    s2 = t.to_string()
                except Exception as e:
                    s2 = 'print-crash:%s' % type(e).__name__
                if s2 != s:
                    bad.append([i, s, s2])
            res.append(bad)
    return res


def start(jobs, cumulative=None, fork=True):
    """start a fresh interpreter that runs every ops list of `jobs` in a state in which nothing has been printed yet, and
    then (optionally) `cumulative` in one state.  fork=True: the interpreter loads the lexers / parsers of the dialects
    used (no statement is parsed or printed) and forks one child per job; fork=False: only one job, run directly."""
    env = dict(os.environ)
    env.setdefault('PYTHONHASHSEED', '0')
    p = subprocess.Popen([sys.executable, '-m', 'tools.harness.printhist', '--worker'], cwd=ROOT, env=env, stdin=subprocess.PIPE,
                         stdout=subprocess.PIPE, stderr=subprocess.PIPE)
    import threading
    box = {}
    req = dict(jobs=jobs, cumulative=cumulative, fork=fork)

    def feed():
        out, err = p.communicate(json.dumps(req).encode())
        box['out'], box['err'] = out, err
    th = threading.Thread(target=feed)
    th.start()
    return p, th, box


def finish(h):
    """dict(jobs=[result per job], cumulative=result | None)"""
    p, th, box = h
    th.join()
    if p.returncode != 0:
        raise RuntimeError('history worker failed: %s' % box.get('err', b'').decode(errors='replace')[-1500:])
    line = box['out'].decode().strip().split('\n')[-1]
    return json.loads(line)


def fresh_runs(list_of_ops, fork=True):
    """results of several runs, each in a state in which nothing has been printed (fork=False: each in its own interpreter)"""
    if not list_of_ops:
        return []
    if fork:
        return finish(start(list_of_ops))['jobs']
    res = []
    for i in range(0, len(list_of_ops), 4):
        hs = [start([o], fork=False) for o in list_of_ops[i:i + 4]]
        res += [finish(h)['jobs'][0] for h in hs]
    return res


def state_snapshot():
    """size / value of every module-level and class-level container (and lru_cache) of the loaded mindsdb_sql modules"""
    snap = {}
    for mn, m in list(sys.modules.items()):
        if not mn.startswith('mindsdb_sql') or m is None:
            continue
        for k, v in list(vars(m).items()):
            if k.startswith('__'):
                continue
            if isinstance(v, (dict, list, set)):
                snap['%s.%s' % (mn, k)] = len(v)
            elif hasattr(v, 'cache_info'):
                try:
                    snap['%s.%s()' % (mn, k)] = v.cache_info().currsize
                except Exception:
                    pass
            elif isinstance(v, type) and v.__module__ == mn:
                for a, w in list(vars(v).items()):
                    if a.startswith('__'):
                        continue
                    if isinstance(w, (dict, list, set)):
                        snap['%s.%s.%s' % (mn, k, a)] = len(w)
                    elif isinstance(w, (bool, int, str, type(None))) and not callable(w):
                        snap['%s.%s.%s' % (mn, k, a)] = repr(w)[:40]
                    elif hasattr(w, 'cache_info'):
                        try:
                            snap['%s.%s.%s()' % (mn, k, a)] = w.cache_info().currsize
                        except Exception:
                            pass
    return snap


def state_written(before, after):
    """names of process state (of modules loaded before the run) whose size / value changed while statements were printed"""
    mods = {k.rsplit('.', 1)[0] for k in before}
    out = [k for k in after if k in before and before[k] != after[k]]
    out += [k for k in after if k not in before and k.rsplit('.', 1)[0] in mods]
    return sorted(out)


def worker_main():
    req = json.loads(sys.stdin.read())
    jobs = req['jobs']
    out = dict(jobs=[], cumulative=None)
    if not req.get('fork'):
        out['jobs'] = [run_ops(o) for o in jobs]
    else:
        import gc
        from mindsdb_sql import get_lexer_parser
        used = {op[3] for o in jobs + [req.get('cumulative') or []] for op in o if op[0] == 'C'}
        for d in common.DIALECTS:
            if d in used:
                get_lexer_parser(d)            # loads the lexer / parser modules (LALR tables); nothing is parsed or printed
        gc.collect()
        gc.freeze()
        WAVE = 4                               # children of one wave run side by side; every child starts from the same state
        for lo in range(0, len(jobs), WAVE):
            kids = []
            for o in jobs[lo:lo + WAVE]:
                r, w = os.pipe()
                pid = os.fork()
                if pid == 0:
                    code = 0
                    try:
                        os.close(r)
                        for r2, _ in kids:
                            os.close(r2)
                        data = json.dumps(run_ops(o)).encode()
                        with os.fdopen(w, 'wb') as f:
                            f.write(data)
                    except BaseException:
                        code = 1
                    os._exit(code)
                os.close(w)
                kids.append((r, pid))
            for r, pid in kids:
                with os.fdopen(r, 'rb') as f:
                    data = f.read()
                _, st = os.waitpid(pid, 0)
                if st != 0 or not data:
                    raise RuntimeError('forked run failed (status %s)' % st)
                out['jobs'].append(json.loads(data))
    if req.get('cumulative'):
        before = state_snapshot()
        out['cumulative'] = run_ops(req['cumulative'])
        out['state_written'] = state_written(before, state_snapshot())
    sys.stdout.write('\n' + json.dumps(out) + '\n')


# ------------------------------------------------------------------------------------------ minimisation
def trial_ops(history, target):
    return [['C', 0, i, d, t] for i, (d, t) in enumerate(history)] + [['C', 0, len(history), target[0], target[1]], ['E', 0, False]]


def deviates(obs, fresh):
    return obs[0] != fresh[0] or obs[1] != fresh[1]


def atom_keys(d, text):
    """images of the names / strings / numbers of a statement under the key functions (to recognise confusable statements)"""
    toks = rt.tokens(d, text) or []
    keys = set()
    for tp, lx in toks:
        body = None
        if tp == 'ID':
            body = lx[1:-1].replace('``', '`') if len(lx) > 1 and lx[0] == '`' and lx[-1] == '`' else lx
        elif tp in ('QUOTE_STRING', 'DQUOTE_STRING') and len(lx) >= 2:
            body = lx[1:-1]
        elif tp in ('VARIABLE', 'SYSTEM_VARIABLE'):
            body = lx.lstrip('@').strip('`"\'')
        elif tp in ('INTEGER', 'FLOAT', 'TRUE', 'FALSE'):
            body = lx
        if body is None:
            continue
        for name, K in KEYFUNS:
            try:
                keys.add(K(body).lower())
            except Exception:
                pass
        try:
            keys.add('num:%r' % float({'TRUE': '1', 'FALSE': '0'}.get(body.upper(), body)))
        except Exception:
            pass
    return keys


def minimise(target, within_group, prefix, deadline=None):
    """smallest history (list of [dialect, text]) after which `target` is observed differently than in a fresh process.
    within_group: the statements of the target's group that ran before it; prefix: everything that ran before it.
    Candidates: one statement of the same group; one earlier statement that shares a name / string / number with the
    target up to one of the key functions; the group; the whole prefix, bisected.
    returns (history, fresh observation, observation after history, trials) or None"""
    import time
    left = lambda: deadline is None or time.time() < deadline
    trials = 0
    singles = list(within_group[-8:])
    tk = atom_keys(*target)
    for u in reversed(prefix):
        if len(singles) >= 16:
            break
        if u not in singles and u != target and tk & atom_keys(*u):
            singles.append(u)
    rs = fresh_runs([trial_ops([], target)] + [trial_ops([u], target) for u in singles])
    trials += len(rs)
    fresh = rs[0][0]
    for u, r in zip(singles, rs[1:]):
        if deviates(r[1], fresh):
            return [u], fresh, r[1], trials
    for cand in (within_group, prefix):
        if not cand or not left():
            continue
        r = fresh_runs([trial_ops(cand, target)])[0]
        trials += 1
        if not deviates(r[len(cand)], fresh):
            continue
        hist, after = list(cand), r[len(cand)]
        while len(hist) > 1 and left():          # bisection: keep the half after which the statement still deviates
            mid = len(hist) // 2
            halves = [hist[mid:], hist[:mid]]
            rs = fresh_runs([trial_ops(h, target) for h in halves])
            trials += 2
            hit = [(h, rr[len(h)]) for h, rr in zip(halves, rs) if deviates(rr[len(h)], fresh)]
            if not hit:
                break
            hist, after = hit[0]
        return hist, fresh, after, trials
    return None


def value_twins(tp, lx):
    """other spellings of a token that denote an equal / equally printed value: 1 1.0 TRUE '1', a 'a' `a` "a" @a"""
    out = []
    if tp in ('INTEGER', 'FLOAT', 'TRUE', 'FALSE'):
        try:
            v = float({'TRUE': '1', 'FALSE': '0'}.get(lx.upper(), lx))
        except ValueError:
            return out
        if v == int(v):
            out += ['%d' % int(v), '%d.0' % int(v), "'%d'" % int(v)]
            if int(v) in (0, 1):
                out.append('TRUE' if int(v) else 'FALSE')
        out += [repr(v), "'%s'" % lx]
    elif tp == 'ID':
        body = lx[1:-1].replace('``', '`') if len(lx) > 1 and lx[0] == '`' and lx[-1] == '`' else lx
        out += ["'%s'" % body.replace("'", "''"), '@' + lx if PLAIN.fullmatch(body) else '@`%s`' % body]
    elif tp == 'QUOTE_STRING' and len(lx) >= 2:
        body = lx[1:-1]
        out += [body if PLAIN.fullmatch(body) else src_name(body), '"%s"' % body.replace('"', '')]
        try:
            float(body)
            out.append(body)
        except ValueError:
            pass
    return [x for x in out if x != lx]


def confusable_histories(d, text, limit=48):
    """statements that differ from `text` only in names / strings replaced by an image under one of the key functions, or in
    one token replaced by another spelling of an equal value (candidate one-statement histories for a failure that a
    fresh interpreter does not reproduce)"""
    toks = rt.tokens(d, text)
    if not toks:
        return []
    out = []
    for k, (tp, lx) in enumerate(toks):
        for tw in value_twins(tp, lx):
            cand = ' '.join([l for _, l in toks[:k]] + [tw] + [l for _, l in toks[k + 1:]])
            if cand != text and cand not in out:
                out.append(cand)
    out = out[:limit // 2]
    for name, K in KEYFUNS:
        for post in (lambda x: x, str.lower, str.upper):
            lexs, changed = [], False
            for tp, lx in toks:
                new = lx
                try:
                    if tp == 'ID':
                        body = lx[1:-1].replace('``', '`') if len(lx) > 1 and lx[0] == '`' and lx[-1] == '`' else lx
                        img = post(K(body))
                        if img and img != body:
                            new = img if PLAIN.fullmatch(img) else src_name(img)
                    elif tp in ('QUOTE_STRING', 'DQUOTE_STRING') and len(lx) >= 2:
                        img = post(K(lx[1:-1]))
                        if img != lx[1:-1]:
                            new = lx[0] + img + lx[-1]
                except Exception:
                    new = lx
                changed = changed or new != lx
                lexs.append(new)
            cand = ' '.join(lexs)
            if changed and cand != text and cand not in out:
                out.append(cand)
    return out[:limit]


def find_history(d, text):
    """(history, fresh observation, observation after it) for a statement that fails in the check's process only"""
    target = [d, text]
    cands = [[[d, u]] for u in confusable_histories(d, text)]
    if not cands:
        return None
    rs = fresh_runs([trial_ops([], target)] + [trial_ops(h, target) for h in cands])
    fresh = rs[0][0]
    for h, r in zip(cands, rs[1:]):
        if deviates(r[len(h)], fresh):
            return h, fresh, r[len(h)]
    return None


def replay(f):
    """re-run a recorded history failure in fresh interpreters; 1 = reproduced"""
    target = [f['dialect'], f['shrunk']]
    hist = f.get('history') or []
    a, b = fresh_runs([trial_ops([], target), trial_ops(hist, target)], fork=False)      # two separate interpreters
    fresh, after = a[0], b[len(hist)]
    print('fresh interpreter          : %s %r -> printed %r, %s' % (target[0], target[1], fresh[0], fresh[1]))
    for d, t in hist[:20]:
        print('  history                  : %s %r' % (d, t))
    if len(hist) > 20:
        print('  ... (%d statements)' % len(hist))
    print('after that history         : %s %r -> printed %r, %s %s' % (target[0], target[1], after[0], after[1], after[2]))
    bad = deviates(after, fresh) or (fresh[1] not in ('ok',))
    return 1 if bad else 0


if __name__ == '__main__':
    if '--worker' in sys.argv:
        worker_main()
