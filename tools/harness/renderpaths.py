"""Every way of constructing a SqlalchemyRender (C07): string names (with case variants), dialect classes of every
driver sub-dialect of the five engine packages, dialect classes obtained from URLs (MariaDB), dialect instances.
Shared by the translator (Gen/RenderPaths.lean: construction path -> target engine family, observed literal codec)
and by the C07 check (correspondence / probe per path)."""
import importlib, pkgutil

PACKAGES = ('mysql', 'postgresql', 'sqlite', 'mssql', 'oracle')
NAMES = ['mysql', 'postgresql', 'postgres', 'sqlite', 'mssql', 'oracle', 'Snowflake',
         'MySQL', 'MYSQL', 'Mysql', 'PostgreSQL', 'POSTGRES', 'SQLite', 'MSSQL', 'Oracle', 'snowflake', 'mariadb', 'MariaDB']
URLS = ['mariadb://', 'mariadb+pymysql://', 'mariadb+mysqldb://', 'mariadb+mariadbconnector://', 'mysql+pymysql://',
        'mysql+mysqlconnector://', 'postgresql+psycopg2://', 'postgresql+pg8000://', 'sqlite+pysqlite://', 'mssql+pymssql://',
        'oracle+oracledb://']


def code_names():
    """every string constant of SqlalchemyRender.__init__ (the dialect table lives there as a dict literal): candidate
    dialect names read from the code at run time — a name added to the table is tried without editing NAMES"""
    from mindsdb_sql.render.sqlalchemy_render import SqlalchemyRender
    out = set()

    def rec(code):
        for c in code.co_consts:
            if isinstance(c, str):
                out.add(c)
            elif isinstance(c, (tuple, frozenset)):
                out.update(x for x in c if isinstance(x, str))
            elif hasattr(c, 'co_consts'):
                rec(c)
    try:
        rec(SqlalchemyRender.__init__.__code__)
    except Exception:
        pass
    return sorted(x for x in out if x and len(x) < 40 and x.isprintable() and ' ' not in x)


def construction_paths():
    """label -> constructor argument (label kinds: name:<str>, class:<pkg>.<sub>, url:<scheme>, instance:<pkg>)"""
    out = {}
    for n in NAMES + code_names():
        out['name:' + n] = n
    for pkg in PACKAGES:
        mod = importlib.import_module('sqlalchemy.dialects.' + pkg)
        out['class:%s' % pkg] = mod.dialect
        for m in sorted(x.name for x in pkgutil.iter_modules(mod.__path__)):
            try:
                sub = importlib.import_module('sqlalchemy.dialects.%s.%s' % (pkg, m))
            except Exception:
                continue
            d = getattr(sub, 'dialect', None)
            if isinstance(d, type):
                out['class:%s.%s' % (pkg, m)] = d
        try:
            out['instance:%s' % pkg] = mod.dialect()
        except Exception:
            pass
    from sqlalchemy.engine import url
    for u in URLS:
        try:
            out['url:' + u[:-3]] = url.make_url(u + 'u@h/d').get_dialect()
        except Exception:
            pass
    return out


def build(label, paths=None):
    """SqlalchemyRender for a construction path, or None when the constructor rejects the argument"""
    from mindsdb_sql.render.sqlalchemy_render import SqlalchemyRender
    arg = (paths or construction_paths())[label] if not isinstance(label, tuple) else label[1]
    try:
        return SqlalchemyRender(arg)
    except Exception:
        return None


def backslash_target(renderer, label=None):
    """does the TARGET engine of this renderer treat backslash as an escape character inside string literals?
    Decided from SQLAlchemy's class hierarchy (MySQL family incl. MariaDB), not from anything in mindsdb_sql — and from
    the engine the NAME stands for when the library substitutes another dialect: `Snowflake` is rendered with the
    Oracle dialect, but Snowflake reads backslash escape sequences inside single-quoted constants (Snowflake SQL
    reference, "String constants"; not verifiable offline)."""
    from sqlalchemy.dialects.mysql.base import MySQLDialect
    if label is not None and label.lower() in ('name:snowflake', 'snowflake'):
        return True
    return isinstance(renderer.dialect, MySQLDialect)


def where_literal(renderer, value):
    """the literal text in `SELECT a FROM t WHERE a = <literal>`"""
    from mindsdb_sql.parser import ast as A
    q = A.Select(targets=[A.Identifier('a')], from_table=A.Identifier('t'),
                 where=A.BinaryOperation('=', args=[A.Identifier('a'), A.Constant(value)]))
    s = renderer.get_string(q, with_failback=False)
    return s[s.index('WHERE a = ') + len('WHERE a = '):]


def observed_codec(renderer):
    """'mysql' (quotes and backslashes doubled), 'std' (quotes doubled only) or '?<texts>'"""
    a, b = where_literal(renderer, '\\'), where_literal(renderer, "'")
    if b != "''''":
        return '?%s %s' % (a, b)
    return {"'\\\\'": 'mysql', "'\\'": 'std'}.get(a, '?%s %s' % (a, b))


def probe_all():
    """rows (label, accepted, dialect.name, backslash target, observed codec) sorted by label"""
    rows = []
    paths = construction_paths()
    for label in sorted(paths):
        r = build(label, paths)
        if r is None:
            rows.append((label, False, '', False, ''))
        else:
            rows.append((label, True, r.dialect.name, backslash_target(r, label), observed_codec(r)))
    return rows
