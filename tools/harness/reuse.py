"""Long-lived API objects of mindsdb_sql that a caller may REUSE (C20, round 5).

* object kinds: ('render', dialect) = SqlalchemyRender(dialect); ('planner', catalog) = QueryPlanner(**catalog);
  ('parser', dialect) = the (lexer, parser) pair of get_lexer_parser(dialect).
* calls (JSON-able lists): render  ['get_string', sql, failback] / ['get_exec_params', sql, failback];
  planner ['from_query', sql] / ['prepared', sql, params] (prepare_steps drained, get_statement_info, execute_steps
  drained) / ['prepare_info', sql] (a statement that is prepared and never executed) / ['prepare_abandon', sql]
  (the generator of prepare_steps is dropped after its first step);  parser ['parse', sql] (the body of parse_sql on
  the reused pair) / ['tokenize', sql].
  The entry points whose documented input IS the state of the object (execute_steps after prepare_steps; from_query()
  without a query) are exercised as parts of an episode that sets that state first.
* sessions(): statement sequences that repeat names — the same tables created / dropped / re-created / inserted /
  selected, the same aliases, CTE names equal to table names, the same sub-queries.
* footprint probing: which attributes of the object a call reads before it has rebound them (get/set trace installed
  on the class for the duration of the probe) and which attribute paths differ between a deep snapshot before and
  after the call.  Used by tools/extract/x_footprint.py (Gen/Footprint.lean) and by the C20 check (cross-check of
  the random sessions against the generated table).
"""
import copy, json, re, types, warnings

from tools.harness import common  # noqa: F401  (puts the repo on sys.path)

RENDER_DIALECTS = ['mysql', 'postgresql', 'postgres', 'sqlite', 'mssql', 'oracle', 'Snowflake']
PARSE_DIALECTS = ['mindsdb', 'mysql', 'sqlite']
CATALOGS = {
    'mindsdb': dict(integrations=['int1', 'int2', {'name': 'proj', 'type': 'project'}],
                    predictor_metadata=[{'name': 'pred', 'integration_name': 'mindsdb'},
                                        {'name': 'tp3', 'integration_name': 'mindsdb', 'timeseries': True, 'window': 3,
                                         'order_by_column': 'pickup_hour', 'group_by_columns': ['day', 'type']}],
                    default_namespace='mindsdb'),
    'int1': dict(integrations=['int1', 'int2'], default_namespace='int1',
                 predictor_metadata=[{'name': 'pred', 'integration_name': 'mindsdb'}]),
    'api': dict(integrations=[{'name': 'int1', 'type': 'data', 'class_type': 'api'}, 'int2'], default_namespace='int1'),
    'legacy': dict(integrations=['int1', 'int2'], predictor_namespace='mindsdb',
                   predictor_metadata={'pred': {'timeseries': False}, 'proj.p2': {}}, default_namespace='int2'),
}
CLASS_OF = {'render': 'SqlalchemyRender', 'planner': 'QueryPlanner'}
warnings.filterwarnings('ignore')


# ----------------------------------------------------------------------------------------------- objects and calls
def make(spec):
    kind, arg = spec
    if kind == 'render':
        from mindsdb_sql.render.sqlalchemy_render import SqlalchemyRender
        return SqlalchemyRender(arg)
    if kind == 'planner':
        from mindsdb_sql.planner.query_planner import QueryPlanner
        return QueryPlanner(**copy.deepcopy(CATALOGS[arg]))
    if kind == 'parser':
        from mindsdb_sql import get_lexer_parser
        return get_lexer_parser(arg)
    raise ValueError(spec)


def traced_objects(spec, obj):
    """the objects whose attributes make up the state: [(class label, object)]"""
    if spec[0] == 'parser':
        return [(type(obj[0]).__name__, obj[0]), (type(obj[1]).__name__, obj[1])]
    return [(CLASS_OF[spec[0]], obj)]


def norm_step(s):
    return re.sub(r'\bt_\d+\b', 't_N', re.sub(r'0x[0-9a-f]+', '0x', str(s)))


COLS = [dict(name=n, type=t) for n, t in (('id', 'int'), ('a', 'str'), ('b', 'str'), ('x', 'int'), ('total', 'float'),
                                          ('customer', 'str'))]


def exec_step(step):
    """what a server would answer to the steps of prepare_steps (tests/test_planner/test_prepared_statement.py)"""
    from mindsdb_sql.planner import steps
    if isinstance(step, steps.GetTableColumns):
        key = ('int', step.table, step.table)
        return {'values': [], 'columns': {key: COLS}, 'tables': [key]}
    if isinstance(step, steps.GetPredictorColumns):
        name = step.predictor.parts[-1]
        key = ('int', name, name)
        return {'values': [], 'columns': {key: COLS}, 'tables': [key]}
    return None


def drain(gen, limit=None):
    out = []
    for step in gen:
        out.append(norm_step(step))
        if hasattr(step, 'set_result'):
            step.set_result(exec_step(step))
        if limit is not None and len(out) >= limit:
            break
    return out


def do_call(obj, call):
    """one call / episode on `obj`; canonical string describing the result (errors included)"""
    from mindsdb_sql import parse_sql
    name = call[0]
    try:
        if name in ('get_string', 'get_exec_params'):
            q = parse_sql(call[1], 'mindsdb')
            if name == 'get_string':
                return 'sql:' + obj.get_string(q, with_failback=bool(call[2]))
            sql, params = obj.get_exec_params(q, with_failback=bool(call[2]))
            return 'exec:' + json.dumps([sql, params], default=str)
        if name == 'from_query':
            q = parse_sql(call[1], 'mindsdb')
            return 'plan:' + ';'.join(norm_step(s) for s in obj.from_query(q).steps)
        if name in ('prepared', 'prepare_info', 'prepare_abandon'):
            q = parse_sql(call[1], 'mindsdb')
            if name == 'prepare_abandon':
                return 'prep1:' + json.dumps(drain(obj.prepare_steps(q), limit=1))
            s1 = drain(obj.prepare_steps(q))
            info = obj.get_statement_info()
            if name == 'prepare_info':
                return 'prep:' + json.dumps([s1, info], default=str, sort_keys=True)
            s2 = drain(obj.execute_steps(call[2]))
            return 'prepared:' + json.dumps([s1, info, s2], default=str, sort_keys=True)
        if name == 'parse':
            from mindsdb_sql import ErrorHandling
            from mindsdb_sql.exceptions import ParsingException
            lexer, parser = obj
            sql = re.sub(r'[\s;]+$', '', call[1])
            a = parser.parse(lexer.tokenize(sql))
            if a is None:
                raise ParsingException(ErrorHandling(lexer, parser).process(parser.error_info))
            return 'tree:' + a.to_tree() + '|' + str(a)
        if name == 'tokenize':
            return 'tokens:' + json.dumps([[t.type, t.value, t.lineno, t.index] for t in obj[0].tokenize(call[1])],
                                          default=str)
    except Exception as e:
        return 'exc:%s:%s' % (type(e).__name__, str(e))
    raise ValueError(call)


def fresh_result(spec, call):
    return do_call(make(tuple(spec)), call)


# ----------------------------------------------------------------------------------------------- sessions
TABLES = ['orders', 'items', 'sales.orders', 'crm.orders', 'archive', 'sales.archive', 't1', 'Orders']
ALIASES = ['a', 'b', 't', 'orders']
RENDER_TEMPLATES = [
    'create table {t} (id int, total float)', 'create table {t} (id int, total float)',
    'create table {t} (id serial, customer varchar(20))', 'create table {t} (customer text primary key, id int)',
    'create table {t} (id serial, `Order Date` date, amount float)',
    'create table if not exists {t} (id int)', 'create or replace table {t} (id int, note text)',
    'create table {t} (select * from {u})', 'create table {u} (id int, total float, customer text, note text)',
    'drop table {t}', 'drop table if exists {t}', 'drop table {u}',
    'insert into {t} (id, total) values (1, 2.5)', "insert into {t} (id, customer) values (1, 'a'), (2, 'b')",
    'insert into {t} select * from {u}', 'update {t} set total = 3 where id = 1', "update {t} set customer = 'x', id = 2",
    'delete from {t} where id = 1', "delete from {t} where customer = 'x' and id in (1, 2)",
    'select id, total from {t} where id = 1', 'select {a}.id, {b}.total from {t} {a} join {u} {b} on {a}.id = {b}.id',
    'select * from {t} as {a}', 'select * from {u} as {a}', 'select * from (select id from {t}) as {a}',
    'with {c} as (select id from {t}) select * from {c}',
    'with {c} as (select id from {u}) select {c}.id from {c} join {t} on {t}.id = {c}.id',
    'select id from {t} union select id from {u}', 'select * from {t} where id in (select id from {u})',
    'select cast(id as int) as {a} from {t}', 'select count(*) as {a} from {t} group by id having count(*) > 1',
    'select * from {t} where id = ?', 'select * from {t} limit 1 offset 2', 'show tables', 'drop view {t}',
    'select * from x.y.{t}', "select interval '1 day' from {t}",
]
PLAN_TABLES = ['t1', 'int1.t1', 'int2.t1', 'int2.t2', 'int1.y', 't2', 'INT1.t1']
PLAN_TEMPLATES = [
    'select * from {t}', 'select * from {t} where a = 1', 'select a, b from {t} where x > 2 limit 3',
    'select * from {t} {a} join {u} {b} on {a}.id = {b}.id',
    'select * from {t} {a} join mindsdb.pred m on m.id = {a}.id',
    'select * from {t} {a} join mindsdb.pred m join {u} {b} on {b}.id = m.id',
    'select * from {t} where a in (select b from {u})', 'select * from {t} union select * from {u}',
    'with {c} as (select a from {u}) select * from {c} join {t} on {c}.a = {t}.a',
    'with {c} as (select a from {u}) select * from {c}',
    'with {c} as (select a from {t}) select * from {c} join mindsdb.pred',
    'select * from {c}', 'select * from {c} where a = 1', 'select * from {u} join {c}', 'select * from {c} join mindsdb.pred',
    'select * from (select * from {t}) {a} join {u} {b} on {a}.id = {b}.id',
    'insert into {t} (a, b) values (1, 2)', 'insert into {t} select * from {u}', 'update {t} set a = 1 where b = 2',
    'delete from {t} where a = 1', 'create table {t} (select * from {u})', 'select * from mindsdb.pred where a = 1',
    'select * from nosuch.t1 join int9.t2', 'select 1', 'show tables',
    'select * from {t} where a = ? and b = ?', 'select id, a from {t} where x = ?', 'insert into {t} (a, b) values (?, ?)',
    'select * from {t} {a} join mindsdb.pred m where {a}.x = ?',
]
PARSE_EXTRA = ['', '   ', ';', 'CREATE', 'select * from', 'select 1 1', "select 'x", 'select `a', 'select * from t t t',
               'drop table', 'select (1', 'select 1)', 'insert into t', 'select * from t where', 'select\n1\nfrom']


def _fmt(rng, template, names):
    t, u = names['tables']
    last = [x.split('.')[-1] for x in (t, u)]
    env = dict(t=t, u=u, a=names['aliases'][0], b=names['aliases'][1], c=rng.choice(last + [names['aliases'][0]]))
    if rng.random() < 0.3:
        env['t'], env['u'] = env['u'], env['t']
    return template.format(**env)


def _nparams(sql):
    return sql.count('?')


def session(rng, spec, length):
    """one session for an object: calls over a pool of TWO table names and two aliases"""
    kind = spec[0]
    if kind == 'render':
        names = dict(tables=rng.sample(TABLES, 2), aliases=rng.sample(ALIASES, 2))
        calls = []
        for _ in range(length):
            sql = _fmt(rng, rng.choice(RENDER_TEMPLATES), names)
            calls.append([rng.choice(['get_string', 'get_string', 'get_exec_params']), sql, rng.random() < 0.6])
            if rng.random() < 0.25:        # the same statement again (a retried statement)
                calls.append([rng.choice(['get_string', 'get_exec_params']), sql, rng.random() < 0.5])
        return calls
    if kind == 'planner':
        names = dict(tables=rng.sample(PLAN_TABLES, 2), aliases=rng.sample(ALIASES[:3], 2))
        calls = []
        for _ in range(length):
            sql = _fmt(rng, rng.choice(PLAN_TEMPLATES), names)
            r = rng.random()
            if '?' in sql or r < 0.35:
                n = _nparams(sql)
                params = [10 + i for i in range(n)] if n else None
                calls.append([rng.choice(['prepared', 'prepared', 'prepared', 'prepare_info', 'prepare_abandon']), sql, params])
            else:
                calls.append(['from_query', sql])
        return calls
    if kind == 'parser':
        names = dict(tables=rng.sample(TABLES, 2), aliases=rng.sample(ALIASES, 2))
        calls = []
        for _ in range(length):
            r = rng.random()
            if r < 0.25:
                sql = rng.choice(PARSE_EXTRA)
            else:
                sql = _fmt(rng, rng.choice(RENDER_TEMPLATES + PLAN_TEMPLATES), names)
                if r > 0.85:
                    words = sql.split()
                    i = rng.randrange(len(words))
                    sql = ' '.join(words[:i] + words[i + 1:])
            calls.append([rng.choice(['parse', 'parse', 'parse', 'tokenize']), sql])
        return calls
    raise ValueError(spec)


def specs():
    return [('render', d) for d in RENDER_DIALECTS] + [('planner', c) for c in sorted(CATALOGS)] + \
        [('parser', d) for d in PARSE_DIALECTS]


def sessions(rng, per_spec, length):
    out = []
    for spec in specs():
        for _ in range(per_spec):
            out.append((spec, session(rng, spec, length)))
    return out


# ----------------------------------------------------------------------------------------------- footprints
def _atom(v):
    return isinstance(v, (str, int, float, bool, type(None), bytes))


def _flat(v, depth, path):
    """canonical string of a value (containers in canonical order, objects by their attributes)"""
    if _atom(v):
        return repr(v)
    if id(v) in path:
        return '<cycle>'
    if depth > 4:
        return '<%s>' % type(v).__name__
    path = path + (id(v),)
    if isinstance(v, (set, frozenset)):
        return 'set{' + ','.join(sorted(_flat(x, depth + 1, path) for x in v)) + '}'
    if isinstance(v, dict):
        try:
            items = list(v.items())
        except Exception:
            items = []
        return type(v).__name__ + '{' + ','.join(sorted(_flat(k, depth + 1, path) + ':' + _flat(x, depth + 1, path)
                                                          for k, x in items)) + '}'
    if isinstance(v, (list, tuple)):
        return type(v).__name__ + '[' + ','.join(_flat(x, depth + 1, path) for x in v) + ']'
    if isinstance(v, type):
        return 'class:' + v.__qualname__
    if isinstance(v, (types.FunctionType, types.MethodType, types.BuiltinFunctionType, types.ModuleType,
                      types.GeneratorType)):
        return '<callable>'
    d = getattr(v, '__dict__', None)
    if isinstance(d, dict):
        return type(v).__name__ + '(' + ','.join('%s=%s' % (k, _flat(x, depth + 1, path))
                                                  for k, x in sorted(d.items(), key=lambda kv: str(kv[0]))) + ')'
    return '<%s>' % type(v).__name__


def _tree(v, depth, path):
    """objects (not containers) become dicts attribute -> tree down to depth 3 so that a difference can be located"""
    if _atom(v) or depth >= 3 or isinstance(v, (set, frozenset, dict, list, tuple, type)) or id(v) in path:
        return _flat(v, depth, path)
    d = getattr(v, '__dict__', None)
    if isinstance(d, dict) and not isinstance(v, (types.FunctionType, types.MethodType, types.ModuleType)):
        p2 = path + (id(v),)
        return {str(k): _tree(x, depth + 1, p2) for k, x in list(d.items())}
    return _flat(v, depth, path)


def snapshot(obj):
    return {str(k): _tree(v, 1, (id(obj),)) for k, v in list(vars(obj).items())}


def diff_paths(a, b, pre='', out=None):
    """paths (attribute chains, at most 3 long) at which two snapshots differ"""
    if out is None:
        out = set()
    if isinstance(a, dict) and isinstance(b, dict):
        for k in set(a) | set(b):
            p = pre + '.' + k if pre else k
            if k not in a or k not in b:
                out.add(p)
            else:
                diff_paths(a[k], b[k], p, out)
    elif a != b:
        out.add(pre)
    return out


class Trace:
    """get / set trace of instance attributes, installed on the class itself for the duration of a probe
    (no subclass: SLY's metaclasses would rebuild the tables); events only while `on`"""

    def __init__(self, cls):
        self.cls, self.ev, self.on = cls, [], False

    def __enter__(self):
        tr, cls = self, self.cls
        og, os_ = object.__getattribute__, object.__setattr__

        def g(self_, name):
            v = og(self_, name)
            if tr.on and not name.startswith('__') and name in og(self_, '__dict__'):
                tr.ev.append(('get', name))
            return v

        def s(self_, name, value):
            if tr.on:
                tr.ev.append(('set', name))
            os_(self_, name, value)
        self.had = {k: cls.__dict__.get(k) for k in ('__getattribute__', '__setattr__')}
        cls.__getattribute__, cls.__setattr__ = g, s
        return self

    def __exit__(self, *a):
        for k, v in self.had.items():
            if v is None:
                delattr(self.cls, k)
            else:
                setattr(self.cls, k, v)


def events_footprint(ev):
    """(exposed reads, rebound attributes) of one call's event list"""
    rebound, exposed = set(), set()
    for kind, name in ev:
        if kind == 'set':
            rebound.add(name)
        elif name not in rebound:
            exposed.add(name)
    return exposed, rebound


def probe_session(spec, calls, acc=None):
    """run `calls` on ONE object of `spec` under the trace; accumulate per (class, entry point):
    reads = exposed reads, writes = {(attribute, path)}.  Returns acc."""
    acc = {} if acc is None else acc
    obj = make(spec)
    objs = traced_objects(spec, obj)
    traces = [Trace(type(o)) for _, o in objs]
    for t in traces:
        t.__enter__()
    try:
        after = [snapshot(o) for _, o in objs]
        for call in calls:
            before = after
            for t in traces:
                t.ev, t.on = [], True
            try:
                do_call(obj, call)
            finally:
                for t in traces:
                    t.on = False
            after = [snapshot(o) for _, o in objs]
            for (label, o), t, b, a in zip(objs, traces, before, after):
                exposed, rebound = events_footprint(t.ev)
                changed = diff_paths(b, a)
                row = acc.setdefault((label, call[0]), dict(reads=set(), writes=set()))
                row['reads'] |= exposed
                row['writes'] |= {(a, a) for a in rebound}
                row['writes'] |= {(p.split('.')[0], p) for p in changed if p.split('.')[0] not in rebound}
    finally:
        for t in traces:
            t.__exit__()
    return acc


# the fixed probe set of the translator (deterministic: Gen/Footprint.lean must not depend on VERIF_SEED)
PROBE_RENDER = [
    'select a, b from orders where x = 1', 'create table orders (id int, total float)',
    'create table orders (id serial, customer varchar(20))', 'create table if not exists sales.orders (id int)',
    'drop table orders', 'drop table if exists sales.orders', 'create table orders (select * from items)',
    'insert into orders (id, total) values (1, 2.5)', 'insert into orders select * from items',
    'update orders set total = 3 where id = 1', 'delete from orders where id = 1',
    'select a.id, b.total from orders a join items b on a.id = b.id', 'select * from (select id from orders) as a',
    'with c as (select id from orders) select * from c', 'select id from orders union select id from items',
    'select cast(id as int) as a from orders', 'select * from orders where id = ?', 'show tables',
    'select * from x.y.orders', "select interval '1 day' from orders", 'select count(*) from orders group by id',
]
PROBE_PLAN = [
    'select * from int1.t1 a join int2.t2 b on a.id = b.id', 'select * from t1 where a = 1',
    'with t1 as (select a from int2.t2) select * from t1 join int1.y on t1.a = y.a', 'select * from t1',
    'select * from int1.t1 a join mindsdb.pred m on m.id = a.id', 'select * from int1.t1 union select * from int2.t2',
    'select * from int1.t1 where a in (select b from int2.t2)', 'insert into int1.t1 (a, b) values (1, 2)',
    'insert into int1.t1 select * from int2.t2', 'update int1.t1 set a = 1 where b = 2', 'delete from int1.t1 where a = 1',
    'create table int1.t1 (select * from int2.t2)', 'select * from mindsdb.pred where a = 1', 'select 1', 'show tables',
    'select * from nosuch.t1 join int9.t2', 'select * from int1.t1 where a = ? and b = ?',
]
PROBE_PARSE = PROBE_RENDER[:12] + PROBE_PLAN[:6] + ['', 'CREATE', 'select * from', 'select 1 1', "select 'x",
                                                      'select * from t t t']


def _probe(spec, calls, acc):
    """probe_session that records a failure of the probe itself (an object that cannot be constructed any more) as a row
    `!error` — Props/C20B pins the list of rows, so only C20 reports it"""
    try:
        probe_session(spec, calls, acc)
    except Exception as e:
        acc.setdefault((CLASS_OF.get(spec[0], 'Parser'), '!error'), dict(reads={type(e).__name__}, writes=set()))


def probe_table():
    """{class label: {entry point: {'reads': [...], 'writes': [[attr, path], ...]}}} over the fixed probe set"""
    acc = {}
    for d in RENDER_DIALECTS:
        calls = []
        for sql in PROBE_RENDER:
            calls += [['get_string', sql, True], ['get_exec_params', sql, False]]
        calls += [['get_string', sql, False] for sql in PROBE_RENDER[:7]]    # DDL again, strict
        _probe(('render', d), calls, acc)
    for c in sorted(CATALOGS):
        calls = []
        for sql in PROBE_PLAN:
            n = _nparams(sql)
            params = [10 + i for i in range(n)] if n else None
            calls += [['from_query', sql], ['prepared', sql, params]]
        calls += [[k, sql] for sql in PROBE_PLAN[:4] for k in ('prepare_info', 'prepare_abandon', 'from_query')]
        _probe(('planner', c), calls, acc)
        # the other order on a second object (a call that stores what the previous call already stored changes nothing)
        _probe(('planner', c), [x for i in range(0, len(calls) - 1, 2) for x in (calls[i + 1], calls[i])], acc)
    for d in PARSE_DIALECTS:
        calls = []
        for sql in PROBE_PARSE:
            calls += [['parse', sql], ['tokenize', sql]]
        _probe(('parser', d), calls, acc)
    table = {}
    for (label, call), row in acc.items():
        table.setdefault(label, {})[call] = dict(reads=sorted(row['reads']), writes=sorted(list(w) for w in row['writes']))
    return table


# ----------------------------------------------------------------------------------------------- diagnosis
def _restores(spec, history, call, want, idx, name):
    """does resetting attribute `name` of traced object `idx` (to that of a new object) after `history` restore `want`?"""
    obj = make(spec)
    for c in history:
        do_call(obj, c)
    target = traced_objects(spec, obj)[idx][1]
    donor = traced_objects(spec, make(spec))[idx][1]
    if name in vars(donor):
        object.__setattr__(target, name, vars(donor)[name])
    else:
        try:
            object.__delattr__(target, name)
        except AttributeError:
            return False
    return do_call(obj, call) == want


def diagnose(spec, history, call, want, hint=None):
    """which attribute of the reused object makes `call` after `history` differ from `want` (the fresh result):
    attributes are reset, one at a time, to those of a fresh object; returns the sorted list of attribute names
    ('Class.attr') whose reset alone restores the fresh result.  `hint`: a list returned earlier for the same kind of
    object — if each of its attributes restores the result it is returned without looking at the others."""
    fresh = make(spec)
    labels = [l for l, _ in traced_objects(spec, fresh)]
    if hint:
        if all(a.split('.', 1)[0] in labels and
               _restores(spec, history, call, want, labels.index(a.split('.', 1)[0]), a.split('.', 1)[1]) for a in hint):
            return list(hint)
    causes = []
    for idx, label in enumerate(labels):
        probe = make(spec)
        for c in history:
            do_call(probe, c)
        o = traced_objects(spec, probe)[idx][1]
        f = traced_objects(spec, fresh)[idx][1]
        for name in sorted(set(vars(o)) | set(vars(f))):
            try:
                if name in vars(o) and name in vars(f) and _flat(vars(o)[name], 0, ()) == _flat(vars(f)[name], 0, ()):
                    continue
            except Exception:
                pass
            if _restores(spec, history, call, want, idx, name):
                causes.append('%s.%s' % (label, name))
    return causes


def shrink(spec, history, call, want):
    """a shortest history found greedily (single predecessor first, then dropping calls one at a time) after which
    `call` still differs from `want`"""
    def differs(h):
        obj = make(spec)
        for c in h:
            do_call(obj, c)
        return do_call(obj, call) != want
    for c in history:
        if differs([c]):
            return [c]
    h = list(history)
    i = 0
    while i < len(h):
        cand = h[:i] + h[i + 1:]
        if differs(cand):
            h = cand
        else:
            i += 1
    return h
