"""Harness pieces shared by C10 / C11: catalogs, the walker's view of a real tree (`abstract`),
query generator over table positions x spellings, real-side probes, spec resolver."""
import copy, json, re
from tools.harness import common

# ------------------------------------------------------------------ names
def enc(s):
    return [ord(c) for c in s]


def dec(a):
    return ''.join(chr(c) for c in a)


def enc_opt(s):
    return None if s is None else enc(s)


# ------------------------------------------------------------------ catalogs
class Cat:
    """a catalog in the three forms needed: plan_query kwargs, model JSON, spec view"""

    TS = {'timeseries': True, 'order_by_column': 'y', 'group_by_columns': ['x'], 'window': 3}

    def __init__(self, ints, pns, pm, dns, extras=None):
        # ints: None | list of ('n', name) | ('d', name, type, class_type|None)
        # pm: None | ('list'|'legacy', [(name, integ|None)])
        # extras: {model name: further metadata (e.g. Cat.TS for a time-series model)} — irrelevant for resolution
        self.extras = dict(extras or {})
        if pm is not None and pm[0] == 'legacy':     # a dict: a repeated key keeps its first position and the last value
            d = {}
            for n, i in pm[1]:
                d[n] = i
            pm = ('legacy', list(d.items()))
        self.ints, self.pns, self.pm, self.dns = ints, pns, pm, dns

    def kwargs(self):
        kw = {}
        if self.ints is not None:
            l = []
            for it in self.ints:
                if it[0] == 'n':
                    l.append(it[1])
                else:
                    d = {'name': it[1], 'type': it[2]}
                    if it[3] is not None:
                        d['class_type'] = it[3]
                    l.append(d)
            kw['integrations'] = l
        if self.pns is not None:
            kw['predictor_namespace'] = self.pns
        if self.pm is not None:
            kind, ps = self.pm
            if kind == 'list':
                kw['predictor_metadata'] = [dict({'name': n}, **({'integration_name': i} if i is not None else {}),
                                                 **self.extras.get(n, {})) for n, i in ps]
            else:
                kw['predictor_metadata'] = {n: dict(({'integration_name': i} if i is not None else {}), **self.extras.get(n, {}))
                                            for n, i in ps}
        if self.dns is not None:
            kw['default_namespace'] = self.dns
        return kw

    def model(self):
        ints = None
        if self.ints is not None:
            ints = [['n', enc(it[1])] if it[0] == 'n' else ['d', enc(it[1]), enc(it[2]), enc_opt(it[3])]
                    for it in self.ints]
        pm = None
        if self.pm is not None:
            ps = self.pm[1]
            if self.pm[0] == 'legacy':       # a dict: a repeated key keeps its first position and the last value
                d = {}
                for n, i in ps:
                    d[n] = i
                ps = list(d.items())
            pm = [self.pm[0], [[enc(n), enc_opt(i)] for n, i in ps]]
        return dict(ints=ints, pns=enc_opt(self.pns), pm=pm, dns=enc_opt(self.dns))

    def key(self):
        return json.dumps(self.model())

    # ---- spec view (independent of the planner): which databases exist, which are data integrations
    def spec(self):
        integ, projects = {}, {'mindsdb'}
        for it in self.ints or []:
            if it[0] == 'n':
                integ[it[1].lower()] = None
            elif it[2] != 'data':
                projects.add(it[1].lower())
            else:
                integ[it[1].lower()] = it[3]
        pns = self.pns.lower() if self.pns else 'mindsdb'
        models = []
        if self.pm is not None:
            for n, i in self.pm[1]:
                if self.pm[0] == 'legacy' and '.' in n:
                    continue
                proj = i if i is not None else pns
                models.append((proj, n))
                projects.add(proj.lower())
        return dict(integrations=integ, projects=projects, models=models,
                    dns=self.dns.lower() if isinstance(self.dns, str) else self.dns)   # lower-cased like every catalog name (10d49ed)


def spec_resolve(sp, parts):
    """the property's resolution rule: first part matched case-insensitively against the known
    integrations and projects, otherwise the default namespace.  -> (database|None, rest)"""
    if len(parts) > 1 and isinstance(parts[0], str):
        p = parts[0].lower()
        if p in sp['integrations'] or p in sp['projects']:
            return p, list(parts[1:])
    return sp['dns'], list(parts)


def spec_model(sp, parts):
    """model record a reference denotes: (project, name as written, version) or None"""
    parts = [p for p in parts]
    if not parts or not all(isinstance(p, str) for p in parts):
        return None
    version = None
    if len(parts) > 1 and parts[-1].isdigit():
        version, parts = parts[-1], parts[:-1]
    name = parts[-1]
    ns = parts[-2] if len(parts) > 1 else sp['dns']
    for proj, n in reversed(sp['models']):
        if n.lower() == name.lower() and ns is not None and proj.lower() == ns.lower():
            return proj, name, version
    return None


def gen_catalog(rng, rich=True):
    r = rng.random()
    names = ['int1', 'int2']
    if rng.random() < 0.3:
        names.append('proj')
    form = rng.choice(['names', 'dicts', 'mixed', 'upper'])
    ints = []
    for n in names:
        sp = n.upper() if form == 'upper' or rng.random() < 0.1 else n
        if n == 'proj' and rng.random() < 0.7:
            ints.append(('d', sp, 'project', None))
            continue
        f = form if form != 'mixed' else rng.choice(['names', 'dicts'])
        if f in ('names', 'upper'):
            ints.append(('n', sp))
        else:
            ct = rng.choice([None, 'sql', 'sql', 'api' if rich and rng.random() < 0.3 else 'sql'])
            ints.append(('d', sp, 'data', ct))
    if rng.random() < 0.05:
        ints = None
    pm = None
    r = rng.random()
    if r < 0.6:
        kind = rng.choice(['list', 'legacy'])
        ps = [('pred', rng.choice(['mindsdb', None, 'proj', 'mlflow', 'MindsDB', 'Proj', 'MLflow', 'Proj']))]
        if rng.random() < 0.4:
            ps.append((rng.choice(['m2', 'Pred', 'pred']), rng.choice(['mindsdb', 'proj', None])))
        if kind == 'legacy' and rng.random() < 0.15:
            ps.append(('proj.dotted', rng.choice([None, 'proj'])))
        pm = (kind, ps)
    pns = rng.choice([None, None, 'mindsdb', 'MINDSDB', 'proj', ''])
    dns = rng.choice([None, 'mindsdb', 'mindsdb', 'int1', 'proj', 'int2', 'files', 'Proj'])
    if pm is not None and pm[0] == 'list' and any(i and i != i.lower() for _, i in pm[1]) and rng.random() < 0.7:
        # the model's project is spelled with capitals and registered nowhere else; default namespace = a data integration
        dns = rng.choice(['int1', 'int2'])
        ints = [it for it in (ints or []) if it[1].lower() != 'proj']
    return Cat(ints, pns, pm, dns)


def safe_upper(name):
    """upper-case spelling that `str.lower` maps back to the same string (plain `.upper()` on ASCII names; `ß`, ligatures,
    final sigma … stay as they are)"""
    return ''.join(ch.upper() if len(ch.upper()) == 1 and ch.upper().lower() == ch.lower() and ch.upper() != 'Σ' else ch for ch in name)


def variants(cat):
    """catalog representations that must not change routing (names<->dicts, case, list<->legacy, None<->[])"""
    out = []
    if cat.ints is not None:
        out.append(('names->dicts', Cat([('d', it[1], 'data', None) if it[0] == 'n' else it for it in cat.ints],
                                        cat.pns, cat.pm, cat.dns, cat.extras)))
        out.append(('dicts->names', Cat([('n', it[1]) if it[0] == 'd' and it[2] == 'data' and it[3] is None else it
                                         for it in cat.ints], cat.pns, cat.pm, cat.dns, cat.extras)))
        out.append(('upper', Cat([(it[0], safe_upper(it[1])) + tuple(it[2:]) for it in cat.ints], cat.pns, cat.pm, cat.dns, cat.extras)))
        if cat.ints == []:
            out.append(('[]->None', Cat(None, cat.pns, cat.pm, cat.dns, cat.extras)))
    if cat.pm is not None and all('.' not in n for n, _ in cat.pm[1]) and len({n for n, _ in cat.pm[1]}) == len(cat.pm[1]):
        other = 'legacy' if cat.pm[0] == 'list' else 'list'
        out.append(('list<->legacy', Cat(cat.ints, cat.pns, (other, cat.pm[1]), cat.dns, cat.extras)))
    return out


# ------------------------------------------------------------------ the walker's view of a real tree
def _ast():
    from mindsdb_sql.parser import ast
    return ast


def _children_generic(node):
    """every ASTNode directly held by an attribute (through lists / tuples / dicts), except `alias`"""
    from mindsdb_sql.parser.ast.base import ASTNode
    out = []

    def rec(v):
        if type(v).__name__ == 'CommonTableExpression':     # not a node of the walker: its query is visited from Select
            for k2, v2 in vars(v).items():
                if k2 != 'alias':
                    rec(v2)
        elif isinstance(v, ASTNode):
            out.append(v)
        elif isinstance(v, (list, tuple)):
            for x in v:
                rec(x)
        elif isinstance(v, dict):
            for x in v.values():
                rec(x)
    for k, v in vars(node).items():
        if k == 'alias':
            continue
        rec(v)
    return out


_CASE_ORDER = None


def case_order():
    """which of Case.arg / rules / default the live `query_traversal` visits, in its order"""
    global _CASE_ORDER
    if _CASE_ORDER is None:
        from mindsdb_sql.planner.utils import query_traversal
        A = _ast()
        node = A.Case(rules=[[A.Identifier('p_rules'), A.Identifier('p_rules')]], default=A.Identifier('p_default'),
                      arg=A.Identifier('p_arg'))
        seen = []

        def cb(n, **kw):
            if isinstance(n, A.Identifier) and n.parts[0][2:] not in seen:
                seen.append(n.parts[0][2:])
        query_traversal(node, cb)
        _CASE_ORDER = seen
    return _CASE_ORDER


_ORDERS = {}


def clause_order(kind):
    """the order in which the live `query_traversal` visits the clauses of a Select / Join / Update, probed once with
    marker identifiers (and marker constants for LIMIT / OFFSET); a clause the walker does not visit is absent"""
    if kind not in _ORDERS:
        from mindsdb_sql import parse_sql
        from mindsdb_sql.planner.utils import query_traversal
        A = _ast()
        sql = {
            'Select': 'WITH c AS (SELECT p_cte FROM zz) SELECT p_targets FROM p_from WHERE p_where = 1 GROUP BY p_group '
                      'HAVING p_having = 1 ORDER BY p_order LIMIT 777 OFFSET 888',
            'Join': 'SELECT 1 FROM p_left JOIN p_right ON p_condition = 1',
            'Update': 'UPDATE p_table SET a = p_set FROM (SELECT 1 FROM p_fromselect) AS s WHERE p_where = 1',
        }[kind]
        seen = []

        def cb(n, **kw):
            tag = None
            if isinstance(n, A.Identifier) and isinstance(n.parts[0], str) and n.parts[0].startswith('p_'):
                tag = n.parts[0][2:]
            elif isinstance(n, A.Constant) and n.value in (777, 888):
                tag = 'limit' if n.value == 777 else 'offset'
            if tag and tag not in seen:
                seen.append(tag)
        query_traversal(parse_sql(sql, 'mindsdb'), cb)
        _ORDERS[kind] = seen
    return _ORDERS[kind]


def walker_children(node):
    """(kind, par, [(slot, child)]) — the branch of `query_traversal` for this class, callbacks returning None.
    Which clauses of Select / Join / Update / Case are visited, and in which order, is probed from the live walker
    (`clause_order`, `case_order`); the roles (table / target / other) are transcribed."""
    A = _ast()
    vis = []
    kind, par = 'P', None
    if isinstance(node, A.Select):
        kind = 'S'
        par = 'j' if isinstance(node.from_table, A.Join) else 's'
        clauses = {
            'from': [('t', node.from_table)] if node.from_table is not None else [],
            'targets': [('g', t) for t in node.targets],
            'cte': [('a', c.query) for c in (node.cte or [])],
            'where': [('a', node.where)] if node.where is not None else [],
            'group': [('a', x) for x in (node.group_by or [])],
            'having': [('a', node.having)] if node.having is not None else [],
            'order': [('a', x) for x in (node.order_by or [])],
            'limit': [('a', node.limit)] if node.limit is not None else [],
            'offset': [('a', node.offset)] if node.offset is not None else [],
        }
        for c in clause_order('Select'):
            vis += clauses.get(c, [])
    elif isinstance(node, (A.Union, A.Intersect, A.Except)):
        kind, par = 'S', 'n'
        if getattr(node, 'cte', None) is not None:
            vis += [('a', c.query) for c in node.cte]
        vis += [('a', node.left), ('a', node.right)]
    elif isinstance(node, A.Join):
        clauses = {'left': [('t', node.left)], 'right': [('t', node.right)],
                   'condition': [('a', node.condition)] if node.condition is not None else []}
        for c in clause_order('Join'):
            vis += clauses.get(c, [])
    elif isinstance(node, (A.Function, A.BinaryOperation, A.UnaryOperation, A.BetweenOperation, A.Exists, A.NotExists)):
        if isinstance(node, A.Function):
            kind = 'F'
        vis = [('a', x) for x in node.args]
        if isinstance(node, A.Function) and node.from_arg is not None:
            vis.append(('a', node.from_arg))
    elif isinstance(node, A.WindowFunction):
        vis = [('a', node.function)]
        vis += [('a', x) for x in (node.partition or [])]
        vis += [('a', x) for x in (node.order_by or [])]
    elif isinstance(node, A.TypeCast):
        vis = [('a', node.arg)]
    elif isinstance(node, A.Tuple):
        vis = [('a', x) for x in node.items]
    elif isinstance(node, A.Insert):
        kind, par = 'S', 'n'
        if node.table is not None:
            vis.append(('t', node.table))
        if node.values is not None:
            vis += [('a', x) for row in node.values for x in row]
        if node.from_select is not None:
            vis.append(('a', node.from_select))
    elif isinstance(node, A.Update):
        kind, par = 'S', 'n'
        clauses = {'table': [('t', node.table)] if node.table is not None else [],
                   'where': [('a', node.where)] if node.where is not None else [],
                   'set': [('a', v) for v in (node.update_columns or {}).values()],
                   'fromselect': [('a', node.from_select)] if node.from_select is not None else []}
        for c in clause_order('Update'):
            vis += clauses.get(c, [])
    elif isinstance(node, A.CreateTable):
        kind, par = 'S', 'n'
        vis += [('a', x) for x in (node.columns or [])]
        if node.name is not None:
            vis.append(('t', node.name))
        if node.from_select is not None:
            vis.append(('a', node.from_select))
    elif isinstance(node, A.Delete):
        kind, par = 'S', 'n'
        if node.table is not None:
            vis.append(('t', node.table))
        if node.where is not None:
            vis.append(('a', node.where))
    elif isinstance(node, A.OrderBy):
        if node.field is not None:
            vis = [('a', node.field)]
    elif isinstance(node, A.Case):
        # the order in which the live walker visits (arg, rules, default) is probed once (Case.arg was not
        # visited at all before the walker was repaired)
        for what in case_order():
            if what == 'arg' and node.arg is not None:
                vis.append(('a', node.arg))
            elif what == 'rules':
                for c, r in node.rules:
                    vis += [('a', c), ('a', r)]
            elif what == 'default' and node.default is not None:
                vis.append(('a', node.default))
    from mindsdb_sql.parser.ast.base import ASTNode
    vis = [(s, c) for s, c in vis if isinstance(c, ASTNode)]
    seen = {id(c) for _, c in vis}
    skipped = [('k', c) for c in _children_generic(node) if id(c) not in seen]
    return kind, par, vis + skipped


def is_udf(node):
    return node.namespace is not None or str(node.op).lower() in ('llm',)


def abstract(node):
    """real tree -> model NODE (JSON form)"""
    A = _ast()
    if isinstance(node, A.Identifier):
        parts = [p for p in node.parts if isinstance(p, str)]
        star = any(not isinstance(p, str) for p in node.parts)
        alias = None
        if node.alias is not None:
            alias = [enc(str(p)) for p in node.alias.parts]
        return ['I', [enc(p) for p in parts], star, alias]
    if isinstance(node, (A.NativeQuery, A.Data)):
        return ['N']
    if isinstance(node, list):
        return ['P', [['a', abstract(x)] for x in node]]
    kind, par, kids = walker_children(node)
    if not kids and kind == 'P':
        return ['L']
    ks = [[s, abstract(c)] for s, c in kids]
    if kind == 'F':
        return ['F', bool(is_udf(node)), ks]
    if kind == 'S':
        return ['S', par, ks]
    return ['P', ks]


def idents_of(node):
    """all identifiers of a real tree in the order of `abstract` : (parts, star, alias|None) as the driver prints them"""
    A = _ast()
    out = []

    def rec(n):
        if isinstance(n, A.Identifier):
            parts = [p for p in n.parts if isinstance(p, str)]
            star = any(not isinstance(p, str) for p in n.parts)
            alias = [str(p) for p in n.alias.parts] if n.alias is not None else None
            out.append((parts, star, alias))
            return
        if isinstance(n, (A.NativeQuery, A.Data)):
            return
        if isinstance(n, list):
            for x in n:
                rec(x)
            return
        for _, c in walker_children(n)[2]:
            rec(c)
    rec(node)
    return out


def model_idents(js):
    return [([dec(p) for p in parts], star, None if alias is None else [dec(p) for p in alias])
            for parts, star, alias in js]


def table_refs(node, path=()):
    """every identifier in table position of a real tree, found structurally (NOT with query_traversal):
    yields (identifier, path of (class, attr) from the root)"""
    A = _ast()
    from mindsdb_sql.parser.ast.base import ASTNode
    out = []

    def rec(n, path, is_tab):
        if isinstance(n, A.Identifier):
            if is_tab:
                out.append((n, path))
            return
        if isinstance(n, (list, tuple)):
            for x in n:
                rec(x, path, is_tab)
            return
        if isinstance(n, dict):
            for x in n.values():
                rec(x, path, False)
            return
        if not isinstance(n, ASTNode):
            return
        cls = type(n).__name__
        for k, v in vars(n).items():
            if k == 'alias' or (cls in ('Exists', 'NotExists') and k == 'query'):   # Exists.query duplicates args[0]; printing uses args
                continue
            tab = (cls == 'Select' and k == 'from_table') or (cls == 'Join' and k in ('left', 'right')) or \
                  (cls in ('Insert', 'Update', 'Delete') and k == 'table') or (cls == 'CreateTable' and k == 'name')
            rec(v, path + ((cls, k),), tab)
    rec(node, path, False)
    return out


def all_identifiers(node):
    """every Identifier of a real tree with its path (generic traversal)"""
    A = _ast()
    from mindsdb_sql.parser.ast.base import ASTNode
    out = []

    def rec(n, path):
        if isinstance(n, A.Identifier):
            out.append((n, path))
            return
        if isinstance(n, (list, tuple)):
            for x in n:
                rec(x, path)
            return
        if isinstance(n, dict):
            for x in n.values():
                rec(x, path)
            return
        if not isinstance(n, ASTNode):
            return
        cls = type(n).__name__
        for k, v in vars(n).items():
            if k == 'alias' or (cls in ('Exists', 'NotExists') and k == 'query'):
                continue
            rec(v, path + ((cls, k),))
    rec(node, ())
    return out


def all_aliases(node):
    """lower-cased aliases (of anything) in a real tree"""
    from mindsdb_sql.parser.ast.base import ASTNode
    out = set()

    def rec(n):
        if isinstance(n, ASTNode):
            a = getattr(n, 'alias', None)
            if a is not None and getattr(a, 'parts', None):
                out.add(str(a.parts[-1]).lower())
            for k, v in vars(n).items():
                if k != 'alias':
                    rec(v)
        elif isinstance(n, (list, tuple)):
            for x in n:
                rec(x)
        elif isinstance(n, dict):
            for x in n.values():
                rec(x)
    rec(node)
    return out


# ------------------------------------------------------------------ query generator
SCHEMA = {
    'int1': {'t': ['id', 'x', 'y'], 's': ['id', 'x', 'z'], 'u': ['id', 'w', 'y']},
    'int2': {'t2': ['id', 'a', 'b'], 's2': ['id', 'a', 'c']},
}


def spell(rng, name, mode=None):
    mode = mode or rng.choice(['lower', 'lower', 'upper', 'mixed', 'quoted', 'quotedupper'])
    if mode == 'lower':
        return name
    if mode == 'upper':
        return name.upper()
    if mode == 'mixed':
        return ''.join(c.upper() if rng.random() < 0.5 else c for c in name)
    if mode == 'quoted':
        return '`%s`' % name
    return '`%s`' % name.upper()


class QGen:
    """typed generator: every table reference knows the integration it is meant for"""

    def __init__(self, rng, cat, single=None, adversarial=0.0, allow_models=True, spellings=True):
        self.rng, self.cat, self.single = rng, cat, single
        self.adv = adversarial
        self.allow_models = allow_models
        self.spellings = spellings
        self.alias_n = 0
        self.features = set()

    def integ(self):
        if self.single:
            return self.single
        return self.rng.choice(['int1', 'int1', 'int2'])

    def tref(self, db=None, alias=None, force_alias=False):
        """-> dict(sql, db, table, exposed, cols, qual)"""
        rng = self.rng
        db = db or self.integ()
        table = rng.choice(sorted(SCHEMA[db]))
        omit = self.cat.dns == db and rng.random() < 0.4
        q = None if omit else (spell(rng, db) if self.spellings else db)
        sql = table if q is None else '%s.%s' % (q, table)
        if alias is None and (force_alias or rng.random() < 0.5):
            if rng.random() < self.adv:
                alias = db if rng.random() < 0.7 else db.upper()
                self.features.add('alias=integration')
            else:
                self.alias_n += 1
                alias = 'a%d' % self.alias_n
        if alias:
            sql += ' AS %s' % alias
        return dict(sql=sql, db=db, table=table, alias=alias, exposed=alias or table, cols=SCHEMA[db][table], qual=q)

    def col(self, tr, c=None, style=None):
        rng = self.rng
        c = c or rng.choice(tr['cols'])
        style = style or rng.choice(['bare', 'tab', 'tab', 'full'])
        if style == 'full' and tr['alias'] is None:
            q = spell(rng, tr['db']) if self.spellings else tr['db']
            return '%s.%s.%s' % (q, tr['table'], c)
        if style == 'bare':
            return c
        return '%s.%s' % (tr['exposed'], c)

    def qcol(self, tr, c=None):
        """a column reference that is never ambiguous: qualified"""
        return self.col(tr, c, style=self.rng.choice(['tab', 'tab', 'full']))

    def scalar_sub(self, db=None):
        tr = self.tref(db)
        c = self.rng.choice(tr['cols'])
        return '(SELECT max(%s) FROM %s)' % (self.col(tr, c, 'tab'), tr['sql']), tr

    def cond(self, trs, depth=0):
        rng = self.rng
        tr = rng.choice(trs)
        c = self.qcol(tr) if len(trs) > 1 else self.col(tr)
        r = rng.random()
        if depth < 1 and r < 0.07 and not self.single:
            # a sub-query that ITSELF joins a table of one integration with a table of another one
            a = self.tref(db=tr['db'], force_alias=True)
            other = 'int2' if tr['db'] == 'int1' else 'int1'
            b = self.tref(db=other if rng.random() < 0.8 else tr['db'], force_alias=True)
            self.features.add('sub:where-in-join')
            return '%s IN (SELECT %s FROM %s JOIN %s ON %s = %s)' % (
                c, self.col(a, 'id', 'tab'), a['sql'], b['sql'], self.col(a, 'id', 'tab'), self.col(b, 'id', 'tab'))
        if depth < 1 and r < 0.22:
            sub = self.tref()
            self.features.add('sub:where-in')
            sc = rng.choice(sub['cols'])
            w = ''
            if rng.random() < 0.3:
                w = ' WHERE %s > 0' % self.col(sub, None, 'tab')
            return '%s IN (SELECT %s FROM %s%s)' % (c, self.col(sub, sc, 'tab'), sub['sql'], w)
        if depth < 1 and r < 0.30:
            s, _ = self.scalar_sub()
            self.features.add('sub:where-scalar')
            return '%s >= %s' % (c, s)
        if depth < 1 and r < 0.36:
            sub = self.tref()
            self.features.add('sub:exists')
            return 'EXISTS (SELECT 1 FROM %s WHERE %s = %s)' % (sub['sql'], self.col(sub, 'id', 'tab'), self.qcol(tr, 'id'))
        if r < 0.5:
            return '%s > %d' % (c, rng.randint(0, 2))
        if r < 0.6:
            return '%s BETWEEN 0 AND %d' % (c, rng.randint(1, 3))
        if r < 0.7 and depth < 2:
            return '%s AND %s' % (self.cond(trs, depth + 1), self.cond(trs, depth + 1))
        if r < 0.75 and depth < 2:
            return '(%s OR %s)' % (self.cond(trs, depth + 1), self.cond(trs, depth + 1))
        if r < 0.8:
            return '%s IS NOT NULL' % c
        return '%s = %d' % (c, rng.randint(0, 2))

    def target(self, trs, i):
        rng = self.rng
        tr = rng.choice(trs)
        multi = len(trs) > 1
        c = self.qcol(tr) if multi else self.col(tr)
        r = rng.random()
        if r < 0.38:
            return c, 'ident'
        if r < 0.47:
            # window function: every combination of PARTITION BY / ORDER BY presence, 1/2/3-part column names
            def wcol():
                t = rng.choice(trs)
                style = rng.choice(['tab', 'full', 'full'] if multi else ['bare', 'tab', 'full', 'full'])
                return self.col(t, None, style)
            has_p, has_o = rng.choice([(False, False), (True, False), (False, True), (False, True), (True, True)])
            over = []
            if has_p:
                over.append('PARTITION BY ' + ', '.join(wcol() for _ in range(rng.choice([1, 1, 2]))))
            if has_o:
                over.append('ORDER BY ' + ', '.join(wcol() + rng.choice(['', ' DESC']) for _ in range(rng.choice([1, 1, 2]))))
            fn = rng.choice(['row_number()', 'count(*)', 'sum(%s)' % wcol(), 'max(%s)' % wcol()])
            self.features.add('window/p=%d,o=%d' % (has_p, has_o))
            return '%s OVER (%s) AS w%d' % (fn, ' '.join(over), i), 'aliased'
        if r < 0.55:
            return '%s AS c%d' % (c, i), 'aliased'
        if r < 0.575 and not self.single:
            a = self.tref(force_alias=True)
            b = self.tref(db='int2' if a['db'] == 'int1' else 'int1', force_alias=True)
            self.features.add('sub:target-join')
            return '(SELECT max(%s) FROM %s JOIN %s ON %s = %s) AS j%d' % (
                self.col(a, None, 'tab'), a['sql'], b['sql'], self.col(a, 'id', 'tab'), self.col(b, 'id', 'tab'), i), 'aliased'
        if r < 0.62:
            self.features.add('sub:target')
            s, _ = self.scalar_sub()
            return '%s AS m%d' % (s, i), 'aliased'
        if r < 0.69:
            self.features.add('sub:case-when')
            s, _ = self.scalar_sub()
            return 'CASE WHEN %s > 1 THEN %s ELSE 0 END AS k%d' % (s, c, i), 'aliased'
        if r < 0.73:
            self.features.add('case-operand-col')
            return 'CASE %s WHEN 1 THEN 10 ELSE 0 END AS k%d' % (c, i), 'aliased'
        if r < 0.77:
            self.features.add('sub:case-operand')
            s, _ = self.scalar_sub()
            return 'CASE %s WHEN 1 THEN 10 ELSE 0 END AS k%d' % (s, i), 'aliased'
        if r < 0.79 and not self.single:
            self.features.add('sub:function-from-arg')      # f(x FROM <subquery>): Function.from_arg is not visited by the walker
            s, _ = self.scalar_sub()
            return 'substring(%s FROM %s) AS h%d' % (c, s, i), 'aliased'
        if r < 0.83:
            self.features.add('sub:function-arg')
            s, _ = self.scalar_sub()
            return 'coalesce(%s, %s) AS f%d' % (s, c, i), 'aliased'
        if r < 0.88:
            return '%s + 1 AS e%d' % (c, i), 'aliased'
        if r < 0.92:
            return 'abs(%s) AS g%d' % (c, i), 'aliased'
        if r < 0.91 and not multi:
            return '%s + 1' % c, 'expr'
        if tr['alias'] is None and rng.random() < 0.6:
            self.features.add('star-qualified')
            return '%s.%s.*' % (spell(rng, tr['db']) if self.spellings else tr['db'], tr['table']), 'star'
        return '%s.*' % tr['exposed'] if (multi or rng.random() < 0.4) else '*', 'star'

    def select(self, depth=0, allow_union=True):
        rng = self.rng
        r = rng.random()
        trs = [self.tref()]
        frm = trs[0]['sql']
        if r < 0.4:
            n = rng.choice([1, 1, 2])
            self.features.add('join')
            for _ in range(n):
                model = self.allow_models and not self.single and rng.random() < 0.15 and self.cat.pm is not None
                if model:
                    self.features.add('model-join')
                    frm += ' JOIN %s' % self.model_ref()
                    continue
                tr = self.tref(force_alias=any(t['table'] == 'XX' for t in trs))
                if any(t['exposed'].lower() == tr['exposed'].lower() for t in trs):
                    self.alias_n += 1
                    tr = self.tref(db=tr['db'], alias='a%d' % self.alias_n)
                jt = rng.choice(['JOIN', 'JOIN', 'LEFT JOIN', 'INNER JOIN'])
                prev = rng.choice(trs)
                on = '%s = %s' % (self.qcol(prev, 'id'), self.qcol(tr, 'id'))
                if rng.random() < 0.12:
                    self.features.add('on-single-column')
                    on = self.col(tr, None, 'tab')
                elif rng.random() < 0.2:
                    on += ' AND %s > 0' % self.qcol(tr)
                frm += ' %s %s ON %s' % (jt, tr['sql'], on)
                trs.append(tr)
        elif r < 0.44 and depth < 1:
            # derived table: its alias is a local name like a table alias — also when it spells the integration
            inner = self.tref()
            if rng.random() < 0.35:
                al = rng.choice([inner['db'], inner['db'].upper()])
                self.features.add('derived-alias=integration')
            else:
                self.alias_n += 1
                al = 'd%d' % self.alias_n
            self.features.add('derived-table')
            c2 = rng.choice(inner['cols'][1:])
            w = ' WHERE %s > 0' % self.col(inner, None, rng.choice(['tab', 'full'])) if rng.random() < 0.3 else ''
            frm = '(SELECT %s, %s FROM %s%s) AS %s' % (self.col(inner, 'id', rng.choice(['bare', 'tab', 'full'])),
                                                       self.col(inner, c2, rng.choice(['bare', 'tab'])), inner['sql'], w, al)
            tg = ['%s.id' % al, '%s.%s' % (al, c2)][:rng.choice([1, 2])]
            where = []
            if rng.random() < 0.5:
                other = self.tref(db=inner['db'] if self.single else None, force_alias=True)
                frm += ' %s %s ON %s.id = %s' % (rng.choice(['JOIN', 'LEFT JOIN']), other['sql'], al, self.col(other, 'id', 'tab'))
                tg.append(self.col(other, None, 'tab'))
            if rng.random() < 0.5:
                e = self.tref(db=inner['db'] if self.single else None, force_alias=True)
                where.append('EXISTS (SELECT 1 FROM %s WHERE %s = %s.id)' % (e['sql'], self.col(e, 'id', 'tab'), al))
            if rng.random() < 0.3:
                where.append('%s.%s > 0' % (al, c2))
            sql = 'SELECT %s FROM %s' % (', '.join(tg), frm)
            if where:
                sql += ' WHERE ' + ' AND '.join(where)
            if rng.random() < 0.3:
                sql += ' ORDER BY %s.id' % al
            return sql, trs, [(t, 'ident') for t in tg]
        elif r < 0.48 and depth < 1:
            self.features.add('sub:from')
            inner, itrs, _ = self.select(depth + 1, allow_union=False)
            self.alias_n += 1
            al = 'q%d' % self.alias_n
            frm = '(%s) AS %s' % (inner, al)
            return 'SELECT * FROM %s' % frm, trs, [('*', 'star')]
        nt = rng.choice([1, 1, 2, 3])
        tg = [self.target(trs, i) for i in range(nt)]
        sql = 'SELECT %s FROM %s' % (', '.join(t for t, _ in tg), frm)
        if rng.random() < 0.55:
            sql += ' WHERE %s' % self.cond(trs, depth)
        if rng.random() < 0.12 and all(k in ('ident',) for _, k in tg):
            sql += ' GROUP BY %s' % ', '.join(t for t, _ in tg)
            self.features.add('group')
        if rng.random() < 0.3:
            t0 = trs[0]
            sql += ' ORDER BY %s' % (self.qcol(t0) if len(trs) > 1 else self.col(t0))
            self.features.add('order')
        if rng.random() < 0.2:
            sql += ' LIMIT %d' % rng.randint(1, 3)
            self.features.add('limit')
        if allow_union and depth == 0 and rng.random() < 0.1:
            self.features.add('union')
            a = self.tref()
            b = self.tref()
            sql = 'SELECT %s FROM %s UNION SELECT %s FROM %s' % (self.col(a, 'id', 'tab'), a['sql'], self.col(b, 'id', 'tab'), b['sql'])
            return sql, [a, b], [('id', 'ident')]
        return sql, trs, tg

    def model_ref(self):
        rng = self.rng
        kind, ps = self.cat.pm
        n, i = rng.choice([x for x in ps if '.' not in x[0]] or [('pred', None)])
        proj = i if i is not None else (self.cat.pns.lower() if self.cat.pns else 'mindsdb')
        parts = []
        if not (self.cat.dns and self.cat.dns.lower() == proj.lower() and rng.random() < 0.5):
            parts.append(spell(rng, proj.lower()) if self.spellings else proj.lower())
        parts.append(spell(rng, n, rng.choice(['lower', 'lower', 'upper'])) if '.' not in n else n)
        if rng.random() < 0.4:
            parts.append(str(rng.randint(1, 12)))
            self.features.add('model-version')
        self.alias_n += 1
        return '.'.join(parts) + ' AS m%d' % self.alias_n

    def model_name(self, ts=None, version=None):
        """one model reference of the catalog: project in any spelling (or omitted under a matching default
        namespace), name in any case, version suffix or none"""
        rng = self.rng
        ps = [x for x in self.cat.pm[1] if '.' not in x[0] and (ts is None or (x[0] in self.cat.extras) == ts)]
        if not ps:
            return None
        n, i = rng.choice(ps)
        proj = i if i is not None else (self.cat.pns.lower() if self.cat.pns else 'mindsdb')
        parts = []
        if not (self.cat.dns and self.cat.dns.lower() == proj.lower() and rng.random() < 0.4):
            parts.append(spell(rng, proj.lower()) if self.spellings else proj.lower())
        parts.append(rng.choice([n, n, n.upper(), n.capitalize()]))
        if version is None:
            version = rng.choice([None, None, '1', '2', '3', '12'])
        if version:
            parts.append(str(version))
        return '.'.join(parts)

    def source_table(self):
        """a data source for a model: a table of an integration, of a PROJECT (a view), of the default namespace, or
        schema-qualified — in any spelling.  -> sql text"""
        rng = self.rng
        sp = self.cat.spec()
        kind = rng.choice(['integration', 'integration', 'project', 'project', 'default', 'schema'])
        if kind == 'project':
            proj = rng.choice(sorted(sp['projects']))
            return '%s.%s' % (spell(rng, proj) if self.spellings else proj, rng.choice(['v1', 'View2']))
        if kind == 'default' and self.cat.dns:
            return rng.choice(['v1', 't', 'View2'])
        tr = self.tref(alias=False)
        if kind == 'schema':
            q = tr['qual'] or tr['db']
            return '%s.%s.%s' % (q, rng.choice(['sch', 'public']), tr['table'])
        return tr['sql']

    def dml_model(self):
        """every DML form around a SELECT that joins a data source with a model — incl. the 'dbt' form
        `(select * from SRC) JOIN <time-series model>` —, sources of every kind (see `source_table`)"""
        rng = self.rng
        src = self.source_table()
        ts = rng.random() < 0.6
        model = self.model_name(ts=ts) or self.model_name(ts=False)
        if model is None:
            return None, None
        shape = rng.choice(['dbt', 'dbt', 'join', 'join-where', 'sub-join'])
        if shape == 'dbt':
            w = rng.choice(['', ' where ta.y > 0', " where ta.y > '2020-01-01'"])
            sel = 'select * from (select * from %s as ta%s) join %s as tb' % (src, w, model)
        elif shape == 'join':
            sel = 'select * from %s as ta join %s as tb' % (src, model)
        elif shape == 'join-where':
            sel = 'select * from %s as ta join %s as tb where ta.y > 0' % (src, model)
        else:
            sel = 'select * from (select * from %s) as ta join %s as tb' % (src, model)
        tgt = self.tref(alias=False)
        form = rng.choice(['plain', 'create', 'create', 'insert-paren', 'insert-paren', 'insert', 'insert-cols', 'update-from', 'delete-sub'])
        self.features.add('dml-model/%s/%s/%s' % (form, shape, 'ts' if ts and self.model_name(ts=True) else 'plain'))
        t = tgt['sql']
        if form == 'plain':
            return sel, 'select'
        if form == 'create':
            return 'create table %s (%s)' % (t, sel), 'create'
        if form == 'insert-paren':
            return 'insert into %s (%s)' % (t, sel), 'insert'
        if form == 'insert':
            return 'insert into %s %s' % (t, sel), 'insert'
        if form == 'insert-cols':
            return 'insert into %s (id) %s' % (t, sel), 'insert'
        if form == 'update-from':
            return 'update %s set %s = 1 from (%s) as src where src.id = %s.id' % (t, tgt['cols'][1], sel, tgt['table']), 'update'
        return 'delete from %s where id in (select id from %s where y > 0)' % (t, src), 'delete'

    def multi_model(self):
        """a statement with SEVERAL model references that differ in version / spelling, on the paths that take the
        version from get_predictor (select from a model, time-series join) and on the ordinary join path"""
        rng = self.rng
        m = lambda **kw: self.model_name(ts=False, **kw)
        sel_m = lambda: 'SELECT * FROM %s WHERE x = %d' % (m(), rng.randint(0, 2))
        shape = rng.choice(['union', 'union3', 'cte', 'where-sub', 'join+sub', 'join-union', 'ts-join', 'ts-union'])
        self.features.add('multi-model/' + shape)
        if m() is None:
            return None
        tr = self.tref(force_alias=True)
        if shape == 'union':
            return '%s UNION %s' % (sel_m(), sel_m())
        if shape == 'union3':
            return '%s UNION ALL %s UNION %s' % (sel_m(), sel_m(), sel_m())
        if shape == 'cte':
            return 'WITH cm AS (%s) %s' % (sel_m(), sel_m())
        if shape == 'where-sub':
            return 'SELECT * FROM %s WHERE %s IN (SELECT id FROM %s WHERE x = 1) AND %s IN (SELECT id FROM %s WHERE x = 2)' % (
                tr['sql'], self.col(tr, 'id', 'tab'), m(), self.col(tr, 'id', 'tab'), m())
        if shape == 'join+sub':
            return 'SELECT * FROM %s JOIN %s AS mm WHERE %s IN (SELECT id FROM %s WHERE x = 1)' % (
                tr['sql'], m(), self.col(tr, 'id', 'tab'), m())
        if shape == 'join-union':
            tr2 = self.tref(force_alias=True)
            return 'SELECT * FROM %s JOIN %s AS mm UNION SELECT * FROM %s JOIN %s AS mm' % (tr['sql'], m(), tr2['sql'], m())
        t1, t2 = self.model_name(ts=True), self.model_name(ts=True)
        if t1 is None:
            return '%s UNION %s' % (sel_m(), sel_m())
        tr2 = self.tref(force_alias=True)
        if shape == 'ts-join':
            return 'SELECT * FROM (SELECT * FROM %s JOIN %s AS tb) AS q1 JOIN (SELECT * FROM %s JOIN %s AS tb) AS q2 ON q1.id = q2.id' % (
                tr['sql'], t1, tr2['sql'], t2)
        return 'SELECT * FROM %s JOIN %s AS tb UNION SELECT * FROM %s JOIN %s AS tb' % (tr['sql'], t1, tr2['sql'], t2)

    def statement(self):
        """-> (sql, kind)"""
        rng = self.rng
        r = rng.random()
        if self.single:
            r = 1.0 if r > 0.12 else 0.11
        if r < 0.05:
            self.features.add('insert-select')
            tgt = self.tref(alias=False)
            sel, _, _ = self.select()
            return 'INSERT INTO %s (id) %s' % (tgt['sql'].split(' AS ')[0], sel), 'insert'
        if r < 0.08:
            self.features.add('update-from')
            tgt = self.tref(alias=False)
            sel, _, _ = self.select(allow_union=False)
            return 'UPDATE %s SET %s = 1 FROM (%s) AS src WHERE src.id = %s.id' % (
                tgt['sql'], tgt['cols'][1], sel, tgt['table']), 'update'
        if r < 0.11:
            self.features.add('delete')
            tgt = self.tref(alias=False)
            return 'DELETE FROM %s WHERE %s' % (tgt['sql'], self.cond([tgt])), 'delete'
        if r < 0.16 and (self.cat.dns is not None):
            self.features.add('cte')
            inner, _, _ = self.select(depth=1, allow_union=False)
            name = rng.choice(['cte1', 'cte1', 'latest', 'logs', 'first', 'status', 'tables', 'last', 'view', 'model'])
            if name != 'cte1':
                self.features.add('cte-keyword-name')
            if rng.random() < self.adv:
                name = self.single or 'int1'
                self.features.add('cte=integration')
            if not self.single and rng.random() < 0.3:
                # the CTE is called like a real table that the main select also uses, qualified
                db = rng.choice(['int1', 'int2'])
                tname = rng.choice(sorted(SCHEMA[db]))
                other = 'int2' if db == 'int1' else 'int1'
                src = self.tref(db=other, alias=False)
                self.features.add('cte-name=table')
                q = spell(rng, db) if self.spellings else db
                return 'WITH %s AS (SELECT * FROM %s) SELECT * FROM %s JOIN %s.%s AS u ON %s.id = u.id' % (
                    tname, src['sql'], tname, q, tname, tname), 'select'
            if rng.random() < 0.5:
                self.features.add('cte-used')
                main = 'SELECT * FROM %s' % name
                if rng.random() < 0.4:
                    tr = self.tref(force_alias=True)
                    main = 'SELECT %s FROM %s AS cq JOIN %s ON 1 = 1' % (self.col(tr, None, 'tab'), name, tr['sql'])
                return 'WITH %s AS (%s) %s' % (name, inner, main), 'select'
            sel, _, tg = self.select(depth=1, allow_union=False)
            return 'WITH %s AS (%s) %s' % (name, inner, sel), 'select'
        if r < 0.2 and self.allow_models and self.cat.pm is not None and not self.single:
            self.features.add('model-select')
            return 'SELECT * FROM %s WHERE x = 1' % self.model_ref().split(' AS ')[0], 'select'
        if r < 0.23 and not self.single:
            self.features.add('udf')
            tr = self.tref()
            return 'SELECT my.fn(%s) FROM %s' % (self.col(tr), tr['sql']), 'select'
        if r < 0.25 and not self.single:
            self.features.add('files')
            return 'SELECT * FROM files.%s' % rng.choice(['f1', 'F2']), 'select'
        sql, _, _ = self.select()
        return sql, 'select'


# ------------------------------------------------------------------ real side
def planner_for(cat, query=None):
    from mindsdb_sql.planner.query_planner import QueryPlanner
    return QueryPlanner(query, **copy.deepcopy(cat.kwargs()))


def real_catalog(cat):
    p = planner_for(cat)
    return dict(integrations={k: (v or {}).get('class_type') for k, v in p.integrations.items()},
                projects=sorted(set(p.projects)),
                predictors={k: v.get('integration_name') for k, v in p.predictor_info.items()},
                dns=p.default_namespace)


def model_catalog(js):
    ints = {}
    for k, v in js['integrations']:
        ints.setdefault(dec(k), None if v is None else dec(v))
    preds = {}
    for k, v in js['predictors']:
        preds.setdefault(dec(k), None if v is None else dec(v))
    return dict(integrations=ints, projects=sorted({dec(p) for p in js['projects']}), predictors=preds,
                dns=None if js['dns'] is None else dec(js['dns']))


def exc_class(e):
    from mindsdb_sql.exceptions import PlanningException
    if isinstance(e, PlanningException):
        return 'planningError'
    if isinstance(e, NotImplementedError):
        return 'notImplemented'
    return 'crash:' + type(e).__name__


def real_table_info(cat, parts, alias):
    """`resolve_table` on an identifier operand: [integration, remaining parts, aliases, bare_name]; None = PlanningException"""
    from mindsdb_sql.parser.ast import Identifier
    from mindsdb_sql.planner.plan_join import PlanJoinTablesQuery
    ident = Identifier(parts=list(parts), alias=Identifier(parts=list(alias)) if alias else None)
    try:
        item = PlanJoinTablesQuery(planner_for(cat)).resolve_table(ident)
        return [item.integration, list(item.table.parts), [list(a) for a in item.aliases], bool(item.bare_name)]
    except Exception as e:
        return None if exc_class(e) == 'planningError' else ('EXC', exc_class(e))


def real_dbt_source(cat, parts, integration):
    """`adapt_dbt_query` on `select * from (select * from <parts> as ta) join m as tb` with the target integration of the
    enclosing CREATE TABLE / INSERT / UPDATE (None outside): the parts of the data source afterwards"""
    from mindsdb_sql.parser.ast import Identifier, Select, Star, Join
    from mindsdb_sql.planner.plan_join_ts import PlanJoinTSPredictorQuery
    inner = Select(targets=[Star()], from_table=Identifier(parts=list(parts), alias=Identifier('ta')))
    q = Select(targets=[Star()], from_table=Join(left=inner, right=Identifier('m', alias=Identifier('tb')), join_type='join'))
    try:
        _, src = PlanJoinTSPredictorQuery(planner_for(cat)).adapt_dbt_query(q, integration)
        return [str(p) for p in src.parts]
    except Exception as e:
        return ('EXC', exc_class(e))


def model_table_info(js):
    if js is None:
        return None
    return [None if js[0] is None else dec(js[0]), [dec(p) for p in js[1]], [[dec(p) for p in a] for a in js[2]], js[3]]


def real_route(cat, parts):
    """the real resolvers / predictor look-ups on an identifier with these parts"""
    from mindsdb_sql.parser.ast import Identifier, Select, Star
    from mindsdb_sql.planner.plan_join import PlanJoinTablesQuery
    from mindsdb_sql.planner import utils
    out = {}
    p = planner_for(cat)
    try:
        db, t = p.resolve_database_table(Identifier(parts=list(parts)))
        out['simple'] = [db, list(t.parts)]
    except Exception as e:
        out['simple'] = None if exc_class(e) == 'planningError' else exc_class(e)
    try:
        step = p.get_integration_select_step(Select(targets=[Star()], from_table=Identifier(parts=list(parts))))
        out['routeSimple'] = ['fetch', step.integration, list(step.query.from_table.parts)]
    except Exception as e:
        out['routeSimple'] = [exc_class(e).split(':')[0]]
    pj = PlanJoinTablesQuery(p)
    try:
        item = pj.resolve_table(Identifier(parts=list(parts)))
        out['join'] = None if item.integration is None else [item.integration, list(item.table.parts)]
    except Exception as e:
        out['join'] = None if exc_class(e) == 'planningError' else exc_class(e)
    p2 = planner_for(cat)
    pj = PlanJoinTablesQuery(p2)
    pj.query_context = {'binary_ops': [], 'use_limit': False}
    pj.step_stack = []
    pj.tables_idx = {}
    try:
        item = pj.resolve_table(Identifier(parts=list(parts)))
        item.index = 0
        pj.process_table(item, Select(targets=[Star()]))
        step = pj.step_stack[-1]
        out['routeJoin'] = ['fetch', step.integration, list(step.query.from_table.parts)]
    except Exception as e:
        out['routeJoin'] = [exc_class(e).split(':')[0]]
    try:
        info = p.get_predictor(Identifier(parts=list(parts)))
        out['pred'] = None if info is None else [info.get('integration_name'), info['name'], info['version']]
    except Exception as e:
        out['pred'] = exc_class(e)
    try:
        if p.get_predictor(Identifier(parts=list(parts))) is None:
            out['predSimple'] = None
        else:
            ns, ident = p.get_predictor_namespace_and_name_from_identifier(Identifier(parts=list(parts)))
            out['predSimple'] = [ns, list(utils.get_predictor_name_identifier(ident).parts)]
    except KeyError:
        out['predSimple'] = None
    except Exception as e:
        out['predSimple'] = exc_class(e)
    try:
        if p.get_predictor(Identifier(parts=list(parts))) is None:
            out['predJoin'] = None
        else:
            item = PlanJoinTablesQuery(p).resolve_table(Identifier(parts=list(parts)))
            out['predJoin'] = None if item.integration is None else [item.integration, list(item.table.parts)]
    except Exception as e:
        out['predJoin'] = None if exc_class(e) == 'planningError' else exc_class(e)
    return out


def model_route(js):
    def res(x):
        return None if x is None else [dec(x[0]), [dec(p) for p in x[1]]]

    def routed(x):
        return [x[0]] if x[0] != 'fetch' else ['fetch', dec(x[1]), [dec(p) for p in x[2]]]
    out = dict(simple=res(js['simple']), join=res(js['join']), routeSimple=routed(js['routeSimple']),
               routeJoin=routed(js['routeJoin']), predSimple=res(js['predSimple']), predJoin=res(js['predJoin']))
    v = js['pred']
    out['pred'] = None if v is None else [None if v[0] is None else dec(v[0]), dec(v[1]), None if v[2] is None else dec(v[2])]
    return out


def real_visit(cat, query):
    """what `find_objects` can see, recorded with the real walker"""
    from mindsdb_sql.planner.utils import query_traversal
    A = _ast()
    items = []

    def cb(node, is_table, **kw):
        if isinstance(node, A.Function) and is_udf(node):
            items.append(['u'])
        if is_table:
            if isinstance(node, A.Identifier):
                items.append(['t', [p for p in node.parts if isinstance(p, str)]])
            if isinstance(node, (A.NativeQuery, A.Data)):
                items.append(['n'])
    query_traversal(query, cb)
    return items


def real_plan_top(cat, query):
    """get_query_info + check_single_integration of the real planner on a copy of the query"""
    A = _ast()
    q = copy.deepcopy(query)
    p = planner_for(cat)
    out = {}
    try:
        info = p.get_query_info(copy.deepcopy(query))
        out['info'] = dict(mdb=len(info['mdb_entities']), ints=sorted(info['integrations'], key=str),
                           preds=len(info['predictors']), udf=len(info['user_functions']))
    except Exception as e:
        out['info'] = None if exc_class(e) == 'planningError' else ('EXC', exc_class(e))
    try:
        step = p.check_single_integration(q)
        if step is None:
            out['single'] = None
            out['idents'] = None
        else:
            out['single'] = step.integration
            out['idents'] = idents_of(step.query)
            out['steps'] = len(p.plan.steps)
    except Exception as e:
        out['single'] = None if exc_class(e) == 'planningError' else ('EXC', exc_class(e))
        out['idents'] = None
    return out


def cte_names(query):
    A = _ast()
    if isinstance(query, A.Select) and query.cte:
        return [str(c.name.parts[-1]) for c in query.cte]
    return []


def plan_summary(plan):
    """routing-relevant view of a real plan"""
    out = []

    def rec(step):
        cls = type(step).__name__
        if cls == 'FetchDataframeStep':
            out.append(('fetch', step.integration, str(step.query) if step.query is not None else step.raw_query))
        elif cls in ('ApplyPredictorStep', 'ApplyPredictorRowStep', 'ApplyTimeseriesPredictorStep', 'GetPredictorColumns'):
            out.append((cls, step.namespace, str(step.predictor)))
        elif cls in ('InsertToTable', 'UpdateToTable', 'DeleteStep', 'SaveToTable', 'CreateTableStep'):
            out.append((cls, str(step.table)))
        elif cls == 'MapReduceStep':
            out.append((cls,))
            for s in (step.step if isinstance(step.step, list) else [step.step]):
                rec(s)
        elif cls == 'MultipleSteps':
            out.append((cls,))
            for s in step.steps:
                rec(s)
        else:
            out.append((cls,))
    for s in plan.steps:
        rec(s)
    return out


def all_steps(plan):
    out = []

    def rec(step):
        out.append(step)
        cls = type(step).__name__
        if cls == 'MapReduceStep':
            for s in (step.step if isinstance(step.step, list) else [step.step]):
                rec(s)
        elif cls == 'MultipleSteps':
            for s in step.steps:
                rec(s)
    for s in plan.steps:
        rec(s)
    return out


# ------------------------------------------------------------------ model variants (pending repairs)
_TABLE_NAMES_ARE_LOCAL = None


def table_names_are_local():
    """does the live `prepare_integration_select` also treat the own name of an unaliased table as a local name
    (fixes/C11_1.diff)?  probed once on `select int1.x from int1.int1`"""
    global _TABLE_NAMES_ARE_LOCAL
    if _TABLE_NAMES_ARE_LOCAL is None:
        from mindsdb_sql import parse_sql
        q = parse_sql('select int1.x from int1.int1', 'mindsdb')
        planner_for(Cat(None, None, None, None)).prepare_integration_select('int1', q)
        _TABLE_NAMES_ARE_LOCAL = len(q.targets[0].parts) == 2
    return _TABLE_NAMES_ARE_LOCAL


def local_names(query, table_names=None):
    """the `names` the live cut works with: lower-cased table aliases and CTE names of a real tree (and, if the
    planner does so, own names of unaliased tables), collected with the real walker"""
    if table_names is None:
        table_names = True      # the live model (bd15793); a planner that regresses diverges and is reported
    from mindsdb_sql.planner.utils import query_traversal
    out = []

    def cb(node, is_table, **kw):
        if is_table and getattr(node, 'alias', None) is not None:
            out.append(str(node.alias.parts[-1]).lower())
        elif is_table and table_names and type(node).__name__ == 'Identifier':
            out.append(str(node.parts[-1]).lower())
        if getattr(node, 'cte', None):
            out.extend(str(c.name.parts[-1]).lower() for c in node.cte)
    query_traversal(copy.deepcopy(query), cb)
    return sorted(set(out))


class Variants:
    """the planner must follow ONE combination of (get_query_info: as pinned '' | bare CTE names skipped 'N')
    x (cut: as pinned '' | alias-aware 'A') on every case"""
    COMBOS = [('', ''), ('', 'A'), ('N', ''), ('N', 'A')]

    def __init__(self):
        self.miss = {c: None for c in self.COMBOS}

    def note(self, combo, why):
        if self.miss[combo] is None:
            self.miss[combo] = why

    def plan_case(self, real, o, ctx):
        def info(v):
            m = o['info' + v]
            if m is None:
                return None
            return dict(mdb=m['mdb'], ints=sorted(dec(x) for x in m['ints']), preds=m['preds'], udf=m['udf'])
        for v, a in self.COMBOS:
            msingle = None if o['single' + v] is None else dec(o['single' + v])
            why = None
            if real['info'] != info(v) and not isinstance(real['info'], tuple):
                why = dict(ctx, field='query_info', impl=real['info'], model=info(v))
            elif real['single'] != msingle and not isinstance(real['single'], tuple):
                why = dict(ctx, field='check_single_integration', impl=real['single'], model=msingle)
            elif msingle is not None and real['idents'] != model_idents(o['idents' + v + a]):
                why = dict(ctx, field='stripped-identifiers', impl=real['idents'], model=model_idents(o['idents' + v + a]))
            elif msingle is not None and real.get('steps') != 1:
                why = dict(ctx, field='steps', impl=real.get('steps'), model=1)
            if why:
                self.note((v, a), why)

    def strip_case(self, real, o, ctx):
        for v, a in self.COMBOS:
            mod = model_idents(o['idents' + a])
            if real != mod:
                self.note((v, a), dict(ctx, field='prepare_integration_select', impl=real, model=mod))

    LIVE = ('N', 'A')      # since 0e75382 / 1ea1207; the older combinations are kept to name a regression

    def verdict(self):
        ok = [c for c in self.COMBOS if self.miss[c] is None]
        name = lambda c: 'get_query_info=%s, cut=%s' % ('cte-skipping' if c[0] else 'as before 0e75382', 'alias-aware' if c[1] else 'as before 1ea1207')
        if self.miss[self.LIVE] is None:
            return True, name(self.LIVE), ''
        if ok:
            return False, None, 'the planner follows an OLDER model variant (%s); vs the live model: %s' % (
                name(ok[0]), json.dumps(self.miss[self.LIVE], default=str)[:700])
        return False, None, '; '.join('%s: %s' % (name(c), json.dumps(self.miss[c], default=str)[:500]) for c in self.COMBOS)


# ====================================================================== round 6
# (a) sub-queries on another integration / on a model nested at every expression position x every pushdown site,
# (b) names with dots, spaces, back-quotes, capitals, reserved words for tables / columns / aliases,
# (c) non-ASCII and case-variant integration / project names; the generic model's `norm` op.

def qn(name, rng=None):
    """a name as it has to be written in SQL: back-quoted unless it is a plain lower-case word (capitalised plain words
    are quoted at random)"""
    plain = re.fullmatch(r'[A-Za-z_][A-Za-z0-9_]*', name) is not None and name.lower() not in _RESERVED
    if plain and (name == name.lower() or rng is None or rng.random() < 0.5):
        return name
    return '`%s`' % name.replace('`', '``')


_RESERVED = {'order', 'select', 'group', 'by', 'from', 'where', 'table', 'first', 'last', 'view', 'status', 'model'}

ODD_SCHEMA = {
    'int1': {'my.tab': ['id', 'a.b', 'x y', 'Up', 'se`q', 'order', 'tick`'],
             'T Able': ['id', 'a.b', 'Mixed.Case', 'x', '`lead'],
             't': ['id', 'x', 'y']},
    'int2': {'o.2': ['id', 'a', 'b.c'], 'T2 x': ['id', 'a.b', 'B']},
}
ODD_ALIASES = ['al.ias', 'A B', 'Tab', 'q`t', 'select', 'x.y.z', 'a1']


class OddGen:
    """selects over tables / columns / aliases whose names contain dots, spaces, back-quotes, capitals or are reserved
    words: whatever identifier the planner MAKES for such a name (the alias that keeps a column name, the table
    identifier without its qualifier, per-table selects of the join planner) has to keep the name as ONE part.
    Column names are always written exactly as declared (engines differ on whose spelling names a result column)."""

    def __init__(self, rng, dbs=('int1',), spell_db=None):
        self.rng, self.dbs = rng, list(dbs)
        self.spell_db = spell_db or (lambda db: db)
        self.used = set()
        self.features = set()

    def tref(self, db=None, alias=None):
        rng = self.rng
        db = db or rng.choice(self.dbs)
        table = rng.choice(sorted(ODD_SCHEMA[db]))
        if alias is None and rng.random() < 0.55:
            alias = rng.choice([a for a in ODD_ALIASES if a.lower() not in self.used] or [None])
        if alias:
            self.used.add(alias.lower())
        q = self.spell_db(db)
        sql = '%s.%s' % (q, qn(table, rng)) + (' AS %s' % qn(alias) if alias else '')
        return dict(sql=sql, db=db, q=q, table=table, alias=alias, exposed=alias or table, cols=ODD_SCHEMA[db][table])

    def col(self, tr, c=None, style=None):
        rng = self.rng
        c = c or rng.choice(tr['cols'])
        style = style or rng.choice(['bare', 'tab', 'tab', 'full'])
        if style == 'full' and tr['alias'] is None:
            return '%s.%s.%s' % (tr['q'], qn(tr['table'], rng), qn(c))
        if style == 'bare':
            return qn(c)
        return '%s.%s' % (qn(tr['exposed'], rng), qn(c))

    def select(self, two=False):
        rng = self.rng
        a = self.tref(db=self.dbs[0])
        shape = rng.choice(['plain', 'plain', 'alias', 'join', 'derived', 'in-sub', 'union', 'cte', 'star'])
        self.features.add('odd/' + shape)
        odd = lambda tr: [c for c in tr['cols'] if c != 'id']
        if shape in ('plain', 'alias', 'star'):
            cs = rng.sample(odd(a), min(len(odd(a)), rng.choice([1, 2, 2, 3])))
            tg = [self.col(a, c) for c in cs]
            if shape == 'alias':
                tg = ['%s AS %s' % (t, qn(rng.choice(['out.col', 'Out Col', 'o`c', 'Z']))) if i == 0 else t for i, t in enumerate(tg)]
            if shape == 'star':
                tg = [rng.choice(['*', '%s.*' % qn(a['exposed'], rng)])]
            sql = 'SELECT %s FROM %s' % (', '.join(tg), a['sql'])
            if rng.random() < 0.5:
                sql += ' WHERE %s > 0' % self.col(a, rng.choice(odd(a)))
            if rng.random() < 0.5:
                sql += ' ORDER BY %s' % self.col(a, 'id')
            return sql
        if shape == 'join':
            b = self.tref(db=self.dbs[-1] if two else self.dbs[0], alias=rng.choice([x for x in ODD_ALIASES if x.lower() not in self.used]))
            if a['alias'] is None and a['table'] == b['table']:
                a = self.tref(db=a['db'], alias='a1' if 'a1' not in self.used else 'Tab')
            tg = [self.col(a, rng.choice(odd(a)), 'tab'), self.col(b, rng.choice(odd(b)), 'tab')]
            sql = 'SELECT %s FROM %s JOIN %s ON %s = %s' % (', '.join(tg), a['sql'], b['sql'], self.col(a, 'id', 'tab'), self.col(b, 'id', 'tab'))
            if rng.random() < 0.4:
                sql += ' WHERE %s > 0' % self.col(a, rng.choice(odd(a)), 'tab')
            return sql
        if shape == 'derived':
            c = rng.choice(odd(a))
            al = qn(rng.choice(['s', 'S q', 'd.t']))
            return 'SELECT %s.%s FROM (SELECT %s, %s FROM %s) AS %s WHERE %s.%s > 0 ORDER BY %s.id' % (
                al, qn(c), self.col(a, c), self.col(a, 'id'), a['sql'], al, al, qn(c), al)
        if shape == 'in-sub':
            b = self.tref(db=self.dbs[-1] if two else self.dbs[0])
            return 'SELECT %s FROM %s WHERE %s IN (SELECT %s FROM %s) ORDER BY %s' % (
                self.col(a, rng.choice(odd(a))), a['sql'], self.col(a, 'id'), self.col(b, 'id', 'bare'), b['sql'], self.col(a, 'id'))
        if shape == 'union':
            b = self.tref(db=self.dbs[-1] if two else self.dbs[0], alias=False)
            ca = rng.choice(odd(a))
            cb = ca if ca in b['cols'] else rng.choice(odd(b))
            return 'SELECT %s FROM %s UNION SELECT %s FROM %s' % (self.col(a, ca), a['sql'], self.col(b, cb, 'bare'), b['sql'])
        c = rng.choice(odd(a))
        w = qn(rng.choice(['w', 'W c', 'c.te']))
        return 'WITH %s AS (SELECT %s, %s FROM %s) SELECT %s FROM %s' % (w, self.col(a, c), self.col(a, 'id'), a['sql'], qn(c), w)


# ---- (a) hidden sub-queries
# value positions: {S} = the foreign sub-query, {c} = a column of the home tables
HIDDEN_VALUE = [
    ('udf', '{udf}({c}, {S})'), ('udf-only', '{udf}({S})'), ('llm', 'llm({S})'), ('udf-nested', '{udf}(abs({S}))'),
    ('fn-in-udf-in-fn', 'abs({udf}({c}, coalesce({S}, 0)))'),
    ('fn', 'coalesce({S}, {c})'), ('fn-nested', 'abs(coalesce({S}, 0))'),
    ('case-operand', 'CASE {S} WHEN 1 THEN 1 ELSE 0 END'), ('case-when', 'CASE WHEN {S} > 1 THEN {c} ELSE 0 END'),
    ('case-then', 'CASE WHEN {c} > 1 THEN {S} ELSE 0 END'), ('case-else', 'CASE WHEN {c} > 1 THEN 0 ELSE {S} END'),
    ('cast', 'CAST({S} AS int)'), ('cast-in-udf', '{udf}(CAST({S} AS int))'),
    ('window-arg', 'sum({S}) OVER (PARTITION BY {c})'), ('window-partition', 'sum({c}) OVER (PARTITION BY {S})'),
    ('window-order', 'sum({c}) OVER (ORDER BY {S})'),
    ('binop', '{c} + {S}'), ('unary', '-{S}'), ('from-arg', 'substring({c} FROM {S})'),
]
# predicate positions
HIDDEN_PRED = [
    ('between', '{c} BETWEEN 0 AND {S}'), ('in-tuple', '{c} IN (1, {S})'), ('not', 'NOT {c} > {S}'),
    ('is-null', '{S} IS NULL'), ('in-sub', '{c} IN {S1}'), ('exists', 'EXISTS {SE}'), ('and-or', '({c} > 0 OR {c} < {S}) AND {c} IS NOT NULL'),
]
HIDDEN_SITES = ['table', 'join1', 'join2', 'join-model', 'derived', 'derived-join1', 'cte', 'union', 'where-sub', 'insert', 'create']


def hidden_statements(rng, cat, clauses=('target', 'where'), sites=None, positions=None):
    """statements in which a sub-query on ANOTHER integration (int2) or on a MODEL is nested at an expression position
    inside a query on int1, for every (position, clause) x every place where the planner decides what to send whole
    -> list of (sql, kind, features)"""
    out = []
    sp = cat.spec()
    models = [(p, n) for p, n in sp['models'] if '.' not in n]
    udfs = ['myproj.fn', 'MyProj.Fn', 'proj.calc', 'mindsdb.f2']
    for site in (sites or HIDDEN_SITES):
        if site == 'join-model' and not models:
            continue
        if site == 'cte' and cat.dns is None:
            continue
        for clause in clauses:
            plist = HIDDEN_VALUE + (HIDDEN_PRED if clause in ('where', 'having') else [])
            if clause != 'target':
                plist = [x for x in plist if not x[0].startswith('window')]      # window functions: select list only
            for pname, tmpl in plist:
                if positions is not None and pname not in positions:
                    continue
                g = QGen(rng, cat, adversarial=0.0)
                a = g.tref(db='int1', force_alias=True)
                b = g.tref(db='int2' if site == 'join2' else 'int1', force_alias=True)
                kind_f = 'model' if (models and rng.random() < 0.4) else 'table'
                if kind_f == 'model':
                    proj, n = rng.choice(models)
                    ref = '%s.%s' % (spell(rng, proj.lower()), rng.choice([n, n.upper()])) + rng.choice(['', '', '.3'])
                    S = '(SELECT p FROM %s WHERE z = 1)' % ref
                    S1 = '(SELECT p FROM %s WHERE z = 2)' % ref
                    SE = '(SELECT p FROM %s WHERE z = 3)' % ref
                else:
                    f = g.tref(db='int2', force_alias=True)
                    fc = rng.choice(f['cols'])
                    S = '(SELECT max(%s) FROM %s)' % (g.col(f, fc, 'tab'), f['sql'])
                    S1 = '(SELECT %s FROM %s)' % (g.col(f, fc, 'tab'), f['sql'])
                    SE = '(SELECT 1 FROM %s WHERE %s = %s)' % (f['sql'], g.col(f, 'id', 'tab'), g.col(a, 'id', 'tab'))
                c = g.col(a, None, 'tab')
                e = tmpl.format(udf=rng.choice(udfs), c=c, S=S, S1=S1, SE=SE)
                is_pred = (pname, tmpl) in HIDDEN_PRED
                tg, where, tail = g.col(a, 'id', 'tab'), '', ''
                if clause == 'target':
                    tg = '%s AS h1' % e
                    if rng.random() < 0.3:
                        where = ' WHERE %s > 0' % c
                elif clause == 'where':
                    where = ' WHERE %s' % (e if is_pred else '%s > 1' % e)
                elif clause == 'having':
                    tail = ' GROUP BY %s HAVING %s' % (tg, e if is_pred else '%s > 1' % e)
                elif clause == 'order':
                    tail = ' ORDER BY %s' % e
                elif clause == 'group':
                    tail = ' GROUP BY %s' % e
                frm = a['sql']
                if site in ('join1', 'join2', 'derived-join1'):
                    frm = '%s JOIN %s ON %s = %s' % (a['sql'], b['sql'], g.col(a, 'id', 'tab'), g.col(b, 'id', 'tab'))
                elif site == 'join-model':
                    proj, n = rng.choice(models)
                    frm = '%s JOIN %s.%s AS mj' % (a['sql'], spell(rng, proj.lower()), n)
                core = 'SELECT %s FROM %s%s%s' % (tg, frm, where, tail)
                kind = 'select'
                if site in ('derived', 'derived-join1'):
                    sql = 'SELECT * FROM (%s) AS dq' % core
                elif site == 'cte':
                    sql = 'WITH hc AS (%s) SELECT * FROM hc' % core
                elif site == 'union':
                    sql = 'SELECT %s FROM %s UNION %s' % (g.col(b, 'id', 'tab'), b['sql'], core)
                elif site == 'where-sub':
                    o = g.tref(db='int2', force_alias=True)
                    sql = 'SELECT * FROM %s WHERE %s IN (%s)' % (o['sql'], g.col(o, 'id', 'tab'), core)
                elif site == 'insert':
                    o = g.tref(db='int2', alias=False)
                    sql, kind = 'INSERT INTO %s (id) %s' % (o['sql'], core), 'insert'
                elif site == 'create':
                    sql, kind = 'CREATE TABLE %s.newt (%s)' % (spell(rng, 'int2'), core), 'create'
                else:
                    sql = core
                out.append((sql, kind, ['hidden/site=%s' % site, 'hidden/pos=%s' % pname, 'hidden/clause=%s' % clause,
                                        'hidden/foreign=%s' % kind_f]))
    return out


def real_plan_join(cat, query):
    """`PlanJoin.check_single_integration` of the real planner on a copy of a select whose FROM is a join, and the
    identifiers of the query it would send (`PlanJoin.plan`: prepare_integration_select on the query itself)"""
    from mindsdb_sql.planner.plan_join import PlanJoin
    q = copy.deepcopy(query)
    p = planner_for(cat)
    try:
        name = PlanJoin(p).check_single_integration(q)
    except Exception as e:
        return dict(single=None if exc_class(e) == 'planningError' else ('EXC', exc_class(e)), idents=None)
    if not name:
        return dict(single=None, idents=None)
    p.prepare_integration_select(name, q)
    return dict(single=name, idents=idents_of(q))


# ---- (c) non-ASCII / case-variant database names
# lower() != casefold(): Straße, Λόγος, ﬁle, ŉame; lower() != ASCII lower: Ärger, Çay, Ǆak (a digraph with a title case); length changes: İzmir
NONASCII_NAMES = ['Stra\u00dfe', '\u039b\u03cc\u03b3\u03bf\u03c2', '\u00c4rger', '\ufb01le', '\u00c7ay', '\u0130zmir', 'Gr\u00f6\u00dfe', '\u0149ame', '\u01c4ak']      # Straße Λόγος Ärger ﬁle Çay İzmir Größe ŉame Ǆak


def case_variant(rng, name):
    """another spelling of `name` that Python's `str.lower` maps to the same string"""
    out = []
    for ch in name:
        alts = [x for x in (ch, ch.upper(), ch.lower(), ch.swapcase()) if len(x) == 1 and x != 'Σ']
        out.append(rng.choice(alts) if rng.random() < 0.6 else ch)
    v = ''.join(out)
    return v if v.lower() == name.lower() else name


def rename_dbs(rng, sql, mapping):
    """replace the database names int1 / int2 / proj of a generated statement, whatever their spelling, by case variants
    of the mapped (non-ASCII) names, back-quoted"""
    def repl(m):
        new = mapping.get(m.group(1).lower())
        if new is None:
            return m.group(0)
        return '`%s`' % case_variant(rng, new)
    return re.sub(r'`?\b(%s)\b`?' % '|'.join(mapping), repl, sql, flags=re.I)


def rename_cat(rng, cat, mapping):
    mp = lambda n: case_variant(rng, mapping[n.lower()]) if isinstance(n, str) and n.lower() in mapping else n
    ints = None if cat.ints is None else [(it[0], mp(it[1])) + tuple(it[2:]) for it in cat.ints]
    pm = None if cat.pm is None else (cat.pm[0], [(n, mp(i)) for n, i in cat.pm[1]])
    return Cat(ints, mp(cat.pns), pm, mp(cat.dns), cat.extras)


def char_table(*texts):
    """Python's `str.lower`, character by character, for every non-ASCII character of the texts (the generators avoid
    the one context-sensitive case, capital sigma)"""
    chars = sorted({ch for t in texts for ch in t if ord(ch) > 127})
    return [[ord(ch), [ord(x) for x in ch.lower()]] for ch in chars]


def cat_texts(cat):
    out = []
    for it in cat.ints or []:
        out.append(it[1])
    out += [x for x in (cat.pns, cat.dns) if isinstance(x, str)]
    if cat.pm is not None:
        for n, i in cat.pm[1]:
            out += [n] + ([i] if i else [])
    return out


def norm_line(cat, ast, sql):
    return json.dumps(dict(op='norm', tbl=char_table(sql, *cat_texts(cat)), cat=cat.model(),
                           ctes=[enc(x) for x in cte_names(ast)], names=[enc(x) for x in local_names(ast)], node=abstract(ast)))


def norm_compare(cat, ast, sql, o):
    """the real planner against the generic model instantiated with Python's `str.lower` at every site -> why | None"""
    A = _ast()
    ctx = dict(sql=sql, catalog=cat.kwargs())
    real_c, mod_c = real_catalog(cat), model_catalog(o)
    if json.dumps(real_c, sort_keys=True) != json.dumps(mod_c, sort_keys=True):
        return dict(ctx, field='catalog', impl=real_c, model=mod_c)
    real = real_plan_top(cat, ast)
    m = o['info']
    minfo = None if m is None else dict(mdb=m['mdb'], ints=sorted(dec(x) for x in m['ints']), preds=m['preds'], udf=m['udf'])
    if real['info'] != minfo and not isinstance(real['info'], tuple):
        return dict(ctx, field='query_info', impl=real['info'], model=minfo)
    msingle = None if o['single'] is None else dec(o['single'])
    if real['single'] != msingle and not isinstance(real['single'], tuple):
        return dict(ctx, field='check_single_integration', impl=real['single'], model=msingle)
    if msingle is not None and real['idents'] != model_idents(o['idents']):
        return dict(ctx, field='stripped-identifiers', impl=real['idents'], model=model_idents(o['idents']))
    if isinstance(ast, A.Select) and isinstance(ast.from_table, A.Join):
        rj = real_plan_join(cat, ast)
        mj = None if o['singleJoin'] is None else dec(o['singleJoin'])
        if rj['single'] != mj and not isinstance(rj['single'], tuple):
            return dict(ctx, field='PlanJoin.check_single_integration', impl=rj['single'], model=mj)
        if mj is not None and rj['idents'] != model_idents(o['identsJoin']):
            return dict(ctx, field='stripped-identifiers (join site)', impl=rj['idents'], model=model_idents(o['identsJoin']))
    return None


def join_site_compare(cat, ast, sql, o):
    """the join planner's own pushdown site against the model (`plan` op, live variant) -> why | None"""
    A = _ast()
    if not (isinstance(ast, A.Select) and isinstance(ast.from_table, A.Join)):
        return None
    rj = real_plan_join(cat, ast)
    mj = None if o['singleJoinN'] is None else dec(o['singleJoinN'])
    ctx = dict(sql=sql, catalog=cat.kwargs())
    if rj['single'] != mj and not isinstance(rj['single'], tuple):
        return dict(ctx, field='PlanJoin.check_single_integration', impl=rj['single'], model=mj)
    if mj is not None and rj['idents'] != model_idents(o['identsJoinNA']):
        return dict(ctx, field='stripped-identifiers (join site)', impl=rj['idents'], model=model_idents(o['identsJoinNA']))
    return None


def pathstr_cases(rng, n=40):
    """names without back-quotes for the `pathstr` op (model `pathParts` vs `path_str_to_parts`)"""
    out = ['a.b', 'a', 'a..b', '.a', 'a.', 'x y.z', 'A.b.C', 'ab', '..', 'a. b']
    while len(out) < n:
        out.append(''.join(rng.choice('ab.X y_1') for _ in range(rng.randint(1, 7))))
    return [x for x in out if x.strip('.') != '' or True]
