"""Round-trip oracle of C01 on the real code, feature extraction, token-level shrinking and the
known-finding class of a failure.  (untrusted: search / classification only)

oracle(dialect, text):
    tree = parse_sql(text)            (rejected texts are outside the property)
    s    = tree.to_string(); tr = tree.to_tree()
    t2   = parse_sql(s)               must succeed                       -> reparse-fail:<Exc>
    t2.to_tree() == tr                                                   -> tree-differs
    t2.to_string() == s   (and str())                                    -> print-unstable
    c = tree.copy(): c.to_string() == s, c.to_tree() == tr               -> copy-differs / copy-crash:<Exc>
    printing itself must not raise                                       -> print-crash:<Exc>
"""
import re
from . import common

_PS = {}


def parse(dialect, text):
    from mindsdb_sql import parse_sql
    return parse_sql(text, dialect)


def lexer_cls(dialect):
    if dialect not in _PS:
        from mindsdb_sql import get_lexer_parser
        lexer, _ = get_lexer_parser(dialect)
        _PS[dialect] = type(lexer)
    return _PS[dialect]


class Fail(dict):
    pass


def oracle(dialect, text, info=None):
    """None = rejected (or empty); 'ok'; or a dict(kind, exc, printed, ...).
    info (optional dict) receives the tree and the text printed first (history-aware observations, tools/harness/printhist.py)"""
    try:
        t = parse(dialect, text)
    except Exception:
        return None
    if t is None:
        return None
    if info is not None:
        info['tree'] = t
    try:
        s = t.to_string()
        if info is not None:
            info['printed'] = s
        tr = t.to_tree()
        st = str(t)
    except Exception as e:
        return dict(kind='print-crash', exc=type(e).__name__, msg=str(e)[:120], tree=t)
    if not isinstance(s, str):
        return dict(kind='print-crash', exc='NotAString', msg=repr(s)[:80], tree=t)
    try:
        t2 = parse(dialect, s)
    except Exception as e:
        return dict(kind='reparse-fail', exc=type(e).__name__, msg=str(e)[:160], printed=s, tree=t, at=caret_token(str(e)))
    if t2 is None:
        return dict(kind='reparse-fail', exc='None', msg='', printed=s, tree=t)
    try:
        tr2 = t2.to_tree()
        s2 = t2.to_string()
        st2 = str(t2)
        hr, hr2 = holder_records(t), holder_records(t2)
    except Exception as e:
        return dict(kind='print-crash', exc=type(e).__name__, msg='second print: ' + str(e)[:100], printed=s, tree=t)
    if tr2 != tr:
        return dict(kind='tree-differs', exc='', printed=s, printed2=s2, tree=t, tree1=tr, tree2=tr2)
    if hr2 != hr:
        return dict(kind='tree-differs', exc='columns', printed=s, printed2=s2, tree=t, tree1=tr, tree2=tr2,
                    msg='column definitions differ: %s' % [(a, b) for a, b in zip(hr, hr2) if a != b][:2].__repr__()[:400] if len(hr) == len(hr2)
                    else 'column definitions differ: %d columns, then %d' % (len(hr), len(hr2)))
    if s2 != s or st2 != st:
        return dict(kind='print-unstable', exc='', printed=s, printed2=s2, tree=t)
    try:
        c = t.copy()
        cs, ct = c.to_string(), c.to_tree()
    except Exception as e:
        return dict(kind='copy-crash', exc=type(e).__name__, msg=str(e)[:120], printed=s, tree=t)
    if cs != s or ct != tr:
        return dict(kind='copy-differs', exc='', printed=s, printed2=cs, tree=t)
    if holder_records(c) != hr:
        return dict(kind='copy-differs', exc='columns', printed=s, printed2=cs, tree=t)
    return 'ok'


def caret_token(msg):
    """the word of the printed text at which the parser gave up (`>text` / `---^` lines of the error message): the symptom
    a shrunk input has to keep when the unconstrained shrink drifted into a known finding of the same kind"""
    lines = msg.split('\n')
    for i, l in enumerate(lines[:-1]):
        m = re.fullmatch(r'(-*)\^+', lines[i + 1] or '')
        if l.startswith('>') and m:
            rest = l[len(m.group(1)):].split()       # `>` takes column 0, the dashes count the columns before the word
            return rest[0].upper() if rest else '<end>'
    return None


def holder_records(tree):
    """attributes of the data holders of a tree that have no to_tree() of their own and that their owner's to_tree() shows
    only in part: TableColumn (CreateTable.to_tree prints `name: type` only — length, DEFAULT, NULL / NOT NULL and the
    primary key are invisible to the to_tree / str comparison, and a printer that drops them prints stably)"""
    out = []
    for n, _, _ in walk_nodes(tree):
        for k, v in sorted(vars(n).items()):
            if isinstance(v, list):
                for y in v:
                    if type(y).__name__ == 'TableColumn':
                        out.append((type(n).__name__, k) + tuple((a, repr(getattr(y, a, None)) if not hasattr(getattr(y, a, None), 'to_tree')
                                                                   else getattr(y, a).to_tree()) for a in sorted(vars(y))))
    return out


def kind_of(r):
    return None if r is None else ('ok' if r == 'ok' else (r['kind'], r['exc']))


# ------------------------------------------------------------------------------------------ features
WORD = re.compile(r'[a-zA-Z_][a-zA-Z_0-9]*')

FEATURES = {
    'param': 'the tree contains a Parameter (`?`)',
    'ident-empty': 'an identifier part is the empty string',
    'ident-bq': 'an identifier part contains a back-quote',
    'key-empty-part': 'a USING / SET parameter name (kept as a dotted string) has an empty part (written a."")',
    'ident-noparts': 'an identifier has no parts at all (built from a double-quoted string consisting of dots)',
    'ident-quoted': 'an identifier part needs quoting (not a plain word: blank, dot, digit first, non-ASCII, ...)',
    'ident-reserved': 'an identifier part is a plain word that parts_to_str back-quotes (reserved word)',
    'col-quoted': 'a column name held as a plain string (INSERT column list, CREATE TABLE column) is not a plain word or is a reserved word',
    'col-nonstr': 'a column of an INSERT column list / CREATE TABLE is not a name at all (constant, expression)',
    'col-default': 'a column definition has a DEFAULT',
    'col-length': 'a column definition has a type with a length',
    'col-pk': 'a column definition is (part of) the primary key',
    'col-null': 'a column definition says NULL / NOT NULL',
    'nested-stmt': 'a non-query statement is nested inside the statement (the grammars let `( statement )` stand for a table / sub-query)',
    'setop-nested': 'a UNION / INTERSECT / EXCEPT node that is not the root (parenthesised set operation as sub-query or operand)',
    'setop-right-nested': 'the right operand of a set operation is itself a set operation (was written in parentheses)',
    'alias-dotted': 'an alias identifier that does not have exactly one part',
    'func-quoted': 'a function whose name is not a plain word, or is one of the clause / operator keywords (was written quoted)',
    'star-part': 'a Star is a part of an identifier that has other parts, or is not the last part',
    'star-name': 'a Star (or an identifier made of a Star) occurs outside a SELECT target list / function argument',
    'str-quote': "a string value contains a single quote",
    'str-dquote': 'a string value contains a double quote',
    'str-bs': 'a string value contains a backslash',
    'str-nl': 'a string value contains a newline or tab',
    'str-empty': 'a string constant is empty',
    'float-exp': 'a float whose repr has an exponent / inf / nan',
    'float': 'a float constant',
    'neg-const': 'a negative numeric constant (folded unary minus)',
    'int-lead0': 'an integer literal written with leading zeros in the source',
    'var-quoted': 'a @variable whose name is not a plain word (was written quoted)',
    'interval': 'an Interval node',
    'offset-bare': 'a SELECT with OFFSET but no WHERE / GROUP BY / HAVING / ORDER BY / LIMIT (OFFSET directly follows a target or table)',
    'native-query': 'a NativeQuery / raw embedded query text',
    'prints-None': "the printed text contains the word None outside quotes",
    'prints-uescape': 'the printed text contains a JSON \\uXXXX escape (non-ASCII text printed by json.dumps)',
    'prints-repr': 'the printed text contains a Python repr leak (`Identifier:<`, `Object(`, `Constant:<`, `{params_str}`)',
}


def _reserved():
    from mindsdb_sql.parser.ast.select.identifier import get_reserved_words
    return get_reserved_words()


def walk_nodes(root):
    """every ASTNode reachable through attributes, lists, tuples and dict values, with its parent chain"""
    from mindsdb_sql.parser.ast.base import ASTNode
    seen = set()
    out = []

    def go(x, parent, attr, depth):
        if depth > 200:
            return
        if isinstance(x, ASTNode):
            if id(x) in seen:
                return
            seen.add(id(x))
            out.append((x, parent, attr))
            for k, v in list(vars(x).items()):
                go(v, x, k, depth + 1)
        elif isinstance(x, (list, tuple, set)):
            for y in x:
                go(y, parent, attr, depth + 1)
        elif isinstance(x, dict):
            for k, v in x.items():
                go(k, parent, attr, depth + 1)
                go(v, parent, attr, depth + 1)
        elif hasattr(x, '__dict__') and not isinstance(x, type) and type(x).__module__.startswith('mindsdb_sql'):
            if id(x) in seen:
                return
            seen.add(id(x))
            for k, v in list(vars(x).items()):
                go(v, parent, attr, depth + 1)
    go(root, None, None, 0)
    return out


def _strings_in(x, acc, depth=0):
    from mindsdb_sql.parser.ast.base import ASTNode
    if depth > 50:
        return
    if isinstance(x, str):
        acc.append(x)
    elif isinstance(x, (list, tuple)):
        for y in x:
            _strings_in(y, acc, depth + 1)
    elif isinstance(x, dict):
        for k, v in x.items():
            _strings_in(k, acc, depth + 1)
            _strings_in(v, acc, depth + 1)
    elif not isinstance(x, ASTNode) and hasattr(x, '__dict__') and not isinstance(x, type):
        for v in vars(x).values():
            _strings_in(v, acc, depth + 1)


STMT_QUERY = ('Select', 'Union', 'Intersect', 'Except')


def features(dialect, text, tree, printed):
    """set of feature names (keys of FEATURES) present in an accepted input"""
    from mindsdb_sql.parser import ast as A
    fs = set()
    res = _reserved()
    nodes = walk_nodes(tree)
    for n, parent, attr in nodes:
        cls = type(n).__name__
        if cls == 'Parameter':
            fs.add('param')
        elif cls == 'Identifier':
            parts = n.parts
            if len(parts) == 0:
                fs.add('ident-noparts')
            for i, p in enumerate(parts):
                if isinstance(p, A.Star):
                    if len(parts) > 1:
                        fs.add('star-part')
                    ok_parent = parent is not None and type(parent).__name__ in ('Select', 'Function', 'WindowFunction') \
                        and attr in ('targets', 'args')
                    if not ok_parent:
                        fs.add('star-name')
                    continue
                if not isinstance(p, str):
                    fs.add('prints-repr')
                    continue
                if p == '':
                    fs.add('ident-empty')
                elif '`' in p:
                    fs.add('ident-bq')
                elif not WORD.fullmatch(p):
                    fs.add('ident-quoted')
                elif p.upper() in res:
                    fs.add('ident-reserved')
        elif cls == 'Star':
            ok_parent = parent is not None and type(parent).__name__ in ('Select', 'Function', 'WindowFunction', 'Identifier') \
                and attr in ('targets', 'args', 'parts')
            if not ok_parent:
                fs.add('star-name')
        elif cls in ('Constant',):
            v = n.value
            if isinstance(v, bool):
                pass
            elif isinstance(v, float):
                fs.add('float')
                r = repr(v)
                if 'e' in r or 'inf' in r or 'nan' in r:
                    fs.add('float-exp')
                if v < 0:
                    fs.add('neg-const')
            elif isinstance(v, int):
                if v < 0:
                    fs.add('neg-const')
            elif isinstance(v, str):
                if v == '':
                    fs.add('str-empty')
        elif cls == 'Variable':
            if not isinstance(n.value, str) or not WORD.fullmatch(n.value.replace('.', '_') or '!'):
                fs.add('var-quoted')
        elif cls == 'Interval':
            fs.add('interval')
        elif cls == 'Function':
            if not isinstance(n.op, str) or not WORD.fullmatch(n.op) or n.op.upper() in ('SELECT', 'FROM', 'WHERE', 'AND', 'OR', 'NOT', 'IN', 'IS', 'AS', 'BY', 'ON', 'SET'):
                fs.add('func-quoted')
        elif cls in ('Union', 'Intersect', 'Except'):
            if parent is not None:
                fs.add('setop-nested')
            if type(n.right).__name__ in ('Union', 'Intersect', 'Except'):
                fs.add('setop-right-nested')
        elif cls == 'Select':
            if n.offset is not None and n.limit is None and n.where is None and n.group_by is None and n.having is None \
                    and n.order_by is None:
                fs.add('offset-bare')
        elif cls == 'NativeQuery':
            fs.add('native-query')
        if parent is not None and cls not in STMT_QUERY and _is_statement(n):
            fs.add('nested-stmt')
        al = getattr(n, 'alias', None)
        if al is not None and type(al).__name__ == 'Identifier' and len(al.parts) != 1:
            fs.add('alias-dotted')
        for k, v in vars(n).items():
            if isinstance(v, list):
                for y in v:
                    if type(y).__name__ == 'TableColumn':
                        nm = getattr(y, 'name', None)
                        if not isinstance(nm, str):
                            fs.add('col-nonstr')
                        elif not WORD.fullmatch(nm) or nm.upper() in res:
                            fs.add('col-quoted')
                        if getattr(y, 'default', None) is not None:
                            fs.add('col-default')
                        if getattr(y, 'length', None) is not None:
                            fs.add('col-length')
                        if getattr(y, 'is_primary_key', False):
                            fs.add('col-pk')
                        if getattr(y, 'nullable', None) is not None:
                            fs.add('col-null')
        for k, v in vars(n).items():
            if isinstance(v, dict):
                for key in v:
                    if isinstance(key, str) and key != '' and '' in key.split('.'):
                        fs.add('key-empty-part')
        # every string held by the node (values, dict parameters, raw strings)
        acc = []
        for k, v in vars(n).items():
            if k in ('alias',):
                continue
            from mindsdb_sql.parser.ast.base import ASTNode
            if not isinstance(v, ASTNode):
                _strings_in(v, acc)
        if cls != 'Identifier':
            for s in acc:
                if "'" in s:
                    fs.add('str-quote')
                if '"' in s:
                    fs.add('str-dquote')
                if '\\' in s:
                    fs.add('str-bs')
                if '\n' in s or '\t' in s:
                    fs.add('str-nl')
    # text-level
    if printed:
        bare = re.sub(r"'(?:\\.|[^'\\])*'", "''", printed)
        bare = re.sub(r'`[^`]*`', '``', bare)
        if re.search(r'\bNone\b', bare):
            fs.add('prints-None')
        if re.search(r'\\u[0-9a-fA-F]{4}', printed):
            fs.add('prints-uescape')
        if re.search(r'[A-Za-z]+:<|Object\(|\{params_str\}|<mindsdb_sql|\[Identifier|\[Constant', bare):
            fs.add('prints-repr')
    toks = tokens(dialect, text)
    if toks is not None:
        for tp, lx in toks:
            if tp == 'INTEGER' and len(lx) > 1 and lx[0] == '0':
                fs.add('int-lead0')
    return fs


def _is_statement(n):
    name = type(n).__name__
    return name.startswith(('Create', 'Drop', 'Alter', 'Show', 'Insert', 'Update', 'Delete', 'Set', 'Use', 'Explain',
                            'Describe', 'Start', 'Commit', 'Rollback', 'Retrain', 'Finetune', 'Evaluate')) \
        and name not in ('SetItem',)


def root_attrs(tree):
    """names of the root node's attributes that hold something (not None / False / empty)"""
    out = []
    for k, v in sorted(vars(tree).items()):
        if k in ('parentheses', 'alias') and not v:
            continue
        if v is None or v is False or v == [] or v == {} or v == '':
            continue
        out.append(k)
    return out


# ------------------------------------------------------------------------------------------ shrinking
def tokens(dialect, text):
    """[(type, lexeme)] or None when the text does not lex"""
    try:
        return [(t.type, text[t.index:t.end]) for t in lexer_cls(dialect)().tokenize(text)]
    except Exception:
        return None


SIMPLE = {'ID': ['a', 'b'], 'INTEGER': ['1'], 'FLOAT': ['1.5'], 'QUOTE_STRING': ["'s'"], 'DQUOTE_STRING': ['"d"', 'a'],
          'VARIABLE': ['@v'], 'SYSTEM_VARIABLE': ['@@v']}
# expression-level simplification: any single token that can stand for an operand
OPERAND = ['a', '1']


class Shrinker:
    """token-level delta debugging: chunk deletion, collapse of parenthesised groups, sliding-window
    deletion, replacement of every token by a simple identifier / number; keeps (kind, exc)"""

    def __init__(self, dialect, budget=1500, at=None):
        self.at = at          # optional: the re-parse must fail at the same word of the printed text
        self.d = dialect
        self.budget = budget
        self.tests = 0
        self.seen = {}

    def same(self, lexs, want):
        key = ' '.join(lexs)
        if key in self.seen:
            return self.seen[key]
        self.tests += 1
        r = oracle(self.d, key)
        ok = r is not None and r != 'ok' and (r['kind'], r['exc']) == want and (self.at is None or r.get('at') == self.at)
        self.seen[key] = ok
        return ok

    def left(self):
        return self.tests < self.budget

    def ddmin(self, lexs, want):
        n = 2
        while len(lexs) >= 2 and self.left():
            chunk = max(1, len(lexs) // n)
            removed = False
            i = 0
            while i < len(lexs) and self.left():
                cand = lexs[:i] + lexs[i + chunk:]
                if cand and self.same(cand, want):
                    lexs = cand
                    removed = True
                else:
                    i += chunk
            if removed:
                n = max(n - 1, 2)
            else:
                if chunk == 1:
                    break
                n = min(len(lexs), n * 2)
        return lexs

    def groups(self, lexs, want):
        """collapse `( ... )` groups to a single operand, or drop the parentheses"""
        changed = True
        while changed and self.left():
            changed = False
            for i, l in enumerate(lexs):
                if l != '(':
                    continue
                depth = 0
                j = None
                for k in range(i, len(lexs)):
                    if lexs[k] == '(':
                        depth += 1
                    elif lexs[k] == ')':
                        depth -= 1
                        if depth == 0:
                            j = k
                            break
                if j is None:
                    continue
                cands = [lexs[:i] + lexs[j + 1:]]
                if j - i > 1:
                    cands += [lexs[:i] + ['a'] + lexs[j + 1:], lexs[:i] + ['1'] + lexs[j + 1:],
                              lexs[:i] + lexs[i + 1:j] + lexs[j + 1:]]
                if j - i > 2:
                    cands += [lexs[:i + 1] + ['a'] + lexs[j:], lexs[:i + 1] + ['1'] + lexs[j:]]
                for cand in cands:
                    if cand and len(cand) < len(lexs) and self.left() and self.same(cand, want):
                        lexs = cand
                        changed = True
                        break
                if changed:
                    break
        return lexs

    def windows(self, lexs, want, sizes):
        changed = True
        while changed and self.left():
            changed = False
            for w in sizes:
                i = 0
                while i + w <= len(lexs) and len(lexs) > w and self.left():
                    cand = lexs[:i] + lexs[i + w:]
                    if self.same(cand, want):
                        lexs = cand
                        changed = True
                    else:
                        i += 1
        return lexs

    def simplify(self, lexs, want):
        tk = tokens(self.d, ' '.join(lexs))
        if tk is None or len(tk) != len(lexs):
            return lexs
        for i, (tp, lx) in enumerate(tk):
            if not self.left():
                break
            if lx in ('a', '1') or not re.search(r'\w|[?"\'`@]', lx):
                continue
            for simple in ('a', '1'):
                cand = lexs[:i] + [simple] + lexs[i + 1:]
                if self.same(cand, want):
                    lexs = cand
                    break
        return lexs

    def shrink(self, text, want):
        toks = tokens(self.d, text)
        if toks is None:
            return text
        lexs = [l for _, l in toks]
        if not self.same(lexs, want):
            return text          # layout dependent: keep as it is
        lexs = self.ddmin(lexs, want)
        lexs = self.groups(lexs, want)
        lexs = self.windows(lexs, want, (6, 5, 4, 3, 2, 1))
        lexs = self.simplify(lexs, want)
        lexs = self.windows(lexs, want, (3, 2, 1))
        lexs = self.groups(lexs, want)
        return ' '.join(lexs)


def describe(dialect, text, small, r2, tests=0):
    """the class record of the failing input `small` (a shrunk form of `text`) whose oracle result is r2"""
    tree = r2['tree']
    printed = r2.get('printed')
    fs = sorted(features(dialect, small, tree, printed))
    out = dict(kind=r2['kind'], exc=r2['exc'], root=type(tree).__name__, feats=fs, attrs=root_attrs(tree), dialect=dialect,
               text=text, shrunk=small, printed=printed, printed2=r2.get('printed2'), msg=r2.get('msg'), tests=tests, at=r2.get('at'))
    out['cls'] = class_key(out)
    return out


def classify(dialect, text, r=None, budget=1500, at=None):
    """shrink a failing input and compute its class: dict(kind, exc, root, feats, attrs, cls, text, shrunk, ...)"""
    if r is None:
        r = oracle(dialect, text)
    if r is None or r == 'ok':
        return None
    want = (r['kind'], r['exc'])
    sh = Shrinker(dialect, budget, at)
    small = sh.shrink(text, want)
    r2 = oracle(dialect, small)
    if r2 is None or r2 == 'ok' or (r2['kind'], r2['exc']) != want:
        small, r2 = text, r
    return describe(dialect, text, small, r2, sh.tests)


def class_key(f):
    return '%s%s|%s|%s|%s' % (f['kind'], ':' + f['exc'] if f['exc'] else '', f['root'], ','.join(f['feats']), ','.join(f['attrs']))


# features that are merely unusual (the printer normally handles them); a root-independent known finding tolerates them
BENIGN = ('ident-quoted', 'ident-reserved', 'star-name', 'star-part', 'str-empty', 'float', 'neg-const', 'int-lead0', 'str-dquote',
          'nested-stmt', 'setop-nested')


def sig_match(sig, f):
    """one signature: kind, exc (string or list), and either
       root '*'  : required `feats` all present, every other feature present must be in `allow` + BENIGN
       root Name : root, feats and attrs exactly as listed (attrs optional), optional dialects"""
    if sig.get('kind') != f.get('kind'):
        return False
    exc = sig.get('exc', '')
    if f.get('exc', '') not in (exc if isinstance(exc, list) else [exc]):
        return False
    if 'dialects' in sig and f.get('dialect') not in sig['dialects']:
        return False
    have = set(f.get('feats', []))
    need = set(sig.get('feats', []))
    if sig.get('root', '*') == '*':
        return bool(need) and need <= have and (have - need) <= set(sig.get('allow', [])) | set(BENIGN)
    if sig['root'] != f.get('root') or need != have:
        return False
    if 'attrs' in sig and sorted(sig['attrs']) != sorted(f.get('attrs', [])):
        return False
    return True


def kf_match(k, f):
    sigs = k.get('signatures') or ([k['signature']] if 'signature' in k else [])
    return any(sig_match(s, f) for s in sigs)
