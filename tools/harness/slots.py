"""Constant slots (C04 / C07 round 6): every syntactic position of a statement that holds a constant.

A constant reaches the SQL text through the printer of the node that HOLDS it, not necessarily through
`Constant.get_string`: `Insert.to_value` (VALUES cells), `Update` (SET values), `Case` (branches), `Function` (arguments),
`Tuple` (IN lists), `BetweenOperation`, `TypeCast`, `Set`, `Show ... LIKE`, `CreateDatabase.engine`, the `USING` / `PARAMETERS`
dictionaries of the MindsDB statements (raw Python strings printed by `json_to_sql`), LIMIT / OFFSET, … .  The positions are
not listed by hand: they are DISCOVERED at run time by parsing a corpus (the 577 statements of the library's test-suite,
`corpus/tests_sql.json`, plus the few templates below), walking each tree and probing every string / number found —
a `Constant` node or a raw Python value inside an attribute, list or dict — with a sentinel: the position is a constant slot
iff the statement then prints the sentinel as ONE quoted literal (single or double quotes) resp. one number, and parsing
that text gives the sentinel back at the same place.  A slot is identified by its signature: root statement class + the
chain of holder classes / attributes (dict keys and plain list indices abstracted; indices with a role — inner index of nested
lists, operands of an operation — kept).

For a slot and a value `v`:  `fill(slot, v)` = the statement with `v` at the slot (in place of the sentinel, set IN the tree
the parser built), `frame(slot)` = (text before, text behind) the literal of the sentinel.
"""
import json, os
from . import common

SENT = 'QZQ9'
NSENT = 987654

EXTRA = [
    "SELECT a FROM t WHERE b = 'x' LIMIT 5 OFFSET 3",
    "SELECT a FROM t1 JOIN t2 ON t1.x = 'c' AND t2.y = 2",
    "SELECT CASE a WHEN 'x' THEN 'y' ELSE 'z' END FROM t",
    "SELECT CASE WHEN a = 'x' THEN 'y' WHEN a = 1 THEN 2 ELSE 'z' END AS c FROM t",
    "SELECT * FROM t WHERE a IN ('x', 'y') AND b NOT IN ('z', 1) AND c LIKE 'x%' AND d BETWEEN 'p' AND 'q'",
    "SELECT 'a' || 'b', f('x', g('y')), CAST('x' AS text), 'lit' AS al, count(DISTINCT 'k') FROM t GROUP BY 'g' ORDER BY 'o'",
    "SELECT a FROM (SELECT 'in' AS a FROM t WHERE b = 'x') AS s WHERE s.a = 'out'",
    "SELECT a FROM t WHERE b = 'x' UNION SELECT 'u' FROM t2",
    "INSERT INTO t (a, b) VALUES ('x', 1), ('y', 2.5)",
    "INSERT INTO t (a) SELECT 'x' FROM t2 WHERE c = 'y'",
    "UPDATE t SET a = 'x', b = 2 WHERE c = 'z'",
    "DELETE FROM t WHERE a = 'x' AND b IN ('y')",
    "SHOW TABLES LIKE 'x'",
    "SHOW FULL TABLES FROM d WHERE a = 'x'",
    "SET x = 'v'",
    "SET NAMES 'utf8'",
    "CREATE MODEL m FROM i (select 1) PREDICT y USING a = 'x', b = 1, c = ['p', 'q'], d = {'k': 'v'}",
    "CREATE DATABASE d WITH ENGINE = 'e', PARAMETERS = {\"k\": \"v\", \"n\": 1, \"l\": [\"x\"]}",
    "SELECT * FROM m WHERE a = 'x' USING p = 'v', q = 2",
    "CREATE JOB j (select 1) START '2020-01-01' END '2021-01-01' EVERY hour",
    "CREATE ML_ENGINE e FROM h USING k = 'v'",
    "SELECT a FROM t WHERE b > LAST AND c = 'x'",
    "SELECT f(a, 'x') OVER (PARTITION BY b ORDER BY c) FROM t",
    "SELECT * FROM t WHERE NOT a = 'x' AND b IS NOT NULL AND -c = 1 AND d = 1.5",
]

_cache = {}


def statements():
    p = os.path.join(common.ROOT, 'corpus', 'tests_sql.json')
    return list(EXTRA) + list(json.load(open(p)))


def is_node(x):
    from mindsdb_sql.parser.ast.base import ASTNode
    return isinstance(x, ASTNode)


def walk(x, path=()):
    """(path, kind) of every string / number held below x: kind 'const' = a Constant node, 'raw' = a Python value"""
    from mindsdb_sql.parser.ast import Constant, Identifier
    if is_node(x):
        if type(x) is Identifier:
            return                                  # identifier parts are the business of the identifier streams
        if type(x) is Constant:
            if type(x.value) in (str, int, float):
                yield path, 'const'
        for k, v in vars(x).items():
            if type(x) is Constant and k == 'value':
                continue
            if type(v) in (str, int, float):
                yield path + (k,), 'raw'
            elif is_node(v) or isinstance(v, (list, dict, tuple)):
                yield from walk(v, path + (k,))
    elif isinstance(x, (list, tuple)):
        for i, v in enumerate(x):
            if type(v) in (str, int, float):
                yield path + (i,), 'raw'
            elif is_node(v) or isinstance(v, (list, dict, tuple)):
                yield from walk(v, path + (i,))
    elif isinstance(x, dict):
        for k, v in x.items():
            if type(v) in (str, int, float):
                yield path + (['k', k],), 'raw'
            elif is_node(v) or isinstance(v, (list, dict, tuple)):
                yield from walk(v, path + (['k', k],))


def step(x, p):
    if isinstance(p, (list, tuple)):
        return x[p[1]]
    if isinstance(p, int):
        return x[p]
    return getattr(x, p)


def get(root, path):
    x = root
    for p in path:
        x = step(x, p)
    return x


def value_at(root, path, kind):
    x = get(root, path)
    return x.value if kind == 'const' and type(x).__name__ == 'Constant' else x


def put(root, path, kind, v):
    if kind == 'const':
        get(root, path).value = v
        return
    holder, p = get(root, path[:-1]), path[-1]
    if isinstance(p, (list, tuple)):
        holder[p[1]] = v
    elif isinstance(p, int):
        if isinstance(holder, tuple):
            raise TypeError('tuple')
        holder[p] = v
    else:
        setattr(holder, p, v)


def signature(root, path, kind):
    """root class + holder chain from the last two AST nodes on (indices / keys abstracted)"""
    out, x, marks, prev = [], root, [], None
    for p in path:
        if is_node(x):
            marks.append(len(out))
            out.append(type(x).__name__)
        x = step(x, p)
        if isinstance(p, (list, tuple)):
            out.append('[k]')
        elif isinstance(p, int):
            # positions with a ROLE keep their index (capped): the inner index of nested lists (CASE rule = (condition, result),
            # VALUES row = cells) and the operands of an operation (BETWEEN has three); plain lists are abstracted
            out.append('[%d]' % min(p, 2) if isinstance(prev, int) or prev == 'args' else '[]')
        else:
            out.append('.' + p)
        prev = p
    tail = ''.join(out[marks[-2]:] if len(marks) >= 2 else out)
    return '%s>%s:%s' % (type(root).__name__, tail, kind)


def parse_any(sql):
    from mindsdb_sql import parse_sql
    for d in ('mindsdb', 'mysql', 'sqlite'):
        try:
            return d, parse_sql(sql, d)
        except Exception:
            pass
    return None, None


def discover():
    """list of slots: dict(sig, dialect, sql, path, kind, type 'str'|'int'|'float', quote, pre, post)"""
    if 'slots' in _cache:
        return _cache['slots'], _cache['stats']
    from mindsdb_sql import parse_sql
    slots, seen, stats = [], set(), dict(statements=0, parsed=0, candidates=0, not_literal=0, no_readback=0)
    sts = statements()
    for sql in sts[:len(EXTRA)] + sorted(sts[len(EXTRA):], key=len):     # the shortest statement showing a slot stands for it
        stats['statements'] += 1
        d, tree = parse_any(sql)
        if tree is None:
            continue
        stats['parsed'] += 1
        for path, kind in list(walk(tree)):
            orig = value_at(tree, path, kind)
            ty = type(orig).__name__
            sig = signature(tree, path, kind) + ':' + ty
            if sig in seen:
                continue
            seen.add(sig)
            stats['candidates'] += 1
            sent = SENT if ty == 'str' else (NSENT if ty == 'int' else NSENT + 0.25)
            try:
                t2 = parse_sql(sql, d)
                put(t2, path, kind, sent)
                txt = str(t2)
            except Exception:
                stats['not_literal'] += 1
                continue
            quote = None
            if ty == 'str':
                for q in ("'", '"'):
                    if txt.count(q + SENT + q) == 1 and txt.count(SENT) == 1:
                        quote = q
                lit = (quote or '') + SENT + (quote or '')
            else:
                lit = repr(sent)
                quote = '' if txt.count(lit) == 1 else None
            if quote is None:
                stats['not_literal'] += 1
                continue
            i = txt.index(lit)
            try:
                back = value_at(parse_sql(txt, d), path, kind)
            except Exception:
                back = None
            if back != sent or type(back) is not type(sent):
                stats['no_readback'] += 1
                continue
            slots.append(dict(sig=sig, dialect=d, sql=sql, path=[list(p) if isinstance(p, (list, tuple)) else p for p in path],
                              kind=kind, type=ty, quote=quote, pre=txt[:i], post=txt[i + len(lit):]))
    _cache['slots'], _cache['stats'] = slots, stats
    return slots, stats


def fill(slot, v, tree=None):
    """(tree, printed text) of the slot's statement holding v at the slot; `tree` = a tree of this statement to reuse"""
    from mindsdb_sql import parse_sql
    t = tree if tree is not None else parse_sql(slot['sql'], slot['dialect'])
    put(t, slot['path'], slot['kind'], v)
    return t, str(t)


def read_back(slot, text):
    """the value the library's parser finds at the slot in `text`"""
    from mindsdb_sql import parse_sql
    return value_at(parse_sql(text, slot['dialect']), slot['path'], slot['kind'])
