"""correspondence stream `slylex`: the regex-level lexer model (Model/Re.lean + Model/SlyLex.lean over the
regenerated Gen/LexRe_<dialect>.lean) against the real lexers on the same texts.

Compared: outcome kind (token list / LexError index) and every yielded token's (type, index, end).
Texts: harvested test SQL, its single-character mutations, and a token soup built from the LIVE rule list
(keywords in random case and with case-folding look-alikes, multi-word keywords with every kind of white space,
identifiers, numbers incl. Unicode digits, literals with escapes / doubled quotes / unterminated, variables,
comments, operators, illegal characters, lone surrogates) glued with and without separators.
"""
import json, os, re
from . import common, corpus

SPACES = [' ', ' ', ' ', '\t', '\n', '\r', '\r\n', '\x0b', '\x0c', '\x1c', '\x1f', '\x85', '\xa0', ' ', ' ',
          '　', '']
LOOKALIKE = {'s': 'ſ', 'k': 'K', 'i': 'ı', 'I': 'İ'}
BAD = ['#', '!', '^', '&', '|', '\\', '\x00', '\x7f', '\x80', '\x92', '\ud800', '\udfff', '', '￿',
       '\U0001f600', '\U0010ffff', '²', '́', '​', '﻿', '`', "'", '"', '@', '@@', '$', 'é', 'ß', 'я', '中']
OPS = ['{', '}', '[', ']', ':', '::', '->', '->>', '~', '!~', '<>', '!=', '>=', '<=', '||', '%', '?', ';',
       '.', ',', '(', ')', '*', '/', '-', '--', '/*', '*/', '+', '=', '<', '>',
       '٣', '１']
ODD = BAD + OPS


def rules_of(dialect):
    return json.load(open(os.path.join(common.ROOT, 'gen', 'lexre_%s.json' % dialect)))


def keyword_words(js):
    """words a keyword rule can match, derived from the transcribed regex (sequence of single-char sets)"""
    out = []
    for name, t, ign in js['rules']:
        w = []
        ok = True

        def walk(x):
            nonlocal ok
            if x[0] == 'seq':
                walk(x[1]); walk(x[2])
            elif x[0] == 'set':
                w.append(x[1])
            elif x[0] == 'bound':
                pass
            elif x[0] == 'star':
                w.append(None)
            else:
                ok = False
        walk(t)
        if ok and w and any(s for s in w):
            out.append((name, w))
    return out


def realise(w, rng):
    """one text for a keyword shape: for each set pick a member (prefer ASCII, sometimes anything)"""
    s = []
    for cs in w:
        if cs is None:
            s.append(rng.choice(SPACES))
            continue
        cands = [c for lo, hi in cs for c in (lo, hi)]
        asc = [c for c in cands if c < 128]
        c = rng.choice(asc) if asc and rng.random() < 0.9 else rng.choice(cands)
        s.append(chr(c))
    return ''.join(s)


def rand_ident(rng, bad=True):
    k = rng.random()
    if k < 0.5:
        return ''.join(rng.choice('abcXYZ_$019') for _ in range(rng.randint(1, 8)))
    if k < 0.7:
        body = ''.join(rng.choice(['a', ' ', '``', '.', "'", '\n', 'é', '\\']) for _ in range(rng.randint(0 if bad else 1, 5)))
        return '`' + body + (rng.choice(['`', '`', '']) if bad else '`')
    if k < 0.85 and bad:
        return ''.join(rng.choice('ab1éßя٣_$') for _ in range(rng.randint(1, 6)))
    return rng.choice(['a.b', 'a.`b c`.d', 't1$x', '1a', 'a1', '$', '_', '1$', 'e5', '1e5'])


def rand_number(rng, bad=True):
    return rng.choice(['0', '1', '12', '1.5', '1.', '.5', '1..2', '1.2.3', '007', '1e5', '٣', '1.٣', '１２', '9' * 30, '1 .5', '1.a', '1_000'])


def rand_string(rng, bad=True):
    q = rng.choice("'\"")
    o = '"' if q == "'" else "'"
    if bad:
        body = ''.join(rng.choice(['a', ' ', q + q, '\\' + q, '\\\\', '\\', '\n', '\\n', "'", '"', 'é', '--', '/*', q])
                       for _ in range(rng.randint(0, 6)))
        return q + body + rng.choice([q, q, q, ''])
    body = ''.join(rng.choice(['a', ' ', q + q, '\\' + q, '\\\\', '\n', '\\n', o, 'é', '--', '/*', '*/', '#', '\ud800'])
                   for _ in range(rng.randint(0, 6)))
    return q + body + q


def rand_var(rng, bad=True):
    sig = rng.choice(['@', '@@', '@@@'] if bad else ['@', '@@'])
    k = rng.random()
    if k < 0.4:
        return sig + ''.join(rng.choice('ab_.$1' if bad else 'ab_.$') for _ in range(rng.randint(0 if bad else 1, 5)))
    q = rng.choice("'`\"")
    if bad:
        return sig + q + ''.join(rng.choice(['a', '1', ' ', '.', q, '\n']) for _ in range(rng.randint(0, 4))) + rng.choice([q, ''])
    return sig + q + rng.choice('ab_.$') + ''.join(rng.choice(['a', '1', ' ', '.', '\n', '#']) for _ in range(rng.randint(0, 4))) + q


def rand_comment(rng, bad=True):
    k = rng.random()
    if k < 0.4:
        return '--' + ''.join(rng.choice(['a', ' ', '*/', "'", '\r', '#']) for _ in range(rng.randint(0, 4))) + rng.choice(['\n', '\r\n'] + ([''] if bad else []))
    if bad:
        return '/*' + ''.join(rng.choice(['a', '\n', '*', '/', '/*', "'", '--']) for _ in range(rng.randint(0, 5))) + rng.choice(['*/', '*/', '', '*'])
    return '/*' + ''.join(rng.choice(['a', '\n', '*', '/*', "'", '--', '#']) for _ in range(rng.randint(0, 5))) + ' */'


def soup(dialect, rng, kws, n_items, allow_bad=True):
    parts = []
    for _ in range(n_items):
        k = rng.random()
        if k < 0.35:
            name, w = rng.choice(kws)
            t = realise(w, rng)
            r = rng.random()
            if r < 0.3:
                t = ''.join(c.upper() if rng.random() < 0.5 else c.lower() for c in t)
            elif r < 0.4:
                t = ''.join(LOOKALIKE.get(c, c) if rng.random() < 0.5 else c for c in t.lower())
            parts.append(t)
        elif k < 0.5:
            parts.append(rand_ident(rng, allow_bad))
        elif k < 0.6:
            parts.append(rand_number(rng, allow_bad))
        elif k < 0.72:
            parts.append(rand_string(rng, allow_bad))
        elif k < 0.8:
            parts.append(rand_var(rng, allow_bad))
        elif k < 0.86:
            parts.append(rand_comment(rng, allow_bad))
        else:
            parts.append(rng.choice(ODD if allow_bad else OPS))
        parts.append((rng.choice(SPACES) if allow_bad else rng.choice([' ', ' ', '\t', '\n', '\r', '\r\n', '  ', ' \n '])) if rng.random() < 0.75 else '')
    return ''.join(parts)


def lex_domain(rng):
    def word():
        return rng.choice('abcxyzSKI_') + ''.join(rng.choice('abcxyzSKI_0189') for _ in range(rng.randint(0, 9)))
    k = rng.random()
    if k < 0.25:
        return word()
    if k < 0.5:
        return '.'.join(word() for _ in range(rng.randint(2, 5)))
    if k < 0.8:
        body = ''.join(rng.choice(['a', ' ', '`', '.', "'", '"', '\n', '\x00', 'é', '\ud800', '\U0001f600', '\\', '--', '/*', 'select'])
                       for _ in range(rng.randint(1, 6)))
        return '`' + body.replace('`', '``') + '`'
    if k < 0.9:
        return ''.join(rng.choice('0123456789') for _ in range(rng.randint(1, 40)))
    return word() + rng.choice('.,();=<>+*/%[]{}:~') + word()


def texts(dialect, rng, n, p_corpus=0.15, p_mut=0.2):
    js = rules_of(dialect)
    kws = keyword_words(js)
    corp = corpus.load()
    for i in range(n):
        k = rng.random()
        if rng.random() < 0.12:
            # the domains of the C04Lex theorems: plain words, dotted paths, back-quoted names with any characters, digit strings
            yield 'c04lex', lex_domain(rng)
            continue
        if k < p_corpus:
            yield 'corpus', rng.choice(corp)
        elif k < p_corpus + p_mut:
            s = rng.choice(corp)
            s = s[:400]
            for _ in range(rng.randint(1, 3)):
                p = rng.randint(0, len(s))
                op = rng.random()
                ins = rng.choice(ODD + SPACES)
                if op < 0.5:
                    s = s[:p] + ins + s[p:]
                elif op < 0.8:
                    s = s[:p] + s[p + 1:]
                else:
                    s = s[:p] + ins + s[p + 1:]
            yield 'corpus-mut', s
        else:
            yield 'soup', soup(dialect, rng, kws, rng.randint(1, 9), allow_bad=rng.random() < 0.3)
    # the statement family of C05Stmt / C04Lex.words_steps: blank-separated keywords and names (appended, so the items above do not shift)
    def word():
        return rng.choice('abcxyzSKI_') + ''.join(rng.choice('abcxyzSKI_0189') for _ in range(rng.randint(0, 9)))

    def anycase(w):
        return ''.join(ch.upper() if rng.random() < 0.5 else ch.lower() for ch in w)
    for i in range(max(4, n // 8)):
        k = rng.random()
        if k < 0.3:
            yield 'stmt-family', '%s %s %s %s' % (anycase('select'), word(), anycase('from'), word())
        elif k < 0.5:
            yield 'stmt-family', '%s %s %s %s %s %s' % (anycase('select'), word(), anycase('from'), word(), anycase('limit'),
                                                          ''.join(rng.choice('0123456789') for _ in range(rng.randint(1, 12))))
        else:
            ws = [anycase(realise(rng.choice(kws)[1], rng)) if rng.random() < 0.5 else word() for _ in range(rng.randint(2, 7))]
            yield 'words-family', ' '.join(ws) + ' ' + word()


def lookalikes(dialect):
    """ASCII letter -> the non-ASCII characters the live lexer accepts in its place (from the tabulated atom sets:
    IGNORECASE is Unicode-aware, e.g. U+017F for s, U+212A for k)"""
    out = {}

    def walk(x):
        if x[0] == 'set':
            cps = [c for lo, hi in x[1] for c in range(lo, hi + 1)] if sum(hi - lo + 1 for lo, hi in x[1]) <= 8 else []
            asc = [c for c in cps if c < 128 and chr(c).isalpha()]
            non = [c for c in cps if c >= 128]
            for a in asc:
                for n in non:
                    out.setdefault(chr(a), set()).add(chr(n))
        else:
            for y in x[1:]:
                if isinstance(y, list):
                    walk(y)
    for name, t, ign in rules_of(dialect)['rules']:
        walk(t)
    return {k: sorted(v) for k, v in out.items()}


_OCC = {}


def _occurrences(dialect):
    """keyword token type -> [(text, index, end)] over the corpus statements the live lexer tokenizes"""
    if dialect in _OCC:
        return _OCC[dialect]
    from mindsdb_sql import get_lexer_parser
    lexer_cls = get_lexer_parser(dialect)[0]
    lexer_cls = lexer_cls if isinstance(lexer_cls, type) else type(lexer_cls)
    plain = ('ID', 'QUOTE_STRING', 'DQUOTE_STRING', 'INTEGER', 'FLOAT', 'VARIABLE', 'SYSTEM_VARIABLE')
    occ = {}
    for text in corpus.load():
        try:
            toks = [t for t in lexer_cls().tokenize(text)]
        except (Exception, common.HangDetected):
            continue
        for t in toks:
            if t.type not in plain:
                occ.setdefault(t.type, []).append((text, t.index, t.end))
    _OCC[dialect] = occ
    return occ


def lookalike_texts(dialect, rng, n):
    """accepted statements of the corpus with a keyword token respelled with case-folding look-alikes: the lexer
    yields the same token types (the model proves it on the regenerated sets), so everything behind the lexer that
    looks at the token TEXT (lower()/upper() tables, comparisons) meets characters it may not expect.
    Systematic over the token TYPES: every keyword type that has a look-alike letter is respelled in up to `per` different
    statements (so a keyword that only one statement kind uses, e.g. the schedule words of CREATE JOB, is not left to chance)."""
    la = lookalikes(dialect)
    if not la:
        return
    occ = _occurrences(dialect)
    types = sorted(tp for tp, xs in occ.items() if any(c in la for c in xs[0][0][xs[0][1]:xs[0][2]]))
    per = max(1, n // max(1, len(types)))
    for tp in types:
        xs = occ[tp]
        # prefer occurrences in different statement kinds (first word of the statement)
        by_kind = {}
        for x in xs:
            by_kind.setdefault(x[0].split(None, 2)[:2].__repr__().lower(), []).append(x)
        picks = [rng.choice(v) for v in by_kind.values()]
        rng.shuffle(picks)
        for text, i, e in picks[:max(per, 2)]:
            word = list(text[i:e])
            idx = [k for k, c in enumerate(word) if c in la]
            if not idx:
                continue
            for k in (idx if rng.random() < 0.3 else [rng.choice(idx)]):
                word[k] = rng.choice(la[word[k]])
            yield dict(src='lookalike:%s' % tp, text=text[:i] + ''.join(word) + text[e:])


_LEX = {}


def real(dialect, text):
    """the real lexer on `text`: canonical line as the model driver prints it"""
    from sly.lex import LexError
    if dialect not in _LEX:
        from mindsdb_sql import get_lexer_parser
        _LEX[dialect] = get_lexer_parser(dialect)[0]
    lexer = _LEX[dialect]
    if isinstance(lexer, type):
        lexer = lexer()
    toks = []
    try:
        for t in lexer.tokenize(text):
            if t.end == t.index:
                # a zero-length match: sly does not advance, the real loop would never end
                return 'hang %d %s' % (t.index, t.type), 'hang'
            deco = ''
            if dialect == 'mindsdb':
                # decoration facts `Props/C19Lex.lean` assumes of MindsDBLexer.tokenize (value = source slice,
                # lineno = 1 + newlines before index): a token that breaks one shows up as a divergence of the stream
                if t.value != text[t.index:t.end]:
                    deco += ':BADVALUE'
                if t.lineno != 1 + text.count('\n', 0, t.index):
                    deco += ':BADLINENO'
            toks.append('%s:%d:%d%s' % (t.type, t.index, t.end, deco))
        return ('ok ' + ' '.join(toks)).strip(), 'ok'
    except LexError as e:
        return ('err %d ' % e.error_index + ' '.join(toks)).strip(), 'err'
    except common.HangDetected as e:
        return 'hang %s' % str(e)[:60], 'hang'
    except Exception as e:  # any other exception is a C02 matter; recorded, compared as its own kind
        return 'exc %s' % type(e).__name__, 'exc'


def model_line(dialect, text):
    return (dialect + ' ' + ' '.join(str(ord(c)) for c in text)).strip()


def stream(chk, n_per_dialect, name='slylex'):
    """run the correspondence; returns (cases, diverged)"""
    lines, metas, dist = [], [], {}
    for d in common.DIALECTS:
        rng = common.rng_for(chk.seed, 'slylex/' + d)
        for src, text in texts(d, rng, n_per_dialect):
            py, kind = real(d, text)
            lines.append(model_line(d, text))
            metas.append((d, src, text, py))
            ntok = py.count(':') // 2
            key = '%s/%s/%s/tok%s' % (d, src, kind, '0' if ntok == 0 else '1-5' if ntok <= 5 else '6-20' if ntok <= 20 else '21+')
            dist[key] = dist.get(key, 0) + 1
            nonascii = any(ord(c) > 127 for c in text)
            dist['%s/nonascii=%s' % (d, nonascii)] = dist.get('%s/nonascii=%s' % (d, nonascii), 0) + 1
    try:
        outs = common.lean_run('SlyLex', lines)
    except Exception as e:
        chk.oblige('corr:' + name, 'correspondence', False, 'driver failed: %s' % e)
        return len(lines), None
    diverged, first = 0, None
    for (d, src, text, py), o in zip(metas, outs):
        if o != py:
            diverged += 1
            if first is None:
                first = dict(dialect=d, src=src, text=ascii(text), cps=[ord(c) for c in text], impl=py[:400], model=o[:400])
    chk.corr_result(name, len(lines), diverged, first, dist)
    # property-level oracle on both sides: a run that does not end in a token list or a LexError
    for (d, src, text, py), o in zip(metas, outs):
        for side, line in (('impl', py), ('model', o)):
            if line.split(' ')[0] in ('hang', 'stuck', 'exc'):
                f = dict(desc='lexer run on %s side does not end in tokens or LexError: %s' % (side, line[:80]), dialect=d,
                         text=ascii(text), cps=[ord(c) for c in text], stream='slylex',
                         site=dict(exc='lexer-' + line.split(' ')[0], file='lex.py', func='tokenize'), msg=line[:200],
                         **{'class': 'lexer-%s/%s' % (line.split(' ')[0], d)})
                if side == 'impl' or py.split(' ')[0] == o.split(' ')[0]:
                    chk.classify(f, lambda k, f: False)
                    chk.fail(f)
                break
    return len(lines), diverged


def real_parse(dialect, text):
    """outcome of the real parse_sql as the TextParse driver prints it"""
    from mindsdb_sql import parse_sql
    from mindsdb_sql.exceptions import ParsingException
    from sly.lex import LexError
    try:
        with common.time_limit(60):
            parse_sql(text, dialect)
        return 'accept'
    except ParsingException:
        return 'reject'
    except LexError as e:
        return 'lexerr %d' % e.error_index
    except common.HangDetected:
        return 'hang'
    except Exception as e:
        return 'exc %s' % type(e).__name__


def text_stream(chk, n_per_dialect, name='text'):
    """stream `text`: the composed model of parse_sql (strip the trailing [\\s;] run, lex, table-driven parse; driver
    `TextParse`) against the real parse_sql on the same texts: accept / reject (ParsingException) / LexError index"""
    lines, metas, dist = [], [], {}
    corp = corpus.load()
    tails = ['', ';', ' ;', ';;', '\n', ' ; \n;', '\t', '\x0c', '\x1f', '\x85', '\xa0', '\u2003;', '\u3000', ' -- c', ';x', '\\', "'", ';\ufeff']
    for d in common.DIALECTS:
        rng = common.rng_for(chk.seed, 'text/' + d)
        gen = texts(d, rng, n_per_dialect, p_corpus=0.45, p_mut=0.3)
        for src, text in gen:
            if rng.random() < 0.5:
                text = text + rng.choice(tails)
                src += '+tail'
            py = real_parse(d, text)
            lines.append(model_line(d, text))
            metas.append((d, src, text, py))
            key = '%s/%s/%s' % (d, src, py.split(' ')[0])
            dist[key] = dist.get(key, 0) + 1
    try:
        outs = common.lean_run('TextParse', lines)
    except Exception as e:
        chk.oblige('corr:' + name, 'correspondence', False, 'driver failed: %s' % e)
        return len(lines), None
    diverged, first = 0, None
    for (d, src, text, py), o in zip(metas, outs):
        om = 'accept' if o.startswith('accept ') else o
        if py == 'reject' and (om == 'accept' or om.startswith('lexerr ')):
            # the model has the lexer and the table-driven parser, not the semantic actions: an action may reject a
            # grammatical sentence (ensure_select_keyword_order, ...) or raise during a reduction before the lexer error
            # behind it is reached ('Alias can not contain multiple parts'); the converse (impl accepts, model rejects) diverges
            dist['%s/action-reject' % d] = dist.get('%s/action-reject' % d, 0) + 1
            continue
        if om != py:
            diverged += 1
            if first is None:
                first = dict(dialect=d, src=src, text=ascii(text), cps=[ord(c) for c in text], impl=py, model=o)
    chk.corr_result(name, len(lines), diverged, first, dist)
    return len(lines), diverged


if __name__ == '__main__':
    import sys
    n = int(sys.argv[1]) if len(sys.argv) > 1 else 200
    seed = sys.argv[2] if len(sys.argv) > 2 else '0'
    import time
    lines, metas = [], []
    for d in common.DIALECTS:
        rng = common.rng_for(seed, 'slylex/' + d)
        for src, text in texts(d, rng, n):
            py, kind = real(d, text)
            lines.append(model_line(d, text)); metas.append((d, src, text, py))
    t0 = time.time()
    outs = common.lean_run('SlyLex', lines)
    print('lean %.1fs for %d lines, %d chars' % (time.time() - t0, len(lines), sum(len(m[2]) for m in metas)))
    bad = 0
    for (d, src, text, py), o in zip(metas, outs):
        if o != py:
            bad += 1
            if bad <= 8:
                print('DIVERGE', d, src, repr(text)); print('  impl ', py[:300]); print('  model', o[:300])
    print('diverged', bad, 'of', len(lines), 'kinds', {k: sum(1 for m in metas if m[3].startswith(k)) for k in ('ok', 'err', 'exc')})
