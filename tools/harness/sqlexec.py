"""Reference-engine side of C06: a typed generator of statements over a fixed schema, all small table
contents, and execution of an original text and its rendering in sqlite3 (search / validation oracle only;
no theorem depends on it)."""
import itertools, re, sqlite3

SCHEMA = {'t': ('a', 'b'), 'u': ('a', 'c')}
VALUES = (None, 0, 1, 2)
# string values with characters that matter to literal rendering (standard SQL: only ' is special, doubled)
STR_VALUES = ('C:\\data\\a.csv', "it's", '100%', 'a_b', 'x\ny', '\u00e9\u6f22', '%', '_', '', '"q"', '--x', ':p', '%s', '%(x)s',
              'tab\there', 'a;b', 'C:\\data\\%', "''", 'a\\nb', '1')


def strlit(v):
    return "'" + v.replace("'", "''") + "'"


JOIN_SPELLINGS = ('JOIN', 'INNER JOIN', 'LEFT JOIN', 'LEFT OUTER JOIN', 'RIGHT JOIN', 'RIGHT OUTER JOIN',
                  'FULL JOIN', 'FULL OUTER JOIN', 'CROSS JOIN')


# ----------------------------------------------------------------------------------------------- set-operation trees
# a tree is ('L', i) -- the i-th operand SELECT -- or ('N', key, left, right); keys as the Lean driver spells them
SETOP_LEAVES = ('SELECT a FROM t', 'SELECT b FROM t', 'SELECT a FROM u', 'SELECT c FROM u')
SETOP_KEYS = ('UNION', 'UNION_ALL', 'INTERSECT', 'EXCEPT', 'INTERSECT_ALL', 'EXCEPT_ALL')
SETOP_SQLITE = SETOP_KEYS[:4]


def tree_shapes(n):
    """all binary tree shapes with n operations"""
    if n == 0:
        yield 'L'
        return
    for k in range(n):
        for l in tree_shapes(k):
            for r in tree_shapes(n - 1 - k):
                yield (l, r)


def tree_fill(shape, ops, leaves):
    """shape + iterator of operation keys + iterator of leaf numbers -> tree"""
    if shape == 'L':
        return ('L', next(leaves))
    op = next(ops)
    l = tree_fill(shape[0], ops, leaves)
    return ('N', op, l, tree_fill(shape[1], ops, leaves))


def tree_random(rng, n, keys, nleaves):
    if n == 0:
        return ('L', rng.randrange(nleaves))
    k = rng.randrange(n)
    return ('N', rng.choice(keys), tree_random(rng, k, keys, nleaves), tree_random(rng, n - 1 - k, keys, nleaves))


def tree_depth(t):
    return 0 if t[0] == 'L' else 1 + max(tree_depth(t[2]), tree_depth(t[3]))


def tree_nesting(t):
    """(some operation has a compound LEFT operand, … a compound RIGHT operand)"""
    if t[0] == 'L':
        return (False, False)
    a, b = tree_nesting(t[2]), tree_nesting(t[3])
    return (a[0] or b[0] or t[2][0] == 'N', a[1] or b[1] or t[3][0] == 'N')


def tree_line(t):
    return 'L %d' % t[1] if t[0] == 'L' else 'N %s %s %s' % (t[1], tree_line(t[2]), tree_line(t[3]))


def tree_sql(t, leaves=SETOP_LEAVES, paren_left=lambda: True):
    """the statement as a user writes it: a compound RIGHT operand needs its parentheses, a compound LEFT operand may
    have them (without, the library's parser groups a chain left to right -- the same tree)"""
    if t[0] == 'L':
        return leaves[t[1]]
    l, r = tree_sql(t[2], leaves, paren_left), tree_sql(t[3], leaves, paren_left)
    if t[2][0] == 'N' and paren_left():
        l = '(%s)' % l
    if t[3][0] == 'N':
        r = '(%s)' % r
    return '%s %s %s' % (l, t[1].replace('_', ' '), r)


def tree_ref_sql(t, leaves=SETOP_LEAVES):
    """the same tree in a form sqlite executes: every compound operand is a derived table (written here from the
    tree, independently of the renderer)"""
    if t[0] == 'L':
        return leaves[t[1]]
    l, r = tree_ref_sql(t[2], leaves), tree_ref_sql(t[3], leaves)
    if t[2][0] == 'N':
        l = 'SELECT * FROM (%s)' % l
    if t[3][0] == 'N':
        r = 'SELECT * FROM (%s)' % r
    return '%s %s %s' % (l, t[1].replace('_', ' '), r)


def tree_of_ast(node, leaf_no):
    """the tree of a parsed statement (leaf_no: text of an operand SELECT -> number), None when it is not one"""
    from mindsdb_sql.parser import ast as A
    for cls, key in ((A.Union, 'UNION'), (A.Intersect, 'INTERSECT'), (A.Except, 'EXCEPT')):
        if type(node) is cls:
            l, r = tree_of_ast(node.left, leaf_no), tree_of_ast(node.right, leaf_no)
            if l is None or r is None:
                return None
            return ('N', key + ('' if node.unique else '_ALL'), l, r)
    if isinstance(node, A.Select):
        i = leaf_no(node)
        return None if i is None else ('L', i)
    return None


def tree_ast(t, leaf_ast):
    from mindsdb_sql.parser import ast as A
    if t[0] == 'L':
        return leaf_ast(t[1])
    cls = {'UNION': A.Union, 'INTERSECT': A.Intersect, 'EXCEPT': A.Except}[t[1].split('_')[0]]
    return cls(left=tree_ast(t[2], leaf_ast), right=tree_ast(t[3], leaf_ast), unique=not t[1].endswith('_ALL'))


SETOP_TOKEN = re.compile(
    r'\s*(?:(?P<d>SELECT \* FROM \()|(?P<dc>\) AS anon_\d+)|(?P<lp>\()|(?P<rp>\))|'
    r'(?P<op>(?:UNION|INTERSECT|EXCEPT)(?: ALL)?)(?![\w]))')


def setop_structure(text, leaf_texts):
    """the text structure of a rendered set operation in the spelling of `RenderSetOps.RText.show`:
    S<i> for the text of operand SELECT i, `D[ … ]` for `SELECT * FROM (…) AS anon_k`, `( … )`, operator keys;
    a string starting with `?` when the text is something else"""
    order = sorted(range(len(leaf_texts)), key=lambda i: -len(leaf_texts[i]))
    out, pos, n = [], 0, len(text)
    while pos < n:
        if text[pos].isspace():
            pos += 1
            continue
        for i in order:
            lt = leaf_texts[i]
            if text.startswith(lt, pos) and (pos + len(lt) == n or not (text[pos + len(lt)].isalnum() or text[pos + len(lt)] in '_.')):
                # `SELECT * FROM (` must not be mistaken for a leaf, nor a leaf that is a prefix of a longer one
                out.append('S%d' % i)
                pos += len(lt)
                break
        else:
            m = SETOP_TOKEN.match(text, pos)
            if not m:
                return '?' + text
            out.append('D[' if m.group('d') else ']' if m.group('dc') else '(' if m.group('lp') else ')' if m.group('rp')
                       else m.group('op').replace(' ', '_'))
            pos = m.end()
    return ' '.join(out)


def setop_dbs(rng, n):
    """contents with many shared values between the operand columns (t.a, t.b, u.a, u.c) and with duplicates"""
    dbs = [{'t': ((1, 1), (2, 1), (2, None)), 'u': ((1, 2), (None, 1), (2, 2))},
           {'t': ((1, 1),), 'u': ((1, 1),)},
           {'t': ((0, 1), (1, 0), (1, 1), (None, None)), 'u': ((1, None), (0, 0), (1, 1))}]
    while len(dbs) < n:
        vals = rng.choice(((None, 0, 1), (0, 1), (None, 0, 1, 2), (1, 2)))
        dbs.append({k: tuple(tuple(rng.choice(vals) for _ in range(2)) for _ in range(rng.randint(1, 4))) for k in ('t', 'u')})
    return dbs[:n]


def setop_tabs(content):
    """rows of the four operand SELECTs"""
    t, u = content.get('t', ()), content.get('u', ())
    return [[(r[0],) for r in t], [(r[1],) for r in t], [(r[0],) for r in u], [(r[1],) for r in u]]


# ----------------------------------------------------------------------------------------------- databases
def all_tables(max_rows, ncols=2):
    rows = list(itertools.product(VALUES, repeat=ncols))
    out = [()]
    for n in range(1, max_rows + 1):
        out += list(itertools.combinations_with_replacement(rows, n))
    return out


def fixed_dbs():
    """hand-picked contents: empty, NULL keys, duplicates, unmatched rows on both sides"""
    return [
        {'t': (), 'u': ()},
        {'t': ((1, 2),), 'u': ()},
        {'t': (), 'u': ((1, 2),)},
        {'t': ((1, 0), (2, 1)), 'u': ((1, 2), (0, 1))},
        {'t': ((None, 1), (1, None)), 'u': ((None, 0), (1, 1))},
        {'t': ((1, 1), (1, 1)), 'u': ((1, 2), (1, 2))},
        {'t': ((0, 2), (2, 0), (1, 1)), 'u': ((2, None), (0, 0), (0, 1))},
        {'t': ((2, 1), (0, None), (None, None)), 'u': ((1, 1), (2, 2), (None, 0))},
        # text values (the columns have INTEGER affinity, which keeps non-numeric text as text)
        {'t': (('C:\\data\\a.csv', 1), ("it's", 2)), 'u': (('100%', 'a_b'), ('x\ny', None))},
        {'t': (('\u00e9\u6f22', '%'), ('_', '')), 'u': (('C:\\data\\a.csv', '"q"'), ("it's", "it's"))},
        {'t': ((':p', '%s'), ('a\\nb', 'C:\\data\\%')), 'u': (('%(x)s', '--x'), ("''", 'tab\there'))},
    ]


def sample_dbs(rng, n, max_rows):
    ts = all_tables(max_rows)
    dbs = fixed_dbs()
    while len(dbs) < n:
        dbs.append({'t': rng.choice(ts), 'u': rng.choice(ts)})
    return dbs[:max(n, 4)]


class Db:
    """one content, held twice (rows inserted forwards and backwards) so that results that depend on the
    physical row order (LIMIT without a total ORDER BY, ties) can be recognised and compared more weakly"""

    def __init__(self, content):
        self.content = content
        self.conns = []
        for rev in (False, True):
            c = sqlite3.connect(':memory:')
            for name, cols in SCHEMA.items():
                c.execute('CREATE TABLE %s (%s)' % (name, ', '.join('%s INTEGER' % x for x in cols)))
                rows = list(content.get(name, ()))
                if rev:
                    rows.reverse()
                c.executemany('INSERT INTO %s VALUES (%s)' % (name, ','.join('?' * len(cols))), rows)
            c.commit()
            self.conns.append(c)

    def close(self):
        for c in self.conns:
            c.close()


def norm_val(v):
    if isinstance(v, float) and v == int(v) and abs(v) < 1e15:
        return ('f', int(v))          # 2.0 and 2 are different SQL values; keep the tag
    if isinstance(v, float):
        return ('f', round(v, 9))
    return v


def skey(row):
    return tuple((0, '') if v is None else (1, repr(v)) for v in row)


def run_select(conn, sql):
    try:
        cur = conn.execute(sql)
        rows = [tuple(norm_val(v) for v in r) for r in cur.fetchall()]
        names = [d[0] for d in cur.description] if cur.description else []
        return ('ok', rows, names)
    except sqlite3.Error as e:
        return ('err', '%s: %s' % (type(e).__name__, str(e)[:120]), None)


def affinity(decl):
    """sqlite's column affinity of a declared type (https://sqlite.org/datatype3.html 3.1)"""
    d = (decl or '').upper()
    if 'INT' in d:
        return 'INTEGER'
    if any(x in d for x in ('CHAR', 'CLOB', 'TEXT')):
        return 'TEXT'
    if 'BLOB' in d or not d:
        return 'BLOB'
    if any(x in d for x in ('REAL', 'FLOA', 'DOUB')):
        return 'REAL'
    return 'NUMERIC'


def table_info(conn, name):
    """per column: (name, affinity, NOT NULL in effect, member of the primary key (a set: the order of a composite key
    is not an effect on contents), default).
    A primary-key column counts as NOT NULL (SQL; sqlite itself lets NULLs into non-INTEGER keys)."""
    return [(r[1], affinity(r[2]), bool(r[3]) or r[5] > 0, int(r[5] > 0), r[4]) for r in conn.execute('PRAGMA table_info("%s")' % name)]


def dump(conn, schema=False):
    """contents of every user table (columns + rows as a multiset), with the declared constraints when asked"""
    out = {}
    try:
        names = [r[0] for r in conn.execute("SELECT name FROM sqlite_master WHERE type='table' ORDER BY name")]
        for n in names:
            cur = conn.execute('SELECT * FROM "%s"' % n)
            cols = [d[0] for d in cur.description]
            out[n] = (cols, sorted((tuple(r) for r in cur.fetchall()), key=skey))
            if schema:
                out[n] += (table_info(conn, n),)
    except sqlite3.Error as e:
        out['!'] = str(e)
    return out


def constraint_workload(conn):
    """make the constraints of every table observable in its contents: rows carrying a NULL in each non-key column,
    a repeated row, and updates to NULL -- all OR IGNORE, so a constraint shows as a row that is (not) there"""
    try:
        names = [r[0] for r in conn.execute("SELECT name FROM sqlite_master WHERE type='table' ORDER BY name")]
        for n in names:
            info = table_info(conn, n)
            cols = [c[0] for c in info]
            if not cols:
                continue
            full = [70 + i for i in range(len(cols))]
            stmts = []
            for rep_ in range(2):
                stmts.append(('INSERT OR IGNORE INTO "%s" (%s) VALUES (%s)' % (n, ', '.join(cols), ', '.join('?' * len(cols))), full))
            for i, c in enumerate(info):
                if c[3] > 0:
                    continue            # no NULL into a key column (sqlite's own leniency there is not the renderer's matter)
                vals = [80 + 10 * i + j for j in range(len(cols))]
                vals[i] = None
                stmts.append(('INSERT OR IGNORE INTO "%s" (%s) VALUES (%s)' % (n, ', '.join(cols), ', '.join('?' * len(cols))), vals))
                rest = [x for j, x in enumerate(cols) if j != i]
                if rest:            # the column left out: its default applies
                    stmts.append(('INSERT OR IGNORE INTO "%s" (%s) VALUES (%s)' % (n, ', '.join(rest), ', '.join('?' * len(rest))),
                                  [60 + 10 * i + j for j in range(len(rest))]))
            for i, c in enumerate(info):
                if c[3] == 0:
                    stmts.append(('UPDATE OR IGNORE "%s" SET %s = NULL WHERE %s = ?' % (n, c[0], c[0]), [70 + i]))
            for sql, args in stmts:
                try:
                    conn.execute(sql, args)
                except sqlite3.Error:
                    pass
    except sqlite3.Error:
        pass


def run_dml(content, sql, rev=False):
    """execute a DML/DDL text on a fresh copy of the content; returns ('ok', dump) or ('err', msg)"""
    c = sqlite3.connect(':memory:')
    try:
        for name, cols in SCHEMA.items():
            c.execute('CREATE TABLE %s (%s)' % (name, ', '.join('%s INTEGER' % x for x in cols)))
            rows = list(content.get(name, ()))
            if rev:
                rows.reverse()
            c.executemany('INSERT INTO %s VALUES (%s)' % (name, ','.join('?' * len(cols))), rows)
        try:
            c.execute(sql)
        except sqlite3.Error as e:
            return ('err', '%s: %s' % (type(e).__name__, str(e)[:120]))
        before = dump(c, schema=True)
        constraint_workload(c)
        return ('ok', dict(after_statement=before, after_constraint_workload=dump(c)))
    finally:
        c.close()


def with_keys(sql, keys):
    """append the ORDER BY key expressions to the select list of a plain top-level SELECT (None when there is none)"""
    depth = 0
    for i, ch in enumerate(sql):
        if ch == '(':
            depth += 1
        elif ch == ')':
            depth -= 1
        elif depth == 0 and sql.startswith(' FROM ', i):
            return sql[:i] + ', ' + ', '.join('(%s)' % k for k in keys) + sql[i:]
    return None


LIMIT_ORIG = re.compile(r'\s+LIMIT (\d+)(?: OFFSET (\d+))?\s*$')
LIMIT_REND = (re.compile(r'\s+LIMIT (?P<n>\d+) OFFSET (?P<o>\d+)\s*$'), re.compile(r'\s+LIMIT (?P<o>\d+), (?P<n>\d+)\s*$'),
              re.compile(r'\s+LIMIT (?P<n>\d+)\s*$'))


def split_limit(orig, rend):
    """a top-level LIMIT/OFFSET makes the result depend on how the engine breaks ties (and, without ORDER BY, on its
    loop order), so it is judged separately: the numbers must coincide and the statements without it are compared.
    returns (orig', rend', verdict) -- verdict is None or a difference; (None, None, None) when there is no LIMIT"""
    mo = LIMIT_ORIG.search(orig)
    if not mo:
        return None, None, None
    want = (int(mo.group(1)), int(mo.group(2) or 0))
    for rx in LIMIT_REND:
        mr = rx.search(rend)
        if mr:
            got = (int(mr.group('n')), int(mr.groupdict().get('o') or 0))
            verdict = None if got == want else dict(kind='limit-differs', orig_limit_offset=want, rend_limit_offset=got)
            return orig[:mo.start()], rend[:mr.start()], verdict
    return orig[:mo.start()], rend, dict(kind='limit-differs', orig_limit_offset=want, rend_limit_offset=None)


def compare_select(db, orig, rend, ordered, alias_names=(), order_keys=None, order_cols=None):
    o2, r2, verdict = split_limit(orig, rend)
    if o2 is not None:
        if verdict:
            return verdict if run_select(db.conns[0], orig)[0] == 'ok' else 'skip-orig-error'
        a, b = run_select(db.conns[0], orig), run_select(db.conns[0], rend)
        if a[0] == 'ok' and b[0] == 'ok' and len(a[1]) != len(b[1]):
            return dict(kind='rows-differ', orig_rows=a[1], rend_rows=b[1])
        if a[0] == 'ok' and b[0] == 'err':
            return dict(kind='rendered-text-fails', error=b[1], orig_rows=a[1])
        orig, rend = o2, r2
    """returns None (agree / not comparable) or a dict describing the difference.
    `ordered`: the statement has a top-level ORDER BY -> lists are compared when the original's own
    result does not depend on the physical row order."""
    o0 = run_select(db.conns[0], orig)
    if o0[0] == 'err':
        return 'skip-orig-error'
    o1 = run_select(db.conns[1], orig)
    r0 = run_select(db.conns[0], rend)
    if r0[0] == 'err':
        return dict(kind='rendered-text-fails', error=r0[1], orig_rows=o0[1])
    ms = lambda rows: sorted(rows, key=skey)
    if o1[0] != 'ok' or ms(o0[1]) != ms(o1[1]):
        return 'skip-nondeterministic'
    if ms(o0[1]) != ms(r0[1]):
        return dict(kind='rows-differ', orig_rows=o0[1], rend_rows=r0[1])
    if ordered and order_keys and o0[1] != r0[1]:
        # same order up to ties: the sequences of ORDER BY key values must coincide
        ok_, rk_ = with_keys(orig, order_keys), with_keys(rend, order_keys)
        if ok_ and rk_:
            a, b = run_select(db.conns[0], ok_), run_select(db.conns[0], rk_)
            n = len(order_keys)
            if a[0] == 'ok' and b[0] == 'ok' and [r[-n:] for r in a[1]] != [r[-n:] for r in b[1]]:
                return dict(kind='order-differs', orig_rows=o0[1], rend_rows=r0[1],
                            orig_keys=[r[-n:] for r in a[1]], rend_keys=[r[-n:] for r in b[1]])
    if ordered and order_cols and o0[1] != r0[1]:
        # the ORDER BY keys are output columns (also usable under DISTINCT): their value sequences must coincide
        a, b = [tuple(r[i] for i in order_cols) for r in o0[1]], [tuple(r[i] for i in order_cols) for r in r0[1]]
        if a != b:
            return dict(kind='order-differs', orig_rows=o0[1], rend_rows=r0[1], orig_keys=a, rend_keys=b)
    for i, nm in alias_names:
        if i < len(r0[2]) and r0[2][i].lower() != nm.lower():
            return dict(kind='alias-differs', orig_names=o0[2], rend_names=r0[2])
    return None


def compare_dml(content, orig, rend):
    o0 = run_dml(content, orig)
    if o0[0] == 'err':
        return 'skip-orig-error'
    o1 = run_dml(content, orig, rev=True)
    if o1 != o0:
        return 'skip-nondeterministic'
    r0 = run_dml(content, rend)
    if r0[0] == 'err':
        return dict(kind='rendered-text-fails', error=r0[1])
    if r0[1] != o0[1]:
        return dict(kind='tables-differ', orig=o0[1], rend=r0[1])
    return None


# ----------------------------------------------------------------------------------------------- generator
class Gen:
    """typed generator of statement *texts*; every construct records a feature tag so that failures can
    be classified narrowly and the distribution reported"""

    def __init__(self, rng):
        self.rng = rng
        self.feats = set()
        self.strs = set()

    def f(self, tag):
        self.feats.add(tag)

    def sval(self):
        """a string literal; the value is recorded so that the harness can tell a parser decoding problem (C04) apart"""
        v = self.rng.choice(STR_VALUES)
        self.strs.add(v)
        self.f('strlit')
        return strlit(v)

    def str_pred(self, cols):
        rng = self.rng
        c = rng.choice(cols)
        k = rng.random()
        if k < 0.4:
            return '%s %s %s' % (c, rng.choice(('=', '<>', '!=', '<', '>=')), self.sval())
        if k < 0.65:
            self.f('op:LIKE')
            return '%s %s %s' % (c, rng.choice(('LIKE', 'NOT LIKE')), self.sval())
        if k < 0.85:
            return '%s %s (%s)' % (c, rng.choice(('IN', 'NOT IN')), ', '.join(self.sval() for _ in range(rng.randint(2, 3))))
        return '%s = %s' % (self.sval(), c)

    # ---- expressions over the columns in scope
    ARITH = ('+', '-', '*', '/', '%')
    CMP = ('=', '<>', '!=', '<', '<=', '>', '>=')

    def atom(self, cols):
        r = self.rng.random()
        if r < 0.62 and cols:
            return self.rng.choice(cols)
        if r < 0.9:
            return str(self.rng.choice((0, 1, 2, 3)))
        self.f('null-const')
        return 'NULL'

    def expr(self, cols, depth, boolean=False, sub=True):
        rng = self.rng
        if depth <= 0:
            return self.atom(cols)
        r = rng.random()
        p = lambda s: '(' + s + ')' if rng.random() < 0.45 else s
        if boolean:
            if cols and rng.random() < 0.07:
                return self.str_pred(cols)
            if r < 0.22:
                op = rng.choice(('AND', 'OR'))
                self.f('op:' + op)
                return '%s %s %s' % (p(self.expr(cols, depth - 1, True, sub)), op, p(self.expr(cols, depth - 1, True, sub)))
            if r < 0.34:
                self.f('op:NOT')
                return 'NOT ' + p(self.expr(cols, depth - 1, True, sub))
            if r < 0.62:
                op = rng.choice(self.CMP)
                self.f('op:' + op)
                return '%s %s %s' % (p(self.expr(cols, depth - 1, False, sub)), op, p(self.expr(cols, depth - 1, False, sub)))
            if r < 0.70:
                op = rng.choice(('IS NULL', 'IS NOT NULL'))
                self.f('op:' + op)
                return '%s %s' % (p(self.expr(cols, depth - 1, False, sub)), op)
            if r < 0.74:
                op = rng.choice(('IS', 'IS NOT'))
                self.f('op:' + op)
                return '%s %s %s' % (p(self.expr(cols, depth - 1, False, sub)), op, p(self.expr(cols, depth - 1, False, sub)))
            if r < 0.81:
                op = rng.choice(('BETWEEN', 'NOT BETWEEN'))
                self.f('op:' + op)
                return '%s %s %s AND %s' % (p(self.expr(cols, depth - 1, False, sub)), op,
                                            p(self.expr(cols, depth - 1, False, sub)), p(self.expr(cols, depth - 1, False, sub)))
            if r < 0.88:
                op = rng.choice(('IN', 'NOT IN'))
                self.f('op:' + op)
                items = ', '.join(self.expr(cols, 0) for _ in range(rng.randint(2, 3)))
                return '%s %s (%s)' % (p(self.expr(cols, depth - 1, False, sub)), op, items)
            if r < 0.91:
                op = rng.choice(('LIKE', 'NOT LIKE'))
                self.f('op:' + op)
                return "%s %s '%s'" % (self.atom(cols), op, rng.choice(('1', '%', '_', '1%', '')))
            if r < 0.95 and sub:
                k = rng.choice(('IN', 'NOT IN', 'EXISTS', 'NOT EXISTS'))
                self.f('subq:' + k)
                inner = self.simple_select(depth - 1, ncols=1)
                if k in ('IN', 'NOT IN'):
                    return '%s %s (%s)' % (self.atom(cols), k, inner)
                return '%s (%s)' % (k, inner)
            return p(self.expr(cols, depth - 1, False, sub))
        if r < 0.45:
            op = rng.choice(self.ARITH)
            self.f('op:' + op)
            return '%s %s %s' % (p(self.expr(cols, depth - 1, False, sub)), op, p(self.expr(cols, depth - 1, False, sub)))
        if r < 0.53:
            self.f('op:neg')
            return '- ' + p(self.expr(cols, depth - 1, False, sub))
        if r < 0.63:
            fn = rng.choice(('abs', 'coalesce', 'ifnull', 'max', 'min', 'nullif', 'length'))
            self.f('fn:' + fn)
            n = 1 if fn in ('abs', 'length') else 2
            return '%s(%s)' % (fn, ', '.join(self.expr(cols, depth - 1, False, sub) for _ in range(n)))
        if r < 0.71:
            self.f('case')
            if rng.random() < 0.5:
                return 'CASE WHEN %s THEN %s ELSE %s END' % (self.expr(cols, depth - 1, True, sub), self.expr(cols, depth - 1, False, sub),
                                                             self.expr(cols, depth - 1, False, sub))
            self.f('case-operand')
            return 'CASE %s WHEN %s THEN %s WHEN %s THEN %s END' % (self.atom(cols), self.atom(cols), self.expr(cols, depth - 1, False, sub),
                                                                    self.atom(cols), self.atom(cols))
        if r < 0.76:
            ty = rng.choice(('INTEGER', 'TEXT', 'VARCHAR', 'FLOAT', 'INT'))
            self.f('cast:' + ty)
            return 'CAST(%s AS %s)' % (self.expr(cols, depth - 1, False, sub), ty)
        if r < 0.80 and sub:
            self.f('subq:scalar')
            return '(%s)' % self.simple_select(depth - 1, ncols=1, scalar=True)
        if r < 0.90:
            # always parenthesised: a comparison directly under a comparison is grouped differently by the
            # library's parsers and by SQL engines (outside C06; see C03's side condition)
            return '(' + self.expr(cols, depth - 1, True, sub) + ')'
        return self.atom(cols)

    # ---- FROM
    def from_clause(self, depth):
        """returns (text, columns in scope)"""
        rng = self.rng
        r = rng.random()
        if r < 0.30:
            tb = rng.choice(('t', 'u'))
            if rng.random() < 0.3:
                self.f('table-alias')
                al = 'x'
                return '%s AS %s' % (tb, al), ['%s.%s' % (al, c) for c in SCHEMA[tb]]
            return tb, list(SCHEMA[tb]) + ['%s.%s' % (tb, c) for c in SCHEMA[tb]]
        if r < 0.40 and depth > 0:
            self.f('from-subquery')
            inner = self.simple_select(depth - 1, ncols=2, names=('p', 'q'))
            return '(%s) AS s' % inner, ['p', 'q', 's.p', 's.q']
        # join chain
        n = 2 if rng.random() < 0.8 else 3
        tabs = [('t', 't'), ('u', 'u'), ('t', 't2')][:n]
        if rng.random() < 0.3:
            tabs[0], tabs[1] = tabs[1], tabs[0]
        text = tabs[0][0]
        cols = ['%s.%s' % (tabs[0][1], c) for c in SCHEMA[tabs[0][0]]]
        for tb, al in tabs[1:]:
            ref = tb if tb == al else '%s AS %s' % (tb, al)
            newcols = ['%s.%s' % (al, c) for c in SCHEMA[tb]]
            if rng.random() < 0.08:
                self.f('join:implicit')
                text += ', ' + ref
                cols += newcols
                continue
            sp = rng.choice(JOIN_SPELLINGS)
            self.f('join:' + sp)
            cols += newcols
            if sp == 'CROSS JOIN' or (sp in ('JOIN', 'INNER JOIN') and rng.random() < 0.15):
                self.f('join-no-on')
                text += ' %s %s' % (sp, ref)
            else:
                if rng.random() < 0.6:
                    cond = '%s = %s' % (rng.choice(cols[:-2]), rng.choice(newcols))
                else:
                    cond = self.expr(cols, 1, True, sub=False)
                text += ' %s %s ON %s' % (sp, ref, cond)
        return text, cols

    # ---- SELECT
    def simple_select(self, depth, ncols=None, names=None, scalar=False):
        rng = self.rng
        frm, cols = self.from_clause(0)
        n = ncols or rng.randint(1, 3)
        if scalar:
            self.f('agg')
            t = '%s(%s)' % (rng.choice(('max', 'min', 'count', 'sum')), rng.choice(cols))
            return 'SELECT %s FROM %s' % (t, frm)
        ts = [self.expr(cols, max(depth, 0), False, sub=False) for _ in range(n)]
        if names:
            ts = ['%s AS %s' % (x, nm) for x, nm in zip(ts, names)]
        s = 'SELECT %s FROM %s' % (', '.join(ts), frm)
        if rng.random() < 0.4:
            s += ' WHERE ' + self.expr(cols, 1, True, sub=False)
        return s

    def select(self, depth=2, top=True):
        """returns (text, ordered, alias_names)"""
        rng = self.rng
        frm, cols = self.from_clause(depth)
        targets, alias = [], []
        grouped = rng.random() < 0.18
        windowed = (not grouped) and rng.random() < 0.08
        group_cols = []
        if grouped:
            self.f('group-by')
            group_cols = rng.sample(cols, 1 if rng.random() < 0.7 else 2)
            targets = list(group_cols)
            for _ in range(rng.randint(1, 2)):
                fn = rng.choice(('count', 'sum', 'min', 'max', 'avg', 'count-distinct', 'count-star'))
                self.f('agg:' + fn)
                if fn == 'count-star':
                    targets.append('count(*)')
                elif fn == 'count-distinct':
                    targets.append('count(DISTINCT %s)' % rng.choice(cols))
                else:
                    targets.append('%s(%s)' % (fn, self.expr(cols, 1, False, sub=False)))
        else:
            r = rng.random()
            if r < 0.08:
                self.f('star')
                targets = ['*']
            elif r < 0.13 and '.' in cols[0]:
                self.f('qualified-star')
                targets = [cols[0].split('.')[0] + '.*']
            else:
                for _ in range(rng.randint(1, 3)):
                    targets.append(self.expr(cols, rng.randint(0, depth), rng.random() < 0.25))
                if rng.random() < 0.08:
                    targets.append(self.sval())
            if windowed:
                self.f('window')
                fn = rng.choice(('row_number()', 'rank()', 'sum(%s)' % rng.choice(cols), 'count(*)', 'max(%s)' % rng.choice(cols)))
                over = []
                if rng.random() < 0.6:
                    over.append('PARTITION BY ' + rng.choice(cols))
                if rng.random() < 0.7 or fn in ('row_number()', 'rank()'):
                    o = rng.choice(cols)
                    d = rng.choice(('', ' ASC', ' DESC'))
                    if d.strip() == 'DESC':
                        self.f('window-desc')
                    over.append('ORDER BY %s%s' % (', '.join(cols[:2]) if fn == 'row_number()' else o, d))
                targets.append('%s OVER (%s)' % (fn, ' '.join(over)))
        out = []
        for i, x in enumerate(targets):
            if x != '*' and not x.endswith('.*') and rng.random() < 0.3:
                nm = 'k%d' % i
                self.f('alias')
                out.append('%s AS %s' % (x, nm))
                alias.append((i, nm))
            else:
                out.append(x)
        distinct = rng.random() < 0.15
        if distinct:
            self.f('distinct')
        s = 'SELECT %s%s FROM %s' % ('DISTINCT ' if distinct else '', ', '.join(out), frm)
        if rng.random() < 0.5:
            s += ' WHERE ' + self.expr(cols, rng.randint(1, depth + 1), True)
        if grouped:
            s += ' GROUP BY ' + ', '.join(group_cols)
            if rng.random() < 0.5:
                self.f('having')
                s += ' HAVING %s %s %s' % (rng.choice(('count(*)', 'max(%s)' % cols[0], 'sum(%s)' % cols[-1])),
                                           rng.choice(self.CMP), rng.choice((0, 1, 2)))
        ordered = False
        self.order_keys = None
        self.order_cols = None
        if top or rng.random() < 0.2:
            if rng.random() < 0.45:
                ordered = True
                keys = []
                bare = []
                pool = group_cols if grouped else cols
                for c in rng.sample(pool, min(len(pool), rng.randint(1, 2))):
                    k = c if rng.random() < 0.8 or grouped else self.expr(cols, 1, False, sub=False)
                    d = rng.choice(('', ' ASC', ' DESC'))
                    nl = rng.choice(('', '', ' NULLS FIRST', ' NULLS LAST'))
                    self.f('order:%s%s' % (d.strip() or 'default', ('/' + nl.strip()) if nl else ''))
                    keys.append(k + d + nl)
                    bare.append(k)
                s += ' ORDER BY ' + ', '.join(keys)
                if not distinct:
                    self.order_keys = bare
                if all(k in targets for k in bare) and '*' not in targets:
                    self.order_cols = [targets.index(k) for k in bare]
            if rng.random() < 0.04:
                self.f('offset-without-limit')
                s += ' OFFSET %d' % rng.randint(0, 2)
            elif rng.random() < 0.25:
                self.f('limit')
                s += ' LIMIT %d' % rng.randint(0, 3)
                if rng.random() < 0.5:
                    self.f('offset')
                    s += ' OFFSET %d' % rng.randint(0, 2)
        return s, ordered, ([] if '*' in s.split(' FROM ')[0] else alias)

    def nested_same_table(self):
        """a sub-query (IN / EXISTS / scalar) whose FROM lists, un-aliased, a table the enclosing query also uses
        un-aliased -- as comma join or explicit join, correlated or not.  In SQL the inner occurrence shadows the outer."""
        rng = self.rng
        outer = rng.choice((['t'], ['u'], ['t', 'u'], ['u', 't']))
        ocols = ['%s.%s' % (tb, c) for tb in outer for c in SCHEMA[tb]]
        if len(outer) == 1:
            ofrom = outer[0]
        elif rng.random() < 0.5:
            self.f('join:implicit')
            ofrom = ', '.join(outer)
        else:
            sp = rng.choice(('JOIN', 'LEFT JOIN', 'INNER JOIN'))
            self.f('join:' + sp)
            ofrom = '%s %s %s ON %s.a = %s.a' % (outer[0], sp, outer[1], outer[0], outer[1])
        shared = rng.choice(outer)
        other = 'u' if shared == 't' else 't'
        shape = rng.choice(('comma', 'comma-rev', 'join', 'single', 'comma-self'))
        self.f('nested-same-table:' + shape)
        if shape == 'comma':
            ifrom, itabs = '%s, %s' % (other, shared), [other, shared]
        elif shape == 'comma-rev':
            ifrom, itabs = '%s, %s' % (shared, other), [shared, other]
        elif shape == 'join':
            sp = rng.choice(('JOIN', 'LEFT JOIN'))
            ifrom, itabs = '%s %s %s ON %s.a = %s.a' % (shared, sp, other, shared, other), [shared, other]
        elif shape == 'single':
            ifrom, itabs = shared, [shared]
        else:
            ifrom, itabs = '%s, %s AS z' % (shared, shared), [shared]
        icols = ['%s.%s' % (tb, c) for tb in itabs for c in SCHEMA[tb]]
        conds = []
        if len(itabs) == 2 and shape != 'join' and rng.random() < 0.7:
            conds.append('%s = %s' % (rng.choice([c for c in icols if c.startswith(itabs[0])]),
                                     rng.choice([c for c in icols if c.startswith(itabs[1])])))
        only_outer = [c for c in ocols if c.split('.')[0] not in itabs]
        if only_outer and rng.random() < 0.5:
            self.f('nested-correlated')
            conds.append('%s %s %s' % (rng.choice(icols), rng.choice(('=', '<', '<>')), rng.choice(only_outer)))
        if rng.random() < 0.4 or not conds:
            conds.append(self.expr(icols, 1, True, sub=False))
        iwhere = ' WHERE ' + ' AND '.join(conds)
        kind = rng.choice(('IN', 'NOT IN', 'EXISTS', 'NOT EXISTS', 'scalar', 'scalar-target'))
        self.f('subq:' + kind)
        agg = '%s(%s)' % (rng.choice(('max', 'min', 'count', 'sum')), rng.choice(icols))
        targets = ', '.join(rng.sample(ocols, min(len(ocols), rng.randint(1, 2))))
        if kind in ('IN', 'NOT IN'):
            pred = '%s %s (SELECT %s FROM %s%s)' % (rng.choice(ocols), kind, rng.choice(icols), ifrom, iwhere)
        elif kind in ('EXISTS', 'NOT EXISTS'):
            pred = '%s (SELECT %s FROM %s%s)' % (kind, rng.choice(icols), ifrom, iwhere)
        elif kind == 'scalar':
            pred = '%s %s (SELECT %s FROM %s%s)' % (rng.choice(ocols), rng.choice(('=', '<', '>=')), agg, ifrom, iwhere)
        else:
            targets += ', (SELECT %s FROM %s%s)' % (agg, ifrom, iwhere)
            pred = None
        s = 'SELECT %s FROM %s' % (targets, ofrom)
        if pred:
            if rng.random() < 0.3:
                pred = '%s AND %s' % (pred, self.expr(ocols, 1, True, sub=False))
            s += ' WHERE ' + pred
        return s, False, []

    def nested_scope(self):
        """a chain of 2-3 nested expression sub-queries (EXISTS / IN / scalar, in WHERE or in the select list) whose FROM
        lists -- single tables, comma lists of 2-3 entries, explicit joins -- repeat an entry of an ENCLOSING level under
        the same visible name: the same table with the same alias, or un-aliased both times.  In SQL the inner entry
        hides the outer one; every FROM list must arrive in the rendered text in full.
        returns (text, levels) -- levels: per nesting level the FROM entries ('t', table, alias) / ('j', [(table, alias)…])"""
        rng = self.rng
        nlev = 2 if rng.random() < 0.6 else 3
        name = lambda e: e[1] or e[0]
        ref = lambda e: e[0] if e[1] is None else '%s AS %s' % e
        cols = lambda e: ['%s.%s' % (name(e), c) for c in SCHEMA[e[0]]]
        levels = []
        for k in range(nlev):
            n = rng.choice((1, 2, 2, 3)) if k else rng.choice((1, 1, 2, 2))
            ents = []
            enclosing = [e for lv in levels for e in lv['ents']]
            if k and rng.random() < 0.8:
                e = rng.choice(enclosing)
                ents.append(e)
                self.f('nested-scope:repeat-' + ('aliased' if e[1] else 'unaliased'))
                if rng.random() < 0.85:
                    n = max(n, 2)
            for _ in range(30):
                if len(ents) >= n:
                    break
                e = (rng.choice(('t', 'u')), rng.choice((None, None, 'x', 'y', 'z')))
                if name(e) not in [name(x) for x in ents]:
                    ents.append(e)
            rng.shuffle(ents)
            form = 'join' if len(ents) >= 2 and rng.random() < (0.4 if k == 0 else 0.15) else 'comma'
            levels.append(dict(ents=ents, form=form))
        self.f('nested-scope')
        self.f('nested-scope:levels=%d' % nlev)
        text = None
        for k in reversed(range(nlev)):
            lv = levels[k]
            ents = lv['ents']
            own = [c for e in ents for c in cols(e)]
            if lv['form'] == 'join':
                self.f('nested-scope:join')
                frm = ref(ents[0])
                for i, e in enumerate(ents[1:]):
                    sp = rng.choice(('JOIN', 'LEFT JOIN', 'INNER JOIN'))
                    frm += ' %s %s ON %s = %s' % (sp, ref(e), rng.choice(cols(ents[i])), rng.choice(cols(e)))
            else:
                if len(ents) > 1:
                    self.f('nested-scope:comma')
                frm = ', '.join(ref(e) for e in ents)
            conds = []
            if len(ents) >= 2 and lv['form'] == 'comma' and rng.random() < 0.7:
                conds.append('%s %s %s' % (rng.choice(cols(ents[0])), rng.choice(('=', '=', '<', '<>')), rng.choice(cols(ents[1]))))
            hidden = {name(e) for e in ents}
            outer = []
            for j in reversed(range(k)):
                for e in levels[j]['ents']:
                    if name(e) not in hidden:
                        outer += cols(e)
                        hidden.add(name(e))
            if outer and rng.random() < 0.5:
                self.f('nested-correlated')
                conds.append('%s %s %s' % (rng.choice(own), rng.choice(('=', '<', '<>', '>=')), rng.choice(outer)))
            if rng.random() < 0.3:
                conds.append(self.expr(own, 1, True, sub=False))
            target_sub = None
            if text is not None:
                inner, ikind = text
                if ikind in ('IN', 'NOT IN'):
                    conds.append('%s %s (%s)' % (rng.choice(own), ikind, inner))
                elif ikind in ('EXISTS', 'NOT EXISTS'):
                    conds.append('%s (%s)' % (ikind, inner))
                elif ikind == 'scalar':
                    conds.append('%s %s (%s)' % (rng.choice(own), rng.choice(('=', '<', '>=', '<>')), inner))
                else:
                    target_sub = '(%s)' % inner
            rng.shuffle(conds)
            where = ' WHERE ' + ' AND '.join(conds) if conds else ''
            if k == 0:
                ts = rng.sample(own, min(len(own), rng.randint(1, 2)))
                if target_sub:
                    ts.append(target_sub)
                text = 'SELECT %s FROM %s%s' % (', '.join(ts), frm, where)
                break
            kind = rng.choice(('IN', 'NOT IN', 'EXISTS', 'EXISTS', 'NOT EXISTS', 'scalar', 'scalar-target'))
            self.f('subq:' + kind)
            if kind in ('scalar', 'scalar-target'):
                tg = rng.choice(('count(*)', '%s(%s)' % (rng.choice(('max', 'min', 'count', 'sum')), rng.choice(own))))
                self.f('agg')
            elif kind in ('EXISTS', 'NOT EXISTS') and rng.random() < 0.5:
                tg = '1'
            else:
                tg = rng.choice(own)
            if target_sub:
                # a sub-query in the select list of a sub-query: only where one value is selected anyway
                tg = target_sub if kind in ('EXISTS', 'NOT EXISTS') else tg
                if tg != target_sub:
                    conds.append('%s IS NOT NULL' % target_sub)
                    where = ' WHERE ' + ' AND '.join(conds)
            text = ('SELECT %s FROM %s%s' % (tg, frm, where), kind)
        out = []
        for lv in levels:
            if lv['form'] == 'join':
                out.append([('j', [tuple(e) for e in lv['ents']])])
            else:
                out.append([('t',) + tuple(e) for e in lv['ents']])
        self.scope_levels = out
        return text, False, []

    # constructs the SQLAlchemy path of the renderer refuses (NotImplementedError / CompileError), as one-column SELECTs
    UNSUPPORTED = (
        ('right-join', 'SELECT t.a FROM t RIGHT JOIN u ON t.a = u.a'),
        ('outer-join', 'SELECT t.a FROM t OUTER JOIN u ON t.a = u.a'),
        ('cast-type-target', 'SELECT CAST(a AS FOO) FROM t'),
        ('cast-type-where', 'SELECT a FROM t WHERE CAST(b AS FOO) = 1'),
        ('cast-type-order', 'SELECT a FROM t ORDER BY CAST(b AS FOO)'),
        ('table-path', 'SELECT a FROM y.z.t'),
        ('param-alias', 'SELECT ? AS a FROM t'),
        ('union-columns', 'SELECT a FROM t UNION SELECT a, b FROM t'),
    )

    def poison(self):
        """a statement whose rendering fails PART-WAY: an unsupported construct at some nesting position (derived table, once
        or twice deep, as join operand; IN / EXISTS / scalar sub-query; CTE body; set-operation operand; after a derived table
        was rendered; in a DML statement) -- or at top level.  Only rendered, never executed.
        returns (text, tag)"""
        rng = self.rng
        what, x = rng.choice(self.UNSUPPORTED)
        ok = rng.choice(('SELECT a FROM t ORDER BY a DESC', 'SELECT a FROM u', 'SELECT b AS a FROM t ORDER BY b LIMIT 2'))
        where = rng.choice(('top', 'derived', 'derived', 'derived', 'derived-join', 'derived2', 'derived-ordered', 'in', 'exists', 'scalar',
                            'cte', 'cte', 'setop-left', 'setop-right', 'setop-nested', 'after-derived', 'after-subquery', 'two-derived',
                            'insert-select', 'delete-in'))
        text = {
            'top': x,
            'derived': 'SELECT * FROM (%s) AS s' % x,
            'derived-join': 'SELECT t.a FROM t JOIN (%s) AS s ON t.a = s.a' % x,
            'derived2': 'SELECT * FROM (SELECT * FROM (%s) AS s1 ORDER BY 1) AS s2' % x,
            'derived-ordered': 'SELECT s.a FROM (%s) AS s ORDER BY s.a DESC' % x,
            'in': 'SELECT a FROM t WHERE a IN (%s)' % x,
            'exists': 'SELECT a FROM t WHERE EXISTS (%s) ORDER BY a' % x,
            'scalar': 'SELECT a, (%s) FROM t' % x,
            'cte': 'WITH w AS (%s) SELECT * FROM w' % x,
            'setop-left': '%s UNION SELECT a FROM t' % x,
            'setop-right': 'SELECT a FROM t UNION ALL %s' % x,
            'setop-nested': 'SELECT a FROM t EXCEPT (SELECT a FROM u UNION %s)' % x,
            'after-derived': 'SELECT s.a FROM (%s) AS s WHERE CAST(s.a AS FOO) = 1' % ok,
            'after-subquery': 'SELECT a FROM t WHERE a IN (%s) AND CAST(b AS FOO) = 1' % ok.split(' ORDER BY')[0],
            'two-derived': 'SELECT s1.a FROM (%s) AS s1 JOIN (%s) AS s2 ON s1.a = s2.a' % (ok, x),
            'insert-select': 'INSERT INTO t (a, b) SELECT s.a, s.a FROM (%s) AS s' % x,
            'delete-in': 'DELETE FROM t WHERE a IN (%s)' % x,
        }[where]
        return text, '%s@%s' % (what, where)

    def ordered_select(self):
        """a generated SELECT with a top-level ORDER BY (any shape `select` has: joins, derived tables with their own ORDER BY,
        GROUP BY, DISTINCT, windows, sub-queries; mostly without LIMIT)"""
        for _ in range(40):
            self.feats, self.strs = set(), set()
            text, ordered, alias = self.select()
            if ordered and (self.order_keys or self.order_cols):
                if ' LIMIT ' in text.rsplit(')', 1)[-1] and self.rng.random() < 0.6:
                    text = re.sub(r' LIMIT \d+(?: OFFSET \d+)?$', '', text)
                break
        return dict(kind='select', text=text, ordered=ordered, alias=alias, feats=sorted(self.feats), order_keys=self.order_keys,
                    order_cols=self.order_cols, strs=sorted(self.strs))

    def having_no_group(self):
        """aggregates over the single implicit group with HAVING and no GROUP BY: top level, IN / scalar sub-query,
        CTE body, INSERT … SELECT source"""
        rng = self.rng
        frm, cols = self.from_clause(0)
        self.f('having-without-group-by')

        def agg():
            fn = rng.choice(('count(*)', 'count', 'sum', 'min', 'max'))
            return fn if fn == 'count(*)' else '%s(%s)' % (fn, rng.choice(cols))
        hv = rng.choice(('%s %s %d' % (agg(), rng.choice(self.CMP), rng.randint(0, 3)), '%s IS NULL' % agg(),
                         '%s IS NOT NULL' % agg(), '%s %s %s' % (agg(), rng.choice(self.CMP), agg()),
                         '%s > 100' % agg(), 'NOT (%s = %d)' % (agg(), rng.randint(0, 2))))
        where = ' WHERE ' + self.expr(cols, 1, True, sub=False) if rng.random() < 0.4 else ''
        n = rng.randint(1, 2)
        inner = 'SELECT %s FROM %s%s HAVING %s' % (', '.join(agg() for _ in range(n)), frm, where, hv)
        shape = rng.choice(('top', 'top', 'in', 'scalar', 'cte', 'insert-select', 'from'))
        self.f('having-no-group:' + shape)
        one = 'SELECT %s FROM %s%s HAVING %s' % (agg(), frm, where, hv)
        if shape == 'top':
            return inner, 'select'
        if shape == 'in':
            return 'SELECT a FROM t WHERE a %s (%s)' % (rng.choice(('IN', 'NOT IN')), one), 'select'
        if shape == 'scalar':
            return 'SELECT a, (%s) FROM u' % one, 'select'
        if shape == 'cte':
            return 'WITH w AS (SELECT %s AS p FROM %s%s HAVING %s) SELECT p FROM w' % (agg(), frm, where, hv), 'select'
        if shape == 'from':
            return 'SELECT s.p FROM (SELECT %s AS p FROM %s%s HAVING %s) AS s' % (agg(), frm, where, hv), 'select'
        two = 'SELECT %s, %s FROM %s%s HAVING %s' % (agg(), agg(), frm, where, hv)
        return 'INSERT INTO t (a, b) %s' % two, 'dml'

    def setop(self):
        rng = self.rng
        if rng.random() < 0.5:
            # a tree of operations with explicit operand grouping (any shape); sqlite cannot execute the parenthesised
            # text, so the case carries the same tree with its compound operands as derived tables (`exec_text`)
            n = rng.choice((2, 2, 3, 3, 4))
            leaves = []
            while len(leaves) < n + 1:
                # (no RIGHT / FULL JOIN operands: sqlite 3.40 mis-executes them inside a derived UNION ALL, on either side)
                q = self.simple_select(1, ncols=2)
                if ' RIGHT ' not in q and ' FULL ' not in q:
                    leaves.append(q)
            t = tree_random(rng, n, SETOP_SQLITE, len(leaves))
            self.f('setop-tree')
            self.f('setop-tree:depth=%d' % tree_depth(t))
            nl, nr = tree_nesting(t)
            if nl:
                self.f('setop-tree:left-nested')
            if nr:
                self.f('setop-tree:right-nested')
            self.exec_text = tree_ref_sql(t, leaves)
            return tree_sql(t, leaves, lambda: rng.random() < 0.5), False, []
        op = rng.choice(('UNION', 'UNION ALL', 'INTERSECT', 'EXCEPT'))
        self.f('setop:' + op)
        l = self.simple_select(1, ncols=2)
        r = self.simple_select(1, ncols=2)
        s = '%s %s %s' % (l, op, r)
        if rng.random() < 0.25:
            op2 = rng.choice(('UNION', 'UNION ALL', 'INTERSECT', 'EXCEPT'))
            self.f('setop-chain')
            self.f('setop:' + op2)
            s += ' %s %s' % (op2, self.simple_select(1, ncols=2))
        return s, False, []

    def cte(self):
        rng = self.rng
        self.f('cte')
        inner = self.simple_select(1, ncols=2, names=('p', 'q'))
        cols = ['p', 'q', 'w.p', 'w.q']
        ts = ', '.join(self.expr(cols, 1, False, sub=False) for _ in range(rng.randint(1, 2)))
        s = 'WITH w AS (%s) SELECT %s FROM w' % (inner, ts)
        if rng.random() < 0.5:
            s += ' WHERE ' + self.expr(cols, 1, True, sub=False)
        return s, False, []

    def dml(self):
        rng = self.rng
        k = rng.choice(('insert', 'insert', 'insert-select', 'update', 'update', 'delete', 'delete', 'create', 'create', 'drop'))
        self.f('dml:' + k)
        tb = rng.choice(('t', 'u'))
        cols = list(SCHEMA[tb])
        if k == 'insert':
            use = cols if rng.random() < 0.7 else [rng.choice(cols)]
            if rng.random() < 0.2:
                use = list(reversed(use))
            rows = []
            for _ in range(rng.randint(1, 3)):
                rows.append('(%s)' % ', '.join(self.sval() if rng.random() < 0.35 else
                                               rng.choice(('0', '1', '2', 'NULL', '-1', "'x'", '1.5')) for _ in use))
            return 'INSERT INTO %s (%s) VALUES %s' % (tb, ', '.join(use), ', '.join(rows))
        if k == 'insert-select':
            return 'INSERT INTO %s (%s) %s' % (tb, ', '.join(cols), self.simple_select(1, ncols=2))
        if k == 'update':
            sets = ', '.join('%s = %s' % (c, self.sval() if rng.random() < 0.3 else self.expr(cols, rng.randint(0, 2), False, sub=False))
                             for c in rng.sample(cols, rng.randint(1, 2)))
            s = 'UPDATE %s SET %s' % (tb, sets)
            if rng.random() < 0.7:
                s += ' WHERE ' + (self.str_pred(cols) if rng.random() < 0.3 else self.expr(cols, rng.randint(1, 2), True))
            return s
        if k == 'delete':
            s = 'DELETE FROM %s' % tb
            if rng.random() < 0.8:
                s += ' WHERE ' + (self.str_pred(cols) if rng.random() < 0.3 else self.expr(cols, rng.randint(1, 2), True))
            return s
        if k == 'create':
            tys = ('INT', 'INTEGER', 'TEXT', 'VARCHAR', 'FLOAT', 'BOOLEAN', 'DATE', 'VARCHAR(10)', 'int', 'BIGINT')
            names = ('p', 'q', 'r')[:rng.randint(1, 3)]
            defs, keyed = [], False
            for n in names:
                d = '%s %s' % (n, rng.choice(tys))
                c = rng.random()
                if c < 0.3:
                    self.f('ddl:not-null')
                    d += ' NOT NULL'
                elif c < 0.45:
                    self.f('ddl:null')
                    d += ' NULL'
                elif c < 0.55 and not keyed:
                    self.f('ddl:column-pk')
                    keyed = True
                    d += ' PRIMARY KEY'
                    if rng.random() < 0.3:
                        d += ' NOT NULL'
                defs.append(d)
            if not keyed and rng.random() < 0.25:
                self.f('ddl:table-pk')
                defs.append('PRIMARY KEY (%s)' % ', '.join(rng.sample(names, rng.randint(1, min(2, len(names))))))
            ine = ''
            if rng.random() < 0.15:
                self.f('ddl:if-not-exists')
                ine = 'IF NOT EXISTS '
            return 'CREATE TABLE %s%s (%s)' % (ine, rng.choice(('w', 'v', 'w', 'v', 't')), ', '.join(defs))
        return 'DROP TABLE %s%s' % ('IF EXISTS ' if rng.random() < 0.4 else '', rng.choice(('t', 'u', 'zz')))

    def statement(self):
        """returns dict(kind, text, ordered, alias, feats)"""
        self.feats = set()
        self.strs = set()
        self.order_keys = None
        self.exec_text = None
        self.scope_levels = None
        self.order_cols = None
        r = self.rng.random()
        if r < 0.52:
            text, ordered, alias = self.select()
            kind = 'select'
        elif r < 0.59:
            text, ordered, alias = self.nested_same_table()
            kind = 'select'
        elif r < 0.66:
            text, ordered, alias = self.nested_scope()
            kind = 'select'
        elif r < 0.76:
            text, ordered, alias = self.setop()
            kind = 'select'
        elif r < 0.80:
            text, ordered, alias = self.cte()
            kind = 'select'
        elif r < 0.85:
            (text, kind), ordered, alias = self.having_no_group(), False, []
        else:
            text, ordered, alias, kind = self.dml(), False, [], 'dml'
        out = dict(kind=kind, text=text, ordered=ordered, alias=alias, feats=sorted(self.feats),
                   order_keys=self.order_keys if kind == 'select' and ordered else None, strs=sorted(self.strs))
        if kind == 'select' and ordered and self.order_cols:
            out['order_cols'] = self.order_cols
        if self.exec_text:
            out['exec_text'] = self.exec_text
        if self.scope_levels:
            out['scope_levels'] = self.scope_levels
        return out
