"""Case streams shared by several properties (all randomness from the rng passed in)."""
import re
from tools.harness.common import HangDetected as _Hang
from . import gen, corpus as corpus_mod, common

_tok_cache = {}


def corpus_tokens(dialect):
    """corpus statements that lex in this dialect: list of (text, [types], [lexemes])"""
    if dialect in _tok_cache:
        return _tok_cache[dialect]
    from mindsdb_sql import get_lexer_parser
    lexer, _ = get_lexer_parser(dialect)
    cls = type(lexer)
    out = []
    for s in corpus_mod.load():
        s2 = re.sub(r'[\s;]+$', '', s)
        try:
            toks = list(cls().tokenize(s2))
        except (Exception, _Hang):
            continue
        out.append((s2, [t.type for t in toks], [s2[t.index:t.end] for t in toks]))
    _tok_cache[dialect] = out
    return out


def statement_stream(dialect, rng, n_mut, n_sent, grammar=None, with_corpus=True):
    """yields dict(src, text): corpus statements, token-level mutants of them (rendered with the
    original lexemes where possible), grammar-derived sentences and mutants of those,
    concatenations, layout variants."""
    lx = gen.lexemes(dialect)
    alphabet = sorted(lx)
    ct = corpus_tokens(dialect)
    G = grammar or gen.Grammar(dialect)
    if with_corpus:
        for text, types, lexs in ct:
            yield dict(src='corpus', text=text)

    def render(types, lexs=None):
        out = []
        for i, tp in enumerate(types):
            if lexs is not None and lexs[i] is not None:
                out.append(lexs[i])
            else:
                c = lx.get(tp)
                if not c:
                    return None
                out.append(c[0] if rng.random() < 0.7 else rng.choice(c))
        return ' '.join(out)
    for _ in range(n_mut):
        text, types, lexs = rng.choice(ct)
        pairs = list(zip(types, lexs))
        k, new = gen.mutate(pairs, rng, [(a, None) for a in alphabet])
        if rng.random() < 0.25:
            k2, new = gen.mutate(new, rng, [(a, None) for a in alphabet])
            k = k + '+' + k2
        t = render([p[0] for p in new], [p[1] for p in new])
        if t is not None:
            yield dict(src='mut:' + k, text=t)
    for i in range(n_sent):
        types = G.derive(rng, depth=rng.randint(3, 11))
        if rng.random() < 0.35:
            k, types = gen.mutate(types, rng, alphabet)
            src = 'sent+' + k
        else:
            src = 'sent'
        t = render(types)
        if t is not None:
            yield dict(src=src, text=t)
    # concatenations and layouts
    for _ in range(max(10, n_mut // 10)):
        a = rng.choice(ct)[0]
        b = rng.choice(ct)[0]
        sep = rng.choice([' ; ', ';', ' ', '\n', ' ;; ', ' -- c\n', ' /* c */ '])
        yield dict(src='concat', text=a + sep + b)
    for _ in range(max(10, n_mut // 10)):
        text, types, lexs = rng.choice(ct)
        seps = [rng.choice([' ', '\n', '  ', '\t', ' /* x */ ', ' -- y\n', '\n\n ']) for _ in lexs]
        yield dict(src='layout', text=''.join(l + s for l, s in zip(lexs, seps)))
    # separators at the START of the text are part of the token stream (only trailing ones are stripped)
    for _ in range(max(10, n_mut // 20)):
        a = rng.choice(ct)[0]
        yield dict(src='lead', text=rng.choice([';', '; ', ';;', ' ;\n; ', ';\n', '; ;']) + a)
    # texts without any token
    for g in ['-- just a comment', '/* c */', ' -- c\n', '/* a */ -- b', '-- c\n;', '/* c */ ;']:
        yield dict(src='fixed', text=g)
    for g in ['', ' ', ';', '; select 1', ';;select a from t', ' ;\n; show tables', 'x y ; select 1', 'select 1 ; x y', ') select 1', 'select 1 )', 'select 1 select 2',
              'select', 'select 1 from', '(((', 'select 1 1', 'a b c d e f', 'select * from t where',
              'é', 'select \x00', '#', 'select 1 # c', "select 'abc", 'select "abc', 'select `abc']:
        yield dict(src='fixed', text=g)
