"""Depth and process-history streams for the walker (C13 / C12).

The walker theorems (`C13_lifting`, `C13_once`, …) are about *every* tree and the model is a pure function: what a walk does
depends on the schema, the visitor and the tree — not on how deep the tree is and not on what was walked before
(`Props/C13.lean`: `C13_any_depth`, `C13_deep_*`, `C13_cut_eq`, `C13_history_free`).  These two streams tie that to the code:

* depth   — statements whose parser tree is nested 300 … 440 levels deep (operator chains, nested calls / casts / CASE /
            sub-queries in every clause, join and set-operation chains, random mixtures), judged by the oracle and compared
            with the Lean walker like every other tree.  The library runs under the interpreter's ordinary recursion limit
            (the unchanged walker needs one frame per level and survives these depths with a wide margin).
* history — walks aborted by an exception raised in the visitor (at random depths, also deep ones, also nested walks started
            from inside a visitor, also statements planned or rejected by the planner) interleaved with ordinary walks in the
            same process; every ordinary walk has to give what the same walk gave before the history / gives in a fresh process
            / gives in the Lean model.
"""
import copy, json, os, subprocess, sys

from . import common, walkrun, walkspec

DEPTH_MIN, DEPTH_MAX = 300, 440


# ------------------------------------------------------------------ deep statements

def _leaf(rng, params=True):
    r = rng.random()
    if params and r < 0.15:
        return '?'
    return rng.choice(['a', 'b', 't.c', 'c1', '1', '2', "'s'", '7', 'x'])


def _wrappers(d):
    """(name, levels, f(rng, inner) -> text): one more nesting level (or two) around `inner`"""
    op = lambda rng: rng.choice(['+', '-', '*', '=', '>', 'AND', 'OR'])
    ws = [
        ('opl', 1, lambda rng, x: '(%s) %s %s' % (x, op(rng), _leaf(rng))),
        ('opr', 1, lambda rng, x: '%s %s (%s)' % (_leaf(rng), op(rng), x)),
        ('cast', 1, lambda rng, x: 'CAST(%s AS int)' % x),
        ('not', 1, lambda rng, x: 'NOT (%s)' % x),
        ('neg', 1, lambda rng, x: '-(%s)' % x),
        ('in', 1, lambda rng, x: '(%s) IN (%s, %s)' % (x, _leaf(rng), _leaf(rng))),
        ('inl', 2, lambda rng, x: '%s IN (%s, %s)' % (_leaf(rng, False), _leaf(rng), x)),
        ('between', 1, lambda rng, x: '(%s) BETWEEN %s AND %s' % (x, _leaf(rng), _leaf(rng))),
        ('isnull', 1, lambda rng, x: '(%s) IS NULL' % x),
        ('scalar', 1, lambda rng, x: '(SELECT %s FROM t%d)' % (x, rng.randrange(3))),
        ('insub', 2, lambda rng, x: '%s IN (SELECT %s FROM t%d WHERE b > %s)' % (_leaf(rng, False), x, rng.randrange(3), _leaf(rng))),
    ]
    if d != 'sqlite':
        ws += [('fn', 1, lambda rng, x: '%s(%s)' % (rng.choice(['f', 'upper', 'abs']), x)),
               ('fn2', 1, lambda rng, x: 'g(%s, %s)' % (_leaf(rng), x)),
               ('fn3', 1, lambda rng, x: 'coalesce(%s, %s)' % (x, _leaf(rng)))]
    if d == 'mindsdb':
        ws += [('case', 1, lambda rng, x: 'CASE WHEN %s THEN %s ELSE %s END' % (_leaf(rng), x, _leaf(rng))),
               ('casec', 1, lambda rng, x: 'CASE WHEN %s THEN %s END' % (x, _leaf(rng))),
               ('exists', 2, lambda rng, x: 'EXISTS (SELECT %s FROM t%d)' % (x, rng.randrange(3)))]
    return ws


def deep_expr(rng, d, levels, shape=None):
    """an expression nested `levels` deep, built iteratively; shape: one wrapper name (uniform nesting), 'chain'
    (left-nested operator chain without brackets) or None (random mixture)"""
    ws = _wrappers(d)
    if shape == 'chain':
        op = rng.choice(['+', '-', '*', 'AND', 'OR'])
        return (' %s ' % op).join(_leaf(rng) for _ in range(levels + 1))
    if shape is not None:
        ws = [w for w in ws if w[0] == shape] or ws
    x = _leaf(rng)
    n = 0
    while n < levels:
        name, lv, f = rng.choice(ws)
        x = f(rng, x)
        n += lv
    return x


EXPR_SHAPES = ['chain', 'chain', 'opl', 'opr', 'fn', 'fn2', 'cast', 'not', 'case', 'scalar', 'insub', 'exists', 'inl',
               None, None, None, None]


def deep_statement(rng, d, category=None, lo=DEPTH_MIN, hi=DEPTH_MAX):
    """one statement whose tree is nested about lo … hi levels; returns (shape name, text).
    category: 'statement' (nested sub-queries / join chain / set-operation chain), 'chain', 'mix', or None (any)"""
    levels = rng.randint(lo + 5, hi - 25)
    r = rng.random()
    if category == 'statement':
        r = rng.random() * 0.32
    elif category is not None:
        r = 1.0
    if r < 0.14:
        # sub-queries nested in FROM (one level each), an expression nest in the innermost WHERE
        n1 = rng.randint(levels // 3, levels)
        inner = 'SELECT %s FROM t WHERE (%s) = %s' % (_leaf(rng), deep_expr(rng, d, max(1, levels - n1 - 3)), _leaf(rng))
        for i in range(n1):
            inner = 'SELECT %s FROM (%s) AS s%d' % (rng.choice(['*', 'a', 'a, b']), inner, i)
            if rng.random() < 0.1:
                inner += ' WHERE a > %s' % _leaf(rng)
        return 'from-subquery', inner
    if r < 0.24:
        # a chain of joins (left-nested), the last condition nested
        n1 = rng.randint(levels // 2, levels)
        s = 'SELECT * FROM t0' + ''.join(' %s t%d ON t%d.a = %s' % (rng.choice(['JOIN', 'LEFT JOIN']), i, i, _leaf(rng))
                                         for i in range(1, n1))
        s += ' JOIN tz ON %s' % deep_expr(rng, d, max(1, levels - n1 - 2))
        return 'join-chain', s
    if r < 0.32 and d == 'mindsdb':
        n1 = rng.randint(levels // 2, levels - 5)
        parts = ['SELECT %s FROM t%d' % (_leaf(rng), i) for i in range(n1)]
        parts.append('SELECT a FROM t WHERE (%s) = %s' % (deep_expr(rng, d, max(1, levels - n1 - 3)), _leaf(rng)))
        return 'set-chain', (' %s ' % rng.choice(['UNION', 'UNION ALL', 'INTERSECT', 'EXCEPT'])).join(parts)
    shape = {'chain': 'chain', 'mix': None}[category] if category in ('chain', 'mix') else rng.choice(EXPR_SHAPES)
    e = deep_expr(rng, d, levels - 3, shape)
    place = rng.randrange(9)
    name = 'expr-%s' % (shape or 'mix')
    if place in (1, 3, 6, 8):
        # WHERE / HAVING take an operation (the parsers reject anything else)
        e = '(%s) %s %s' % (e, rng.choice(['=', '>', 'AND', 'OR']), _leaf(rng))
    if place == 0:
        return name + '/target', 'SELECT %s, %s FROM t' % (_leaf(rng), e)
    if place == 1:
        return name + '/where', 'SELECT a FROM t WHERE %s' % e
    if place == 2:
        return name + '/on', 'SELECT a FROM t1 JOIN t2 ON %s WHERE b = %s' % (e, _leaf(rng))
    if place == 3:
        return name + '/having', 'SELECT a FROM t GROUP BY a HAVING %s' % e
    if place == 4:
        return name + '/update', 'UPDATE t SET a = %s, b = %s WHERE c = %s' % (_leaf(rng), e, _leaf(rng))
    if place == 5:
        return name + '/insert', 'INSERT INTO t (a, b) VALUES (%s, %s)' % (_leaf(rng), e)
    if place == 6:
        return name + '/delete', 'DELETE FROM t WHERE %s' % e
    if place == 7:
        return name + '/orderby', 'SELECT a FROM t ORDER BY %s' % e
    return name + '/subquery-where', 'SELECT a FROM (SELECT b FROM u WHERE %s) AS s WHERE a = %s' % (e, _leaf(rng))


def tree_depth(root):
    """nesting depth of a real tree (root = 1); iterative"""
    best, todo = 0, [(root, 1)]
    while todo:
        n, k = todo.pop()
        best = max(best, k)
        for _, _, c in walkspec.children(n):
            todo.append((c, k + 1))
    return best


def deep_trees(rng, d, n, tries=8, lo=DEPTH_MIN, hi=DEPTH_MAX, need=None):
    """up to n parsed deep statements of dialect d: yields (case dict, tree, depth); need(text) filters"""
    from mindsdb_sql import parse_sql
    got = 0
    cats = ['statement', 'chain', 'mix']      # every run has each of them, the rest is drawn freely
    for _ in range(n * tries):
        if got >= n:
            break
        shape, text = deep_statement(rng, d, cats[got] if got < len(cats) else None, lo, hi)
        if need is not None and not need(text):
            continue
        try:
            t = parse_sql(text, d)
        except RecursionError:
            continue
        except Exception:
            continue
        if not isinstance(t, walkspec.astnode()[0]):
            continue
        dep = tree_depth(t)
        if not lo <= dep <= hi:
            continue
        got += 1
        yield dict(src='deep:%s' % shape, text=text), t, dep


# ------------------------------------------------------------------ process history

INTEGRATIONS = ['int', 'int2']


def _plan(tree):
    """a statement handed to the planner (its visitors raise PlanningException in the middle of a walk for the statements
    it rejects); the outcome does not matter here, only that it happened in this process"""
    from mindsdb_sql.planner import plan_query
    try:
        plan_query(tree, integrations=INTEGRATIONS, default_namespace='mindsdb')
        return 'planned'
    except RecursionError:
        return 'RecursionError'
    except Exception as e:
        return type(e).__name__


# statements the planner rejects from inside one of its visitors or right after a walk (whatever it does with them, a later
# walk must not notice)
REJECTED = [
    'SELECT * FROM int.t1 AS a JOIN int2.t2 AS b ON a.x = (SELECT max(y) FROM int.t3)',
    'SELECT * FROM int.t1 AS a JOIN int2.t2 AS b ON a.x = b.y AND a.z IN (SELECT y FROM int.t3)',
    'SELECT a FROM int.t1 WHERE b = (SELECT c FROM nowhere.t2 LIMIT 1) AND d IN (SELECT e FROM mindsdb.p JOIN int.t3)',
    'SELECT * FROM mindsdb.pred1 JOIN mindsdb.pred2',
    'SELECT t.a FROM int.t1 AS t JOIN mindsdb.pred AS m WHERE m.x = (SELECT 1)',
]


def run_event(schema, ev, cache):
    """execute one history event on the real code.  ev = [kind, dialect, text, x, (dialect2, text2)]"""
    from mindsdb_sql import parse_sql
    from mindsdb_sql.planner import utils
    kind, d, text, x = ev[0], ev[1], ev[2], ev[3]
    key = (d, text)
    if key not in cache:
        with walkrun.harness_recursion():
            t = parse_sql(text, d)
            cache[key] = (t, walkspec.Numbering(t))
    t, num = cache[key]
    if kind == 'plan':
        with walkrun.harness_recursion():
            t2 = copy.deepcopy(t)
        return _plan(t2)
    if kind == 'prepare':
        # a prepared statement on a planner of its own: prepared, then executed with x values (the wrong number is rejected)
        from mindsdb_sql.planner import query_planner
        with walkrun.harness_recursion():
            t2 = copy.deepcopy(t)
        try:
            pl = query_planner.QueryPlanner(integrations=INTEGRATIONS)
            pl.prepare_steps(t2)
            for st in pl.execute_steps([walkrun.VAL0 + i for i in range(x)]):
                st.set_result(None)
            return 'executed'
        except RecursionError:
            return 'RecursionError'
        except Exception as e:
            return type(e).__name__
    tgt = num.nodes[x] if x is not None and x < len(num.nodes) else None
    if kind == 'abort':
        # a looking visitor raises at node x: the tree stays as it is and can be used again
        def cb(node, **kw):
            if node is tgt:
                raise walkrun.Abort()
        try:
            utils.query_traversal(t, cb)
            return 'no-raise'
        except walkrun.Abort:
            return 'aborted'
    if kind == 'abort-rep':
        # a visitor that replaced nodes on its way raises at node x (the tree is thrown away)
        with walkrun.harness_recursion():
            t2 = copy.deepcopy(t)
            n2 = walkspec.Numbering(t2)
        tgt2 = n2.nodes[x]
        cnt = [0]

        def cb(node, **kw):
            if node is tgt2:
                raise walkrun.Abort()
            cnt[0] += 1
            if cnt[0] % 3 == 0 and not walkspec.children(node) and node is not t2:
                return walkrun.replacement('const')
        try:
            utils.query_traversal(t2, cb)
            return 'no-raise'
        except walkrun.Abort:
            return 'aborted'
    if kind == 'abort-nested':
        # at node x the visitor starts a walk of another statement whose visitor raises (a planner visitor does that)
        d2, text2, y = ev[4]
        if (d2, text2) not in cache:
            with walkrun.harness_recursion():
                u = parse_sql(text2, d2)
                cache[(d2, text2)] = (u, walkspec.Numbering(u))
        u, numu = cache[(d2, text2)]
        tgtu = numu.nodes[y]

        def inner(node, **kw):
            if node is tgtu:
                raise walkrun.Abort()

        def cb(node, **kw):
            if node is tgt:
                utils.query_traversal(u, inner)
        try:
            utils.query_traversal(t, cb)
            return 'no-raise'
        except walkrun.Abort:
            return 'aborted'
    raise ValueError(kind)


class Victim:
    """an ordinary walk that is repeated after the history: log / replace / the same tree object that was walked (and
    aborted on) before / a walk from whose visitor another complete walk is made"""

    def __init__(self, schema, d, text, mode, arg, tree=None, inner=None):
        from mindsdb_sql import parse_sql
        self.schema, self.d, self.text, self.mode, self.arg = schema, d, text, mode, arg
        with walkrun.harness_recursion():
            self.case = walkrun.Case(tree if tree is not None else parse_sql(text, d), schema)
        self.inner = inner           # (dialect, text) for mode 'nested'
        self.inner_case = None
        if inner is not None:
            with walkrun.harness_recursion():
                self.inner_case = walkrun.Case(parse_sql(inner[1], inner[0]), schema)

    def spec(self):
        return dict(dialect=self.d, text=self.text, mode=self.mode, arg=self.arg, inner=self.inner)

    def run(self, reuse=None):
        """the walk on a fresh copy (or on the given (tree, numbering) — an object walked before)"""
        r, num = reuse if reuse is not None else self.case.fresh()
        if self.mode == 'nested':
            from mindsdb_sql.planner import utils
            ri, numi = self.inner_case.fresh()
            tgt = num.nodes[self.arg]
            out = {}
            tag_o, tag_i = walkrun.tagger(num), walkrun.tagger(numi)
            outer, inner = [], []

            def cbi(node, **kw):
                inner.append('%s:%d%d' % (tag_i(node) if node is not None else 'N', bool(kw.get('is_table')), bool(kw.get('is_target'))))

            def cbo(node, **kw):
                outer.append('%s:%d%d' % (tag_o(node) if node is not None else 'N', bool(kw.get('is_table')), bool(kw.get('is_target'))))
                if node is tgt:
                    utils.query_traversal(ri, cbi)
            try:
                utils.query_traversal(r, cbo)
            except Exception as e:
                out['error'] = type(e).__name__
            out.update(visits=outer, inner=inner)
            return out
        try:
            return walkrun.real_walk(self.schema, r, num, self.mode, self.arg)
        except Exception as e:
            return dict(error='%s: %s' % (type(e).__name__, str(e)[:200]))


def diff(a, b):
    """short description of how two walk results differ"""
    for k in ('error', 'visits', 'inner', 'tree', 'r', 'extra'):
        if a.get(k) != b.get(k):
            va, vb = a.get(k), b.get(k)
            if isinstance(va, list) and isinstance(vb, list):
                i = next((i for i, (p, q) in enumerate(zip(va, vb)) if p != q), min(len(va), len(vb)))
                return '%s: %d calls before, %d after the history; first difference at call %d (%s / %s)' % (
                    k, len(va), len(vb), i, va[i] if i < len(va) else 'end', vb[i] if i < len(vb) else 'end')
            return '%s: %s before, %s after the history' % (k, str(va)[:120], str(vb)[:120])
    return ''


def make_history(rng, pool, deep_pool, n_events, prepared=0.0):
    """a random process history over ordinary statements `pool` = [(dialect, text, depths)] and deep ones;
    prepared = share of prepare / execute calls (right and wrong number of values)"""
    evs = []
    for i in range(n_events):
        if rng.random() < prepared:
            d, text, depths = rng.choice(pool)
            evs.append(['prepare', d, text, max(0, text.count('?') + rng.choice([0, 0, 1, -1, 2]))])
            continue
        r = rng.random()
        src = deep_pool if deep_pool and r < 0.04 else pool
        d, text, depths = rng.choice(src)
        n = len(depths)
        # where the visitor raises: anywhere, or among the deepest nodes of the statement
        if rng.random() < 0.5:
            x = rng.randrange(n)
        else:
            m = max(depths)
            x = rng.choice([k for k in range(n) if depths[k] >= m - 1])
        r = rng.random()
        if r < 0.62:
            evs.append(['abort', d, text, x])
        elif r < 0.74:
            evs.append(['abort-rep', d, text, x])
        elif r < 0.86:
            d2, text2, depths2 = rng.choice(pool)
            m2 = max(depths2)
            evs.append(['abort-nested', d, text, x, [d2, text2, rng.choice([k for k in range(len(depths2)) if depths2[k] >= m2 - 1])]])
        elif r < 0.93:
            evs.append(['plan', 'mindsdb', rng.choice(REJECTED), None])
        else:
            evs.append(['plan', d, text, None])
    return evs


def run_history_spec(schema, spec):
    """replay of a history failure, to be run in a FRESH process: the victim walk first, then the history, then the
    victim walk again.  returns (before, after, outcomes)"""
    v = spec['victim']
    vic = Victim(schema, v['dialect'], v['text'], v['mode'], v['arg'], inner=tuple(v['inner']) if v.get('inner') else None)
    before = vic.run()
    cache = {}
    outcomes = {}
    for ev in spec['history']:
        try:
            o = run_event(schema, ev, cache)
        except Exception as e:
            o = 'error:' + type(e).__name__
        outcomes[o] = outcomes.get(o, 0) + 1
    same_obj = None
    if v.get('same_object'):
        # the victim is the very tree object an aborted walk of the history was made on
        key = (v['dialect'], v['text'])
        if key in cache:
            same_obj = cache[key]
    after = vic.run(reuse=same_obj)
    return before, after, outcomes


def fresh_process(schema_path, specs, timeout=300):
    """the given victim walks in a fresh interpreter (no history at all): list of results"""
    code = ('import sys, json; sys.path.insert(0, %r); from tools.harness import walkhist, walkrun; '
            'schema = walkrun.load_schema(); specs = json.load(sys.stdin); '
            'print(json.dumps([walkhist.Victim(schema, s["dialect"], s["text"], s["mode"], s["arg"], '
            'inner=tuple(s["inner"]) if s.get("inner") else None).run() for s in specs]))' % common.ROOT)
    p = subprocess.run([sys.executable, '-W', 'ignore', '-c', code], input=json.dumps(specs), capture_output=True, text=True,
                       timeout=timeout, cwd=common.ROOT)
    if p.returncode != 0:
        raise RuntimeError('fresh process failed: %s' % p.stderr[-800:])
    return json.loads(p.stdout.strip().split('\n')[-1])


def history_in_fresh_process(spec, timeout=600):
    """`run_history_spec` for a failure record (victim + history) in a new interpreter: dict(same, diff, outcomes, …)"""
    code = ('import sys, json; sys.path.insert(0, %r); from tools.harness import walkhist, walkrun; '
            'f = json.load(sys.stdin); b, a, o = walkhist.run_history_spec(walkrun.load_schema(), f); '
            'print(json.dumps(dict(same=(a == b), diff=walkhist.diff(b, a), outcomes=o, '
            'before=len(b.get("visits", [])), after=len(a.get("visits", [])))))' % common.ROOT)
    p = subprocess.run([sys.executable, '-W', 'ignore', '-c', code], input=json.dumps(dict(victim=spec['victim'], history=spec['history'])),
                       capture_output=True, text=True, timeout=timeout, cwd=common.ROOT)
    if p.returncode != 0:
        raise RuntimeError('replay process failed: %s' % p.stderr[-800:])
    return json.loads(p.stdout.strip().split('\n')[-1])


def replay_in_fresh_process(path, timeout=600):
    return history_in_fresh_process(json.load(open(path))['failure'], timeout)


def confirm_history(f, events, upto):
    """make the recorded history of a failure self-contained: the check process may carry state from before the stream
    (the schema probe also walks), so the history is re-run in a fresh interpreter and, if the victim walk does not change
    there, lengthened (the whole stream, then repeated) until it does.  Sets f['history'], f['confirmed']."""
    for hist in (events[:upto], events, events * 2, events * 4, events * 8):
        f['history'] = hist
        try:
            r = history_in_fresh_process(f)
        except Exception as e:
            f['confirmed'] = 'fresh process failed: %s' % e
            return f
        if not r['same']:
            f['confirmed'] = 'fresh process, history of %d calls: %s' % (len(hist), r['diff'])
            return f
    f['history'] = events[:upto]
    f['confirmed'] = ('NOT reproduced in a fresh process with up to %d calls: the walk differed in the check process, which carries '
                      'state from before the stream as well' % (len(events) * 8))
    return f
