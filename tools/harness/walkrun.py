"""Real-code side of the walker correspondence (C13 / C12) and the impl-level oracle for C13."""
import contextlib, copy, json, os, re, sys

from . import common, walkspec

# ------------------------------------------------------------------ recursion budgets (deep trees)
# The walker needs one interpreter frame per tree level; the harness's own recursion (deepcopy, numbering, serialisation,
# bracketed to_string) needs several.  The harness parts run under a raised limit, the library under the interpreter's
# ordinary limit — so a walker that stops or fails below that limit is seen as it would be by a caller.
BASE_LIMIT = sys.getrecursionlimit()
HARNESS_LIMIT = 30000


_preloaded = []


def preload():
    """import the library while the interpreter's ordinary recursion limit is in force (a module may read the limit when
    it is imported)"""
    if _preloaded:
        return
    _preloaded.append(1)
    import importlib
    for m in ('mindsdb_sql', 'mindsdb_sql.parser.ast', 'mindsdb_sql.planner', 'mindsdb_sql.planner.utils',
              'mindsdb_sql.planner.query_planner', 'mindsdb_sql.planner.query_prepare', 'mindsdb_sql.render.sqlalchemy_render',
              'mindsdb_sql.parser.dialects.mindsdb.parser', 'mindsdb_sql.parser.dialects.mysql.parser',
              'mindsdb_sql.parser.dialects.sqlite.parser', 'mindsdb_sql.parser.dialects.mindsdb.lexer',
              'mindsdb_sql.parser.dialects.mysql.lexer', 'mindsdb_sql.parser.dialects.sqlite.lexer'):
        try:
            importlib.import_module(m)
        except Exception:
            pass


@contextlib.contextmanager
def harness_recursion():
    if sys.getrecursionlimit() <= BASE_LIMIT:
        preload()
    old = sys.getrecursionlimit()
    sys.setrecursionlimit(max(old, HARNESS_LIMIT))
    try:
        yield
    finally:
        sys.setrecursionlimit(old)


@contextlib.contextmanager
def library_recursion():
    old = sys.getrecursionlimit()
    sys.setrecursionlimit(BASE_LIMIT)
    try:
        yield
    finally:
        sys.setrecursionlimit(old)


class Abort(Exception):
    """raised by a harness visitor in the middle of a walk (`raise` mode, history stream)"""

R_TAG = 999999
VAL0 = 1000000


def load_schema():
    return json.load(open(os.path.join(common.ROOT, 'gen', 'schema.json')))


T_TAG = 999997      # an empty Tuple returned by the visitor
F_TAG = 999998      # a falsy node object of the harness returned by the visitor
_falsy_cls = []


def replacement(kind):
    """node objects a visitor may answer with: 'const' Constant(R_TAG); 'tuple0' an empty `Tuple`;
    'falsy' an object whose `__bool__` is False (harness class — no library class is falsy); library-made
    replacements of other classes come from `replacement_pool`"""
    from mindsdb_sql.parser.ast import Constant, Tuple
    if kind == 'const':
        r = Constant(R_TAG)
        r._verif_tag = R_TAG
    elif kind == 'tuple0':
        r = Tuple(items=[])
        r._verif_tag = T_TAG
    elif kind == 'falsy':
        if not _falsy_cls:
            _falsy_cls.append(type('FalsyProbe', (Constant,), {'__bool__': lambda self: False}))
        r = _falsy_cls[0](F_TAG)
        r._verif_tag = F_TAG
        r._verif_cls = 'falsy'
    else:
        raise ValueError(kind)
    return r


def replacement_pool():
    """constructors of replacement nodes of many classes, including empty containers and falsy-looking constants:
    every one of them is a node and has to take the place of the visited node"""
    from mindsdb_sql.parser import ast as A
    makers = [
        lambda: A.Constant(0), lambda: A.Constant(''), lambda: A.Constant(False), lambda: A.NullConstant(),
        lambda: A.Tuple(items=[]), lambda: A.Tuple(items=[A.Constant(1)]), lambda: A.Function(op='f', args=[]),
        lambda: A.Identifier(parts=['r']), lambda: A.Star(), lambda: A.Select(targets=[]), lambda: A.Parameter('?'),
        lambda: A.Case(rules=[]), lambda: A.BinaryOperation(op='and', args=[A.Constant(1), A.Constant(2)]),
        lambda: A.Select(targets=[A.Star()], from_table=A.Identifier(parts=['t'])),
    ]
    out = []
    for m in makers:
        try:
            out.append((m, type(m()).__name__))
        except Exception:
            pass
    return out


def tagger(num):
    from mindsdb_sql.parser.ast import Constant

    def tagof(o):
        k = num.ids.get(id(o))
        if k is not None:
            return k
        t = getattr(o, '_verif_tag', None)
        if t is not None:
            return t
        if isinstance(o, Constant) and isinstance(o.value, int) and o.value >= R_TAG:
            return o.value
        return -1
    return tagof


def rose_after(root, schema, tagof):
    """serialise the (possibly mutated) real tree with the tags of the original numbering"""
    cid = schema['class_id']

    def rec(n, slot):
        cn = type(n).__name__
        c = len(schema['class_names']) if getattr(n, '_verif_cls', None) == 'falsy' else cid.get(cn, 0)
        parts = ['(%d %d %d' % (c, slot, tagof(n))]
        sl = schema['classes'].get(cn, {}).get('slot_id', {})
        for attr, path, c in walkspec.children(n):
            parts.append(rec(c, sl.get(attr, 0)))
        return ' '.join(parts) + ')'
    return rec(root, 0)


class Case:
    """one parser-produced tree prepared for the walker streams (works on a private deep copy)"""

    def __init__(self, root, schema):
        self.schema = schema
        with harness_recursion():
            self.root = copy.deepcopy(root)
            self.num = walkspec.Numbering(self.root)
            self.text, _, self.unknown = walkspec.rose(self.root, schema, self.num)
        self.usable = not self.unknown and not self.num.shared

    def fresh(self):
        """a new copy with the same numbering"""
        with harness_recursion():
            r = copy.deepcopy(self.root)
            return r, walkspec.Numbering(r)

    def depths(self):
        """number -> nesting depth (root = 1)"""
        d = {0: 1}
        for k in range(1, len(self.num.nodes)):
            d[k] = d[self.num.parent[k][0]] + 1
        return d


def real_walk(schema, root, num, mode, arg=None):
    """run the real code; canonical result dict(visits=[...], tree=..., r=..., extra=...)"""
    from mindsdb_sql.planner import utils
    from mindsdb_sql.parser.ast import Constant, Parameter
    cid = schema['class_id']
    tagof = tagger(num)
    visits = []
    extra = ''

    def rec(node, ans, kw):
        pq = kw.get('parent_query')
        visits.append('%s:%d%d:%d:%s' % (
            'N' if node is None else tagof(node), bool(kw.get('is_table')), bool(kw.get('is_target')),
            0 if pq is None else cid.get(type(pq).__name__, 0), '-' if ans is None else tagof(ans)))
    if mode == 'log':
        def cb(node, **kw):
            rec(node, None, kw)
        res = utils.query_traversal(root, cb)
    elif mode == 'raise':
        # a visitor that looks and raises at one node: the calls made are those of the looking visitor up to that node,
        # the exception reaches the caller, the tree is as it was
        tgt = num.nodes[arg]

        def cb(node, **kw):
            rec(node, None, kw)
            if node is tgt:
                raise Abort()
        try:
            res = utils.query_traversal(root, cb)
            raised = False
        except Abort:
            res, raised = None, True
        with harness_recursion():
            return dict(visits=visits, tree=rose_after(root, schema, tagof), r='!' if raised else ('-' if res is None else str(tagof(res))),
                        extra='')
    elif mode in ('rep', 'rept', 'repf'):
        R = replacement({'rep': 'const', 'rept': 'tuple0', 'repf': 'falsy'}[mode])
        tgt = num.nodes[arg]

        def cb(node, **kw):
            a = R if node is tgt else None
            rec(node, a, kw)
            return a
        res = utils.query_traversal(root, cb)
    elif mode == 'find':
        # the library function: number and (textual) order of the parameters ...
        ps = utils.get_query_params(root)
        extra = 'n=%d order=%s' % (len(ps), ','.join(str(tagof(p)) for p in ps))

        # ... and the visitor it uses, with a log
        def cb(node, **kw):
            a = node if isinstance(node, Parameter) else None
            rec(node, a, kw)
            return a
        res = utils.query_traversal(root, cb)
    elif mode == 'fill':
        vals = [VAL0 + i for i in range(arg)]
        # the library function on one copy ...
        with harness_recursion():
            r2 = copy.deepcopy(root)
            n2 = walkspec.Numbering(r2)
        err = False
        try:
            utils.fill_query_params(r2, list(vals))
        except IndexError:
            err = True
        # ... and the same steps with a log on the tree that is reported: values are assigned to the placeholders in
        # textual order (get_query_params), then every placeholder is replaced by its value (looked up by identity)
        found = utils.get_query_params(root)
        res = None
        if len(vals) < len(found):
            extra = 'left=0 indexError=1'
            failed = True
        else:
            failed = False
            values = {id(p): v for p, v in zip(found, vals)}

            def cb(node, **kw):
                a = None
                if isinstance(node, Parameter):
                    v = values[id(node)]
                    a = Constant(v, alias=node.alias, parentheses=node.parentheses)
                rec(node, a, kw)
                return a
            res = utils.query_traversal(root, cb)
            extra = 'left=%d indexError=0' % (len(vals) - len(found))
        if failed != err:
            extra += ' MISMATCH(IndexError)'
        with harness_recursion():
            if not err and rose_after(r2, schema, tagger(n2)) != rose_after(root, schema, tagof):
                extra += ' MISMATCH(fill_query_params tree)'
    else:
        raise ValueError(mode)
    with harness_recursion():
        after = rose_after(root, schema, tagof)
    return dict(visits=visits, tree=after,
                r='-' if res is None or isinstance(res, list) else str(tagof(res)), extra=extra)


def parse_model(line):
    parts = [p.strip() for p in line.split(' ; ')]
    if len(parts) != 3:
        return dict(error=line)
    m = re.match(r'r=(\S+)\s*(.*)$', parts[2])
    return dict(visits=parts[0].split() if parts[0] else [], tree=parts[1], r=m.group(1), extra=m.group(2).strip())


# ------------------------------------------------------------------ impl-level oracle (C13)

class Stack:
    """wraps the module global query_traversal to know, at every callback, which node's branch made the call"""

    def __enter__(self):
        from mindsdb_sql.planner import utils
        self.utils, self.orig, self.stack = utils, utils.query_traversal, []

        def qt(node, *a, **k):
            self.stack.append(node)
            try:
                return self.orig(node, *a, **k)
            finally:
                self.stack.pop()
        utils.query_traversal = qt
        self.qt = qt
        return self

    def __exit__(self, *a):
        self.utils.query_traversal = self.orig


def slot_kind(schema, pcls, attr, vcls):
    c = schema['classes'].get(pcls)
    if c and attr in c['kinds']:
        return c['kinds'][attr]
    return walkspec.kind_of(pcls, attr, (vcls,))


def _has_param(num, k):
    return type(num.nodes[k]).__name__ == 'Parameter' or any(_has_param(num, c) for c in num.kids[k])


def lib_call(f):
    """run a walk of the real code under the interpreter's ordinary recursion limit (the harness itself runs under a raised
    one).  Only when that limit is hit — the oracle's bookkeeping wrapper costs one more frame per level — the call is
    repeated with room.  returns (result, retried)"""
    try:
        with library_recursion():
            return f(), False
    except RecursionError:
        return f(), True


def oracle(schema, root, rng, n_rep=3):
    """the property's own oracle on the real code, for one parser-produced tree (of any nesting depth).
    returns (failures, stats): failures = list of dict(cls, slot, dev, detail)"""
    with harness_recursion():
        return _oracle(schema, root, rng, n_rep)


def _oracle(schema, root, rng, n_rep):
    fails = []
    r0 = copy.deepcopy(root)
    num = walkspec.Numbering(r0)
    if num.shared:
        return [], dict(skipped='shared-subobject')
    try:
        pos = walkspec.print_positions(r0, num)
    except Exception:
        pos = None
    before = rose_after(r0, schema, tagger(num))
    log = []
    retried = False
    with Stack() as S:
        def cb(node, **kw):
            par = S.stack[-2] if len(S.stack) >= 2 else None
            log.append((node, bool(kw.get('is_table')), bool(kw.get('is_target')), par))

        def look():
            del log[:]
            del S.stack[:]
            return S.qt(r0, cb)
        try:
            _, retried = lib_call(look)
        except Exception as e:
            # a visitor that only looks never raises: the walker did
            fails.append(dict(cls=type(root).__name__, slot='*', dev='raised',
                              detail='the walk of a tree of %d nodes raised %s: %s' % (len(num.nodes), type(e).__name__, str(e)[:200])))
            return fails, dict(nodes=len(num.nodes), visited=0, required=0)
    if rose_after(r0, schema, tagger(num)) != before:
        fails.append(dict(cls=type(root).__name__, slot='*', dev='mutated', detail='a walk whose visitor returns None changed the tree'))
    first = {}
    count = {}
    flags = {}
    for i, (node, it, ig, par) in enumerate(log):
        if node is None:
            pc = type(par).__name__ if par is not None else '?'
            cands = [e['slot'] for e in schema['classes'].get(pc, {}).get('walk', ()) if e['none_visit']
                     and getattr(par, e['slot'], 0) is None]
            fails.append(dict(cls=pc, slot=cands[0] if len(cands) == 1 else '?', dev='none',
                              detail='the visitor was called with None'))
            continue
        k = num.ids.get(id(node))
        if k is None:
            if not isinstance(node, walkspec.astnode()):
                pc = type(par).__name__ if par is not None else '?'
                fails.append(dict(cls=pc, slot='?', dev='nonnode',
                                  detail='the visitor was called with %r (%s), which is not a node of the statement'
                                         % (node, type(node).__name__)))
            continue
        first.setdefault(k, i)
        count[k] = count.get(k, 0) + 1
        flags[k] = (it, ig)
    # kinds and reach
    kind = {0: 'root'}
    reached = {0}
    order = list(range(len(num.nodes)))
    for k in order[1:]:
        pk, attr, path = num.parent[k]
        kd = slot_kind(schema, type(num.nodes[pk]).__name__, attr, type(num.nodes[k]).__name__)
        kind[k] = kd
        if pk in reached and kd != 'name':
            reached.add(k)
    sub_first = {}

    def sf(k):
        v = first.get(k)
        for c in num.kids[k]:
            w = sf(c)
            if w is not None and (v is None or w < v):
                v = w
        sub_first[k] = v
        return v
    sf(0)
    unvisited_above = set()
    depth = {0: 1}
    for k in order[1:]:
        pk, attr, path = num.parent[k]
        depth[k] = depth[pk] + 1
        pc = type(num.nodes[pk]).__name__
        if pk in unvisited_above:
            unvisited_above.add(k)
            continue
        if k not in reached:
            continue
        if kind[k] in walkspec.REQUIRED:
            if k not in count:
                fails.append(dict(cls=pc, slot=attr, dev='unvisited', node=k, depth=depth[k],
                                  detail='node %d (%s, nesting depth %d) is never passed to the visitor' % (k, type(num.nodes[k]).__name__, depth[k])))
                unvisited_above.add(k)
                continue
            if count[k] > 1:
                fails.append(dict(cls=pc, slot=attr, dev='multi', detail='node %d visited %d times' % (k, count[k])))
            it, ig = flags[k]
            if it != (kind[k] == 'table'):
                fails.append(dict(cls=pc, slot=attr, dev='flag_table', detail='node %d: is_table=%s in a %s position' % (k, it, kind[k])))
            if ig != (kind[k] == 'target'):
                fails.append(dict(cls=pc, slot=attr, dev='flag_target', detail='node %d: is_target=%s in a %s position' % (k, ig, kind[k])))
    # order among siblings: first visit inside the subtree vs. printed position
    if pos is not None:
        for k in order:
            if k not in reached or k in unvisited_above:
                continue
            ks = [c for c in num.kids[k] if c in reached and sub_first.get(c) is not None and c in pos]
            ks.sort(key=lambda c: sub_first[c])
            for i, c in enumerate(ks):
                late = [d for d in ks[i + 1:] if pos[d] < pos[c]]
                if late:
                    fails.append(dict(cls=type(num.nodes[k]).__name__, slot=num.parent[c][1], dev='order', node=c,
                                      has_param=_has_param(num, c) and any(_has_param(num, d) for d in late),
                                      detail='node %d is visited before a sibling that is printed earlier' % c))
    # replacement: a node returned for a visited node takes exactly its place
    visited = [k for k in first if k != 0]
    for x in (rng.sample(visited, n_rep) if len(visited) > n_rep else visited):
        r1 = copy.deepcopy(root)
        n1 = walkspec.Numbering(r1)
        from mindsdb_sql.planner import utils
        # the answer: alternately a plain constant and a node of some other class (empty containers, falsy-looking
        # constants, queries, …) — whatever node the visitor returns has to take the place of the visited node
        pool = replacement_pool()
        mk, rcls = (lambda: replacement('const'), 'Constant') if rng.random() < 0.4 or not pool else rng.choice(pool)
        R = mk()
        R._verif_tag = R_TAG
        tgt = n1.nodes[x]
        try:
            lib_call(lambda: utils.query_traversal(r1, lambda node, **kw: R if node is tgt else None))
        except Exception as e:
            fails.append(dict(cls=type(root).__name__, slot='*', dev='raised',
                              detail='the walk with a visitor answering for node %d raised %s: %s' % (x, type(e).__name__, str(e)[:200])))
            continue
        got = rose_after(r1, schema, tagger(n1))
        # expected: the same tree with the subtree of x replaced by R
        pk, attr, path = n1.parent[x]
        r2 = copy.deepcopy(root)
        n2 = walkspec.Numbering(r2)
        R2 = mk()
        R2._verif_tag = R_TAG
        walkspec.set_child(n2.nodes[pk], attr, path, R2)
        want = rose_after(r2, schema, tagger(n2))
        if got != want:
            fails.append(dict(cls=type(n1.nodes[pk]).__name__, slot=attr, dev='replace', answer=rcls,
                              detail='a node (%s%s) returned for node %d does not take exactly its place'
                                     % (rcls, ' without children' if not walkspec.children(R2) else '', x)))
        else:
            for k2, nd in enumerate(n1.nodes):
                for al, attr2 in walkspec.stale_aliases(nd):
                    fails.append(dict(cls=type(nd).__name__, slot=attr2, dev='alias',
                                      detail='after a node was returned for node %d, %s.%s still refers to the old child of %s'
                                             % (x, type(nd).__name__, al, attr2)))
    for f in fails:
        if 'node' in f and 'has_param' not in f:
            f['has_param'] = _has_param(num, f['node'])
    return fails, dict(nodes=len(num.nodes), visited=len(first), required=sum(1 for k in reached if kind.get(k) in walkspec.REQUIRED),
                       depth=max(depth.values()), retried=retried)
