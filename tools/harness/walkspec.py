"""Shared pieces for C13 / C12 (walker schema): specification reading of slot kinds, child
enumeration of real AST nodes, rose-tree serialisation, print-position oracle.

Slot kinds (the *specification reading* of "table reference, expression node, nested query",
DESIGN.md §8; listed in notes/C13.md):
  table / target / expr / query  -- must be visited (required)
  container                      -- the node itself is a syntactic container, only its children count
  name                           -- labels, object names, column-name lists, option dictionaries: not claimed
"""
import copy

REQUIRED = ('table', 'target', 'expr', 'query')
KINDS = ('table', 'target', 'expr', 'query', 'container', 'name')

QUERY_CLASSES = ('Select', 'Union', 'Intersect', 'Except', 'Insert', 'Update', 'Delete')

# classes for which every node-valued attribute is an SQL position (default kind: expr)
CORE = ('Select', 'Union', 'Intersect', 'Except', 'Join', 'BinaryOperation', 'UnaryOperation', 'BetweenOperation',
        'Function', 'WindowFunction', 'TypeCast', 'Tuple', 'Case', 'OrderBy', 'CommonTableExpression', 'Insert',
        'Update', 'Delete', 'CreateTable', 'Exists', 'NotExists', 'Operation')

SPEC = {
    ('Select', 'targets'): 'target', ('Select', 'from_table'): 'table', ('Select', 'cte'): 'container',
    ('Select', 'using'): 'name',
    ('CommonTableExpression', 'name'): 'name', ('CommonTableExpression', 'columns'): 'name',
    ('CommonTableExpression', 'query'): 'query',
    ('Join', 'left'): 'table', ('Join', 'right'): 'table',
    ('Insert', 'table'): 'table', ('Insert', 'columns'): 'name', ('Insert', 'from_select'): 'query',
    ('Update', 'table'): 'table', ('Update', 'keys'): 'name', ('Update', 'from_select'): 'query',
    ('Update', 'from_select_alias'): 'name',
    ('Delete', 'table'): 'table',
    ('CreateTable', 'name'): 'table', ('CreateTable', 'columns'): 'name', ('CreateTable', 'from_select'): 'query',
    ('Union', 'left'): 'query', ('Union', 'right'): 'query',
    ('Intersect', 'left'): 'query', ('Intersect', 'right'): 'query',
    ('Except', 'left'): 'query', ('Except', 'right'): 'query',
    ('Show', 'where'): 'expr',
}


# attributes that hold a second reference to a child stored elsewhere (Exists(query): `self.query = query` and
# `args=[query]`); the tree position is the other one, the alias has to follow it (checked by the C13 oracle)
ALIASES = {('Exists', 'query'): ('args', 0), ('NotExists', 'query'): ('args', 0)}


def stale_aliases(node):
    """aliases of `node` that do not point to the child they stand for"""
    out = []
    for (cn, attr), (attr2, i) in ALIASES.items():
        if type(node).__name__ == cn:
            tgt = getattr(node, attr2, None)
            if isinstance(tgt, (list, tuple)) and len(tgt) > i and getattr(node, attr, None) is not tgt[i]:
                out.append((attr, attr2))
    return out


def kind_of(cls, attr, value_classes=()):
    """kind of slot `attr` of class `cls`; value_classes = class names seen in that slot"""
    if attr == 'alias':
        return 'name'
    if attr == 'cte':
        return 'container'      # the parsers attach WITH entries to whatever query follows (Select, Union, …)
    k = SPEC.get((cls, attr))
    if k:
        return k
    if cls in CORE:
        return 'expr'
    if value_classes and all(v in QUERY_CLASSES for v in value_classes):
        return 'query'
    return 'name'


def astnode():
    """the classes whose instances count as tree nodes: ASTNode and TableColumn (not an ASTNode, but
    query_traversal passes the columns of a CreateTable to the visitor)"""
    from mindsdb_sql.parser.ast.base import ASTNode
    from mindsdb_sql.parser.ast.create import TableColumn
    return (ASTNode, TableColumn)


def children(node):
    """direct ASTNode children of a real node: list of (attr, index_path, child) in vars order,
    flattening lists / tuples / dict values (dict order = insertion order, as the code iterates it)"""
    A = astnode()
    out = []

    def rec(attr, path, v):
        if isinstance(v, A):
            out.append((attr, path, v))
        elif isinstance(v, (list, tuple)):
            for i, x in enumerate(v):
                rec(attr, path + (i,), x)
        elif isinstance(v, dict):
            for k, x in v.items():
                rec(attr, path + (k,), x)
    cn = type(node).__name__
    for attr, v in vars(node).items():
        if (cn, attr) in ALIASES:
            continue
        rec(attr, (), v)
    return out


def set_child(node, attr, path, new):
    """replace the child at (attr, path) of `node` in place (tuples are rebuilt as lists)"""
    if not path:
        setattr(node, attr, new)
        return
    cont = getattr(node, attr)
    if isinstance(cont, tuple):
        cont = list(cont)
        setattr(node, attr, cont)
    for p in path[:-1]:
        nxt = cont[p]
        if isinstance(nxt, tuple):
            nxt = list(nxt)
            cont[p] = nxt
        cont = nxt
    cont[path[-1]] = new


class Numbering:
    """preorder numbering of every ASTNode reachable through attributes (shared sub-objects are
    numbered at first reach; a second reach is recorded in .shared)"""

    def __init__(self, root):
        self.ids = {}       # id(obj) -> number
        self.nodes = []     # number -> obj
        self.parent = {}    # number -> (parent number, attr, path)
        self.kids = {}      # number -> [numbers]
        self.shared = []
        self._rec(root, None)

    def _rec(self, n, par):
        if id(n) in self.ids:
            self.shared.append(self.ids[id(n)])
            return None
        k = len(self.nodes)
        self.ids[id(n)] = k
        self.nodes.append(n)
        self.kids[k] = []
        if par is not None:
            self.parent[k] = par
        for attr, path, c in children(n):
            ck = self._rec(c, (k, attr, path))
            if ck is not None:
                self.kids[k].append(ck)
        return k


def print_positions(root, num):
    """number -> start offset of the node's own text in root.to_string(), found by bracketing every
    to_string / get_string call with private-use markers (independent of the probed templates).
    Nodes printed without these methods (or not printed) are absent from the result."""
    A = astnode()
    seen = set()
    patched = []
    active = set()

    def wrap(cls, name):
        orig = cls.__dict__[name]

        def f(self, *a, **k):
            key = num.ids.get(id(self))
            if key is None or key in active:
                return orig(self, *a, **k)
            active.add(key)
            try:
                s = orig(self, *a, **k)
            finally:
                active.discard(key)
            if not isinstance(s, str):
                return s
            return '%d%s' % (key, s)
        setattr(cls, name, f)
        patched.append((cls, name, orig))

    def all_sub(c):
        for s in c.__subclasses__():
            if s not in seen:
                seen.add(s)
                yield s
                yield from all_sub(s)
    try:
        for cls in [A[0]] + list(all_sub(A[0])):
            for name in ('to_string', 'get_string'):
                if name in cls.__dict__:
                    wrap(cls, name)
        text = root.to_string()
    finally:
        for cls, name, orig in patched:
            setattr(cls, name, orig)
    pos = {}
    i, off = 0, 0
    while i < len(text):
        ch = text[i]
        if ch == '':
            j = text.index('', i)
            key = int(text[i + 1:j])
            pos.setdefault(key, off)
            i = j + 1
        elif ch == '':
            i += 1
        else:
            off += 1
            i += 1
    return pos


def rose(root, schema, num=None):
    """serialise a real tree for Driver/Walk.lean: '(cls slot tag kid*)'; returns (text, num, unknown)
    where unknown lists (class, attr) pairs missing from the schema (then the text must not be used)"""
    num = num or Numbering(root)
    cid = schema['class_id']
    unknown = []

    def rec(k, slot):
        n = num.nodes[k]
        cn = type(n).__name__
        c = cid.get(cn)
        if c is None:
            unknown.append((cn, None))
            c = 0
        parts = ['(%d %d %d' % (c, slot, k)]
        sl = schema['classes'].get(cn, {}).get('slot_id', {})
        for ck in num.kids[k]:
            _, attr, path = num.parent[ck]
            s = sl.get(attr)
            if s is None:
                unknown.append((cn, attr))
                s = 0
            parts.append(rec(ck, s))
        return ' '.join(parts) + ')'
    return rec(0, 0), num, unknown
