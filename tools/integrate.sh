#!/bin/bash
# usage: tools/integrate.sh <agent copy dir>  -- copy NEW files of a property package into /verif, list conflicting ones
SRC=$1/verif
cd $SRC || exit 1
echo "== new files"
rsync -a --ignore-existing --exclude .git --exclude .lake --exclude 'lean/MindsVerif/Gen' --exclude gen --exclude replays --exclude evidence --exclude __pycache__ --exclude corpus --exclude seeded --out-format='%n' ./ /verif/ | grep -v '/$'
echo "== existing files that differ (not copied)"
for f in $(find . -type f -not -path './.git/*' -not -path './lean/.lake/*' -not -path './lean/MindsVerif/Gen/*' -not -path './gen/*' -not -path './replays/*' -not -path './evidence/*' -not -path '*/__pycache__/*' -not -path './seeded/*'); do
  if [ -f /verif/$f ] && ! cmp -s $f /verif/$f; then echo $f; fi
done
