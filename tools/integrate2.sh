#!/bin/bash
# usage: tools/integrate2.sh <agent dir> -- copy every file of the agent copy that was not part of the base framework
SRC=$1/verif
cd $SRC || exit 1
find . -type f -not -path './.git/*' -not -path './lean/.lake/*' -not -path './lean/MindsVerif/Gen/*' -not -path './gen/*' -not -path './replays/*' -not -path './evidence/*' -not -path '*/__pycache__/*' -not -path './seeded/*' -not -path './corpus/*' -not -name '.build.lock' | sed 's#^\./##' | while read f; do
  own=$(/venv/bin/python -c "
import json,sys,os
o=json.load(open('/verif/tools/owners.json')); n=os.path.basename(os.path.dirname('$SRC'))
pats=o.get(n)
print(1 if pats is None or any(p in '$f' for p in pats) else 0)" 2>/dev/null)
  if [ "$own" != "1" ]; then continue; fi
  if ! grep -qxF "$f" /tmp/base_files.txt; then
    if [ ! -f /verif/$f ] || ! cmp -s $f /verif/$f; then mkdir -p /verif/$(dirname $f); cp $f /verif/$f; echo "copied $f"; fi
  fi
done
