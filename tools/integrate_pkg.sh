#!/bin/bash
# usage: tools/integrate_pkg.sh <agent dir> <file>...  -- overwrite the given package files from the agent copy
SRC=$1/verif; shift
for f in "$@"; do mkdir -p /verif/$(dirname $f); if [ -e $SRC/$f ]; then cp $SRC/$f /verif/$f; else rm -f /verif/$f; fi; done
