#!/venv/bin/python
"""(re)generate kf_proposed_C08.json: for every signature of a confirmed defect class the smallest hand-picked query and
the smallest table contents (searched, then shrunk) on which the REAL plan returns different rows."""
import json, os, random, sys
ROOT = os.path.dirname(os.path.dirname(os.path.abspath(__file__)))
sys.path.insert(0, ROOT)
from tools import framework  # noqa
from tools.harness import planexec as px, c08gen as g
from tools.props import c08

J = 'SELECT * FROM int1.ta %s int2.tc ON %s'
CASES = [
    ('semi/right-full-join', 'names', J % ('RIGHT JOIN', 'ta.id = tc.id'), {},
     'the semi-join filter `key IN (SELECT DISTINCT key FROM <left result>)` is put into the fetch of the right operand of a RIGHT / FULL join; right rows without partner must survive NULL-padded but are never fetched',
     'plan_join.py:get_filters_from_join_conditions (no look at join_type)'),
    ('semi/under-not', 'names', J % ('JOIN', 'NOT ta.id = tc.id'), {},
     'an equality found under NOT in the ON condition still produces the semi-join IN filter (NOT is a UnaryOperation: it is traversed but not recorded in binary_ops)',
     'plan_join.py:get_filters_from_join_conditions._check_conditions'),
    ('where/under-not', 'names', J % ('JOIN', 'ta.id = tc.id') + ' WHERE NOT tc.y = 1', {},
     'a column-vs-constant comparison found under NOT in WHERE is pushed into the table fetch as if it were a conjunct: `WHERE NOT tc.y = 1` fetches `y = 1`',
     'plan_join.py:check_query_conditions / check_node_condition (context of the comparison is ignored)'),
    ('where/is-null-on-null-supplying-side', 'names', J % ('LEFT JOIN', 'ta.id = tc.id') + ' WHERE tc.y IS NULL', {},
     '`col IS NULL` (not NULL-rejecting) is pushed into the fetch of the null-supplying operand of an outer join: matching rows with non-NULL col are not fetched, the left row is NULL-padded and then passes the WHERE',
     'plan_join.py:check_node_condition (NullConstant is a Constant)'),
    ('onconst/right-full-join', 'names', J % ('RIGHT JOIN', 'tc.y = 1'), {},
     'a column = constant conjunct of the ON condition is pushed into the fetch of the right operand of a RIGHT / FULL join',
     'plan_join.py:get_filters_from_join_conditions (conditions.append(node))'),
    ('onconst/under-not', 'names', J % ('JOIN', 'NOT tc.y = 1'), {},
     'a column = constant comparison under NOT in the ON condition is pushed into the fetch of the joined table',
     'plan_join.py:get_filters_from_join_conditions._check_conditions'),
    ('limit/nonleft-join', 'names', J % ('JOIN', 'ta.id = tc.id'), dict(limit=1),
     'LIMIT is copied into the fetch of the first table although a later join is not a LEFT join (check_use_limit tests table k+1 against the join of table k and never tests the second table)',
     'plan_join.py:check_use_limit / process_table'),
    ('limit/aggregate', 'names', 'SELECT ta.x, count(*) AS n0 FROM int1.ta LEFT JOIN int2.tc ON ta.id = tc.id GROUP BY ta.x', dict(limit=1),
     'LIMIT is copied into the fetch of the first table although the outer query groups / aggregates / is DISTINCT (`having is None or group_by is None and limit is not None` parses as `having is None or (…)`)',
     'plan_join.py:check_use_limit (operator precedence)'),
    ('limit/residual-where', 'names', J % ('LEFT JOIN', 'ta.id = tc.id') + ' WHERE tc.y = 1', dict(limit=1),
     'LIMIT is copied into the fetch of the first table although WHERE has a conjunct that is not evaluated in that fetch',
     'plan_join.py:check_use_limit / process_table'),
    ('limit/offset-below-join', 'names', J % ('LEFT JOIN', 'ta.id = tc.id'), dict(limit=1, offset=1),
     'OFFSET is moved from the query into the fetch of the first table (and removed from the outer query) although one left row can produce several joined rows',
     'plan_join.py:process_table (query2.offset = query_in.offset; query_in.offset = None)'),
    ('where/under-or-subselect', 'names', 'SELECT s.x, r.y FROM (SELECT id, x, y FROM int1.ta) AS s JOIN int2.tc AS r ON s.id = r.id WHERE s.x = 1 OR r.y = 1', {},
     'comparisons collected from a WHERE that contains OR are still applied to a joined sub-select (process_subselect does not test binary_ops for `or` as process_table does)',
     'plan_join.py:process_subselect'),
    ('limit/not-leftmost-operand', 'names', 'SELECT r.y, s.x FROM (SELECT id, x, y FROM int2.tc) AS s LEFT JOIN int3.tf AS r ON s.id = r.id', dict(limit=1),
     'LIMIT goes to the first operand that is a plain table; when the leftmost operand is a sub-select that is the RIGHT operand of the join',
     'plan_join.py:process_table (use_limit is consumed by the first table processed, process_subselect ignores it)'),
    ('api-split/aggregate-or-distinct-evaluated-twice', 'api3', 'SELECT x, count(*) AS n0 FROM int3.te GROUP BY x', {},
     'for an api-type integration the fetch gets the target list but not GROUP BY / DISTINCT, and the sub-select evaluates the same targets again: aggregates are computed over the whole table in the fetch and once more over its single result row',
     'query_planner.py:plan_api_db_select'),
    ('cte-shadow/pushdown-strips-qualifier', 'project', 'WITH ta AS (SELECT id, x, y FROM int1.tb) SELECT ta.x, p.y FROM ta LEFT JOIN int1.ta AS p ON ta.id = p.id', {},
     'a statement with a CTE is sent as a whole to one integration with the integration part of table names cut off; a real table of that integration named like the CTE is then read as the CTE (if it is the CTE\'s own source table: `WITH ta AS (SELECT … FROM ta)`, a circular reference)',
     'query_planner.py:check_single_integration / prepare_integration_select; plan_join.py:PlanJoin.check_single_integration'),
    ('cte-shadow/qualified-table-in-default-namespace', 'default', 'WITH tb AS (SELECT id, x, y FROM int3.tf) SELECT tb.x, u.y FROM tb JOIN int1.tb AS u ON tb.id = u.id', {},
     'a QUALIFIED table of the default namespace whose name equals a CTE name is replaced by the CTE rows (the real table is never fetched)',
     'query_planner.py:get_integration_select_step (integration_name == default_namespace and table_name in cte_results)'),
    ('api-split/offset-after-limit', 'api3', 'SELECT x FROM int3.te', dict(limit=1, offset=1, order_pos=[0], order_sql=' ORDER BY x'),
     'for an api-type integration LIMIT goes into the fetch while OFFSET stays in the sub-select, so the offset is applied after the limit',
     'query_planner.py:plan_api_db_select'),
    ('api-split/select-list-reprojected', 'api3', 'SELECT x AS k, y + 1 AS m FROM int3.te', {},
     'for an api-type integration a select list that renames or computes something (no aggregate / GROUP BY / DISTINCT) is evaluated in the fetch AND once more in the sub-select over the fetched dataframe, whose columns are already the renamed / computed ones: the sub-select refers to columns that no longer exist',
     'query_planner.py:plan_api_db_select (query2 = Select(targets=query.targets, …); the outer SubSelectStep keeps the same targets)'),
]


def small_contents(rng, tables):
    for c in g.all_contents_small(tables):
        yield c
    for _ in range(3000):
        yield {t: [(rng.choice([1, 1, 2, None]), rng.choice([0, 1, None]), rng.choice([1, 2, None]))
                   for _ in range(rng.choice([0, 1, 1, 2]))] for t in tables}


IDS = list(range(1, 14)) + [15, 16, 14, 17]

# signatures repaired in /repo (commit); their last witness is kept as a regression case
FIXED = {'where/under-not': '8fa2a67', 'where/under-or-subselect': '1a1b62e', 'semi/right-full-join': '34967fc',
         'semi/under-not': '34967fc', 'onconst/right-full-join': '34967fc', 'onconst/under-not': '34967fc',
         'limit/aggregate': '1052add', 'api-split/aggregate-or-distinct-evaluated-twice': 'b3f5fcd',
         'api-split/offset-after-limit': 'b3f5fcd', 'where/is-null-on-null-supplying-side': '15097fa',
         'cte-shadow/pushdown-strips-qualifier': 'a9036e5', 'limit/residual-where': 'f75cd04',
         'limit/not-leftmost-operand': '9d1984a', 'cte-shadow/qualified-table-in-default-namespace': '6dae0a8'}


# extra fields of open entries: which tests pin the defective plan, and the Lean theorem that delimits the class
WHY_PINNED = ('pinned by tests/test_planner/test_join_tables.py::TestPlanJoinTables::test_join_tables_plan_limit_offset, tests/test_planner/test_join_tables.py::TestPlanJoinTables::test_join_tables_plan_order_by (both expect LIMIT/OFFSET inside the first fetch of an inner join; verified by trying the repair against the suite); delimited by the theorems named in sound_if')
EXTRA = {
    'limit/nonleft-join': dict(
        pinned_by=['tests/test_planner/test_join_tables.py::TestPlanJoinTables::test_join_tables_plan_limit_offset',
                   'tests/test_planner/test_join_tables.py::TestPlanJoinTables::test_join_tables_plan_order_by'],
        why_open=WHY_PINNED,
        sound_if='every left row has at least one join partner (the join loses no left row): '
                 'Props/C08.lean C08_limit_inner_sound_if_total; always for LEFT joins: C08_T83_limit_left'),
    'limit/offset-below-join': dict(
        pinned_by=['tests/test_planner/test_join_tables.py::TestPlanJoinTables::test_join_tables_plan_limit_offset',
                   'tests/test_planner/test_join_tables.py::TestPlanJoinTables::test_join_tables_plan_order_by'],
        why_open=WHY_PINNED,
        sound_if='every left row has exactly one partner (INNER join: C08_limit_inner_sound_if_one_to_one) / at most one '
                 'partner (LEFT join: C08_offset_left_sound_if_at_most_one); counterexample C08_witness_offset_left'),
}


def main():
    world = px.World(g.SCHEMA)
    out = []
    try:
        prev = {k['id']: k for k in json.load(open(os.path.join(ROOT, 'kf_proposed_C08.json')))}
    except Exception:
        prev = {}
    merged = {k['id']: k for k in json.load(open(os.path.join(ROOT, 'known_findings.json')))['findings'] if k['property'] == 'C08'}
    for k, v in merged.items():
        prev.setdefault(k, v)
    for n, (sig, cat, body, kw, what, site) in zip(IDS, CASES):
        tabs = [(i, t) for (i, t) in g.TABLES if '%s.%s' % (i, t) in body]
        q = g.Q('kf', cat, body, tables=tabs, **kw)
        steps = c08.plan_for(q).steps
        best = None
        rng = random.Random(n)
        for contents in small_contents(rng, tabs):
            f = c08.run_case(world, q, steps, contents)
            if f is None:
                continue
            sigs = c08.attribute(world, q, steps, f)
            if sigs != [sig]:
                continue
            small = c08.shrink(world, q, steps, contents, lambda ff: c08.attribute(world, q, steps, ff) == [sig])
            size = sum(len(v) for v in small.values())
            if best is None or size < best[0]:
                best = (size, small)
                if size <= 2:
                    break
        if best is None:
            old = prev.get('KF-C08-%d' % n)
            commit = FIXED.get(sig)
            if old is None or commit is None:
                print('NO WITNESS for', sig, q.sql)
                continue
            what = old['what'] if old['what'].startswith('fixed: ') else 'fixed: property=C08 %s %s' % (commit, old['what'])
            out.append(dict(old, status='fixed', commit=commit, what=what))
            print('FIXED', sig, commit)
            continue
        f = c08.run_case(world, q, steps, best[1])
        c08.attribute(world, q, steps, f)
        out.append(dict(
            id='KF-C08-%d' % n, property='C08', status='open', sig=sig, site=site,
            what='%s — e.g. `%s` on %s returns %s instead of %s' % (what, q.sql, [c for c in f['contents'] if c[2]], f['actual'], f['expected']),
            **{'class': 'plan result differs from the query AND executing the same plan without its `%s` pushdowns gives the query result '
                        'AND the plan shape violates the side condition `%s` of the corresponding soundness theorem (Props/C08.lean)' % tuple(sig.split('/'))},
            **EXTRA.get(sig, {}),
            witness=dict(query=q.to_json(), sql=q.sql, catalog=cat, contents=f['contents'], expected=f['expected'], actual=f['actual'],
                         exec_error=f['exec_error'], plan=c08.steps_text(steps))))
        print(sig, '|', q.sql, '|', [c for c in f['contents'] if c[2]], '| expected', f['expected'], 'actual', f['actual'], f['exec_error'] or '')
    # only NEW or CHANGED entries (known_findings.json already holds the merged ones)
    key = lambda e: (e['status'], e['sig'], e.get('commit'), e['witness']['sql'], str(e.get('pinned_by')), e.get('sound_if'), e.get('why_open'))
    out = [e for e in out if e['id'] not in merged or key(e) != key(merged[e['id']])]
    print('proposed:', [e['id'] for e in out])
    json.dump(out, open(os.path.join(ROOT, 'kf_proposed_C08.json'), 'w'), indent=1, ensure_ascii=False)


if __name__ == '__main__':
    main()
