#!/venv/bin/python
"""Builds kf_proposed_C01.json (+ corpus/c01_shrink_cache.json) from class dumps of the saturation search
(tools/kf_saturate_c01.py) and of the check's own streams (C01_DUMP=... tools/check.py C01).
usage: kf_make_c01.py <classes.json>... [--pairs <file.pairs>...]"""
import json, os, sys
ROOT = os.path.dirname(os.path.dirname(os.path.abspath(__file__)))
sys.path.insert(0, ROOT)
os.environ.setdefault('PYTHONHASHSEED', '0')
from tools.harness import rt

LEVEL_A = [
    dict(key='param', feats=['param'], allow=[],
         what="a `?` placeholder is printed as `:?` (Parameter.get_string = ':' + value), which no lexer reads back: "
              "SELECT ? prints SELECT :? (LexError in sqlite/mysql, syntax error in mindsdb) — every statement kind with a placeholder",
         site='ast/select/parameter.py Parameter.get_string', fix='fixes/C01_1.diff'),
    dict(key='ident-empty', feats=['ident-empty'], allow=['prints-None', 'prints-repr'],
         what='an empty identifier part (written "" in the MindsDB dialect) is printed as `` (two back-quotes), which is a '
              'LexError: DROP AGENT a."" prints DROP AGENT a.``', site='ast/select/identifier.py parts_to_str (see KF-C04-7)'),
    dict(key='key-empty-part', feats=['key-empty-part'], allow=['prints-repr', 'prints-None'],
         what='a USING / SET parameter name with an empty part (`a."" = 1`) is kept as the string `a.`; printing goes through Identifier(key), which '
              'drops the empty part: UPDATE SKILL a SET a."" = [] prints `SET a=[]` (fixes/C01_13.diff rejects the empty part)',
         site='kw_parameter rule: key = ".".join(parts); utils.params_to_string'),
    dict(key='col-quoted', feats=['col-quoted'], allow=['str-quote', 'str-bs', 'str-nl', 'str-dquote'],
         kinds_extra={'reparse-fail': ['LexError', 'ParsingException', 'AssertionError'], 'tree-differs': ['']},
         what="a non-name column of an INSERT column list (variable, CASE expression — the sqlite / mysql grammars take result columns there) is kept as its printed text and back-quoted as if it were a name: INSERT INTO a (@'a b') SELECT a prints a(`@`a b``) (plain quoting of odd names was repaired in addc808)",
         site='ast/insert.py Insert.column_to_str; insert rule `LPAREN result_columns RPAREN`'),
    dict(key='ident-noparts', feats=['ident-noparts'], allow=['str-quote', 'str-bs', 'str-nl', 'alias-dotted'],
         what='a double-quoted name made of dots only (MindsDB: "." used as alias or name) becomes an Identifier with no parts, which prints '
              'as nothing: SELECT a "." prints `SELECT a AS `', site='ast/select/identifier.py path_str_to_parts / Identifier.__init__'),
    dict(key='alias-dotted', feats=['alias-dotted'], allow=[],
         what='an alias with several parts: `( query ) a.b` / `( query ) a.*` is accepted (from_table_aliased assigns the alias after '
              'construction, so the one-part check of ASTNode.__init__ is bypassed) and prints `AS a.b`, which is a syntax error',
         site='from_table_aliased rule of the three parsers; ast/base.py ASTNode.__init__'),
    dict(key='ident-bq', feats=['ident-bq'], allow=['str-quote', 'str-bs', 'str-nl'],
         what='an identifier part that contains a back-quote has no printable form (KF-C04-7). It arises from `( query ) AS `name``: the rule '
              '`LPAREN query RPAREN AS id` builds Identifier(parts=[p.id]) from the raw token and keeps its back-quotes, so '
              'SELECT * FROM (SELECT 1) AS `alter` prints AS ``alter``; and from double-quoted names containing a back-quote',
         site='from_table rule `LPAREN query RPAREN AS id` of the three parsers; ast/select/identifier.py parts_to_str'),
    dict(key='var-quoted', feats=['var-quoted'], allow=[],
         what="a quoted @variable (@'a b', @`a b`, @\"a b\") is printed without its quotes (Variable.get_string = '@' + value): "
              "SELECT @`a b` prints SELECT @a b", site='ast/variable.py Variable.get_string'),
    dict(key='prints-uescape', feats=['prints-uescape'], allow=[],
         what='non-ASCII text inside PARAMETERS / USING values is printed by json.dumps as \\uXXXX escapes, which the lexers do not decode: '
              "CREATE DATABASE a PARAMETERS {'ü': 1} prints {\"\\u00fc\": 1} (visible since 56ba270 prints PARAMETERS without ENGINE; "
              'fixes/C01_19.diff: ensure_ascii=False)', site='json.dumps in create_database.py, select.py, create_predictor.py'),
    dict(key='prints-repr', feats=['prints-repr'], allow=['prints-None'],
         what='EVALUATE ... USING prints its values with str(): a typed object prints `Object(type=..., params={params_str})` (the USING / SET lists of agents, skills, chatbots, knowledge bases, ML engines were repaired in 7cd7916)',
         site='dialects/mindsdb/evaluate.py Evaluate.get_string'),
    dict(key='prints-None', feats=['prints-None'], allow=[],
         what='an absent value is printed as the Python word None: SHOW ENGINE prints `SHOW ENGINE None`; EVALUATE ... USING a = [null] prints [None] (CREATE AGENT model=None repaired in 8cbc399, parameter lists in 7cd7916)',
         site='ast/show.py Show.get_string; dialects/mindsdb/evaluate.py'),
    dict(key='interval', feats=['interval'], allow=['str-quote', 'str-bs', 'str-nl'],
         what="INTERVAL with a quoted amount that contains a blank / unit is re-split on printing: INTERVAL 'a b' a prints INTERVAL 'a' b a",
         site='ast/select/operation.py Interval'),
    dict(key='offset-bare', feats=['offset-bare'], allow=[],
         what='mysql dialect: OFFSET is an `id` alternative, so a SELECT whose OFFSET directly follows a target or a table (from `(SELECT a) OFFSET 1`) prints `SELECT a OFFSET 1`, where OFFSET is read as an alias and the number is a syntax error (the mindsdb dialect was repaired in 8fa9192 / 7ca02af by a precedence declaration; fixes/C01_15.diff ports it to mysql)',
         site='`id` rule (OFFSET alternative) of dialects/mysql/parser.py, dialects/mindsdb/parser.py'),
    dict(key='string-escapes', feats=['str-quote'], allow=['str-bs', 'str-nl', 'str-dquote'],
         what="a string with a quote printed outside Constant.get_string is not escaped: CREATE JOB a (a) START '\\'' prints START ''' (CreateJob formats its START / END / EVERY strings raw; SHOW ... LIKE repaired in 31b242b, the Constant codec in 2843e02)",
         site='dialects/mindsdb/create_job.py CreateJob.get_string'),
    dict(key='string-backslash', feats=['str-bs'], allow=['str-quote', 'str-nl', 'str-dquote'],
         what='a string with a backslash printed outside Constant.get_string is not escaped: CREATE JOB a (a) START "\\\\\\\\" (the value \\\\) prints START \'\\\\\', read back as one backslash',
         site='dialects/mindsdb/create_job.py CreateJob.get_string'),
    dict(key='string-newline', feats=['str-nl'], allow=['str-dquote'],
         what='a string value with a newline (or tab) inside a USING / SET / PARAMETERS list or an ENGINE name is printed by json.dumps / repr with the two-character '
              'escape \\n, which unescape_string keeps as backslash + n: CREATE AGENT a USING a = \'a<newline>\' prints a="a\\n" and reads back a different value',
         site='parser/utils.py params_to_string (json.dumps), create_database.py (repr / json.dumps), select.py / create_predictor.py USING printers'),
    dict(key='float-exp', feats=['float-exp'], allow=['float'],
         what='a float whose repr uses an exponent prints as 1e-05 / 1.0000000000000001e+23, which is not a numeric literal of the grammars (KF-C04-8)',
         site='ast/select/constant.py Constant.get_string: str(self.value)'),
    dict(key='func-quoted', feats=['func-quoted'], allow=[],
         what='a function whose name is a clause / operator keyword and was therefore written quoted (`select`(), `from`(1)) is printed with the bare name, which is read as the keyword (names that are not plain words are back-quoted since b1dd7a3)',
         site='ast/select/operation.py Function.get_string'),
    dict(key='setop-right-nested', feats=['setop-right-nested'], allow=['setop-nested'],
         what='parentheses around a set operation that is the right operand of another one are dropped (the rules `select : ( select ) | ( union )` '
              'return the inner node without a flag): SELECT a EXCEPT (SELECT a EXCEPT SELECT *) is printed flat and re-read left-nested '
              '(Lean witness C01_witness_union)', site='`LPAREN union RPAREN` rule of dialects/mindsdb/parser.py; ast/select/union.py', fix='fixes/C01_5.diff'),
    dict(key='setop-parens', feats=['setop-nested'], allow=['nested-stmt'],
         what='a doubly parenthesised set operation used as an expression / source loses one pair where the grammar needs both: CREATE MODEL a PREDICT ((SELECT a UNION SELECT *)), CREATE KNOWLEDGE_BASE a FROM ((SELECT a INTERSECT SELECT a)) (get_string of the inner query is used; the set-operation operand cases were repaired in bce2da8)',
         site='dialects/mindsdb/knowledge_base.py (from_query.get_string()); expr rule `LPAREN select RPAREN`'),
    dict(key='nested-stmt', feats=['nested-stmt'], allow=[],
         what='the grammars accept `( statement )` where a table is expected (INSERT INTO (SHOW …) …); the nested statement is printed by its own printer and inherits its findings (SHOW clauses dropped / quotes not escaped)',
         site='from_table / table rules accepting `LPAREN query RPAREN` with `query` = any statement'),
]


WITNESS = {
    'param': ('sqlite', 'SELECT ?'), 'ident-empty': ('mindsdb', 'DROP AGENT a . ""'),
    'col-quoted': ('sqlite', 'INSERT INTO a ( `a b` ) VALUES ( 1 )'), 'ident-noparts': ('mindsdb', 'SELECT a "."'),
    'ident-bq': ('mindsdb', 'SELECT * FROM ( SELECT 1 ) AS `alter`'), 'var-quoted': ('mindsdb', 'SELECT @`a b`'),
    'prints-repr': ('mindsdb', 'UPDATE SKILL a SET a = a'), 'prints-None': ('mindsdb', 'SHOW ENGINE'),
    'interval': ('mindsdb', "SELECT INTERVAL 'a b' a"), 'offset-bare': ('mysql', '( select a ) OFFSET 1'),
    'string-escapes': ('mindsdb', "CREATE JOB a ( a ) START '\\''"), 'string-backslash': ('mindsdb', 'CREATE JOB a ( a ) START "\\\\\\\\"'),
    'string-newline': ('mindsdb', "CREATE AGENT a USING a = 'a\n'"),
}
# further minimised inputs seen in earlier searches (kept so that their classes stay listed)
EXTRA = [('mindsdb', 'SELECT a "."'), ('mindsdb', 'CREATE AGENT a USING a = 1'), ('mindsdb', "select @'a b'"),
         ('mysql', 'SELECT a "a`a"'), ('sqlite', 'INSERT INTO a ( `B""` ) VALUES ( 1 )')]


FIXED = {'KF-C01-1': 'fa4fc42', 'KF-C01-6': '6a738d8', 'KF-C01-11': '31b242b', 'KF-C01-12': '2843e02', 'KF-C01-13': '5eca6b1',
         'KF-C01-3': '44b8d9c', 'KF-C01-5': '4373848', 'KF-C01-7': '9d78ee7', 'KF-C01-14': 'edb99ae', 'KF-C01-17': 'edb99ae',
         'KF-C01-20': 'edb99ae', 'KF-C01-24': 'bce2da8', 'KF-C01-25': 'edb99ae', 'KF-C01-26': 'edb99ae', 'KF-C01-27': 'bce2da8',
         'KF-C01-28': 'edb99ae', 'KF-C01-29': 'edb99ae', 'KF-C01-31': 'bce2da8', 'KF-C01-32': 'edb99ae', 'KF-C01-33': '7cd7916',
         'KF-C01-34': '7cd7916', 'KF-C01-35': '7cd7916', 'KF-C01-37': '7cd7916', 'KF-C01-40': 'bce2da8', 'KF-C01-41': 'bce2da8',
         'KF-C01-42': '31b242b', 'KF-C01-2': '2ba2fb1', 'KF-C01-8': '31b242b', 'KF-C01-9': '35a9412', 'KF-C01-15': '56ba270',
         'KF-C01-19': '2ba2fb1', 'KF-C01-23': '9d78ee7', 'KF-C01-30': '31b242b', 'KF-C01-43': '2ba2fb1', 'KF-C01-10': '439b325', 'KF-C01-4': '2e49ec5', 'KF-C01-36': '2e49ec5', 'KF-C01-16': '41b46ef',
         'KF-C01-44': '99eda7f', 'KF-C01-22': 'b1dd7a3', 'KF-C01-39': 'b1dd7a3'}
FIXED_NEW = [dict(property='C01', status='fixed', commit='8cbc399',
                  what='fixed: property=C01 8cbc399 CREATE AGENT without a model printed `USING model=None, ...`, which was read back as the '
                       'identifier None (print-unstable): CREATE AGENT a USING a = 1',
                  site='dialects/mindsdb/agents.py CreateAgent.get_string', **{'class': 'CreateAgent whose model is absent'},
                  signatures=[dict(kind='print-unstable', exc='', root='*', feats=['prints-None'], allow=[])],
                  witness=dict(dialect='mindsdb', sql='CREATE AGENT a USING a = 1', printed='CREATE AGENT a USING model=None, a=1'))]


# why an open entry is open (HEAD is frozen: no further repairs are proposed)
WHY_OPEN = {
    'func-quoted': 'pinned by tests: quoting function names that are reserved words (the only way to print `select`() back) changes the printed form of '
                   'database(), left(), ... — tried on HEAD: tests/test_parser/test_base_sql/test_select_operations.py::TestOperationsNoSqlite::'
                   'test_select_function_no_args, ::TestOperationsMindsdb::test_function_with_namespace, test_mindsdb/test_variables.py::test_select_variable, '
                   'test_standard_render.py and test_render/test_sqlalchemyrender.py::TestFromParser::test_from_parser fail',
    'setop-parens': 'corner shape, repair not attempted: a doubly parenthesised set operation in expression position (PREDICT ((a UNION b))) needs the expr rule '
                    '`LPAREN select RPAREN` and the sub-select printer to keep two pairs of parentheses (printer + grammar action change)',
    'root:Show': 'pinned by test tests/test_parser/test_mysql/test_mysql_parser.py::TestMySQLParser::test_show_index (str(ast).lower() == sql.lower() with the reserved '
                 'word `predictors` unquoted after FROM) and test_standard_render.py — tried: quoting reserved words in SHOW ... FROM / IN makes both fail; the third shape (SHOW ENGINE a "a b": the custom-command rule keeps the name as raw text) '
                 'needs the rule to keep an Identifier, not attempted',
    'root:CreatePredictor': 'corner shape, repair not attempted: PREDICT db.*(DISTINCT a) — the grammar action of `identifier LPAREN DISTINCT expr_list RPAREN` takes '
                            'op = parts[0] and drops the other parts (a Star among them); needs a grammar-action change (reject or keep multi-part names)',
    'root:CreateTable': 'corner shape, repair not attempted: CREATE TABLE t (PRIMARY KEY (a)) has only a table constraint; CreateTable keeps no node for it when no listed '
                        'column carries it, so the printer emits `()` — needs an AST field plus a printer rewrite',
    'root:Describe': 'corner shape, repair not attempted: DESCRIBE a.1 b (object type written as a dotted name with a numeric part) prints `DESCRIBE 1 b`; the rule '
                     '`DESCRIBE identifier identifier` keeps only the last part of the type — needs a grammar decision (reject dotted types)',
}


def main():
    files, pairs_files = [], []
    it = iter(sys.argv[1:])
    for a in it:
        if a == '--pairs':
            pairs_files = list(it)
            break
        files.append(a)
    classes = {}
    seen = set()
    for fn in files:
        for k, v in json.load(open(fn)).items():
            for e in v['examples']:
                # recompute the class of every recorded minimised input on the current tree / feature list
                if (e['dialect'], e['shrunk']) in seen:
                    continue
                seen.add((e['dialect'], e['shrunk']))
                r = rt.oracle(e['dialect'], e['shrunk'])
                if r is None or r == 'ok':
                    continue
                f = rt.describe(e['dialect'], e['shrunk'], e['shrunk'], r)
                c = classes.setdefault(f['cls'], dict(kind=f['kind'], exc=f['exc'], root=f['root'], feats=f['feats'],
                                                      attrs=f['attrs'], count=0, dialects=[], examples=[]))
                c['count'] += v['count']
                c['examples'].append(dict(dialect=e['dialect'], shrunk=e['shrunk'], printed=f.get('printed'), msg=f.get('msg')))
                if e['dialect'] not in c['dialects']:
                    c['dialects'].append(e['dialect'])
    for d, q in list(WITNESS.values()) + EXTRA:
        r = rt.oracle(d, q)
        if r is None or r == 'ok':
            print('extra example does not fail:', d, q)
            continue
        f = rt.describe(d, q, q, r)
        c = classes.setdefault(f['cls'], dict(kind=f['kind'], exc=f['exc'], root=f['root'], feats=f['feats'],
                                              attrs=f['attrs'], count=0, dialects=[], examples=[]))
        c['count'] += 1
        c['examples'].append(dict(dialect=d, shrunk=q, printed=f.get('printed'), msg=f.get('msg')))
    groups = {g['key']: dict(g, kinds={}, examples=[]) for g in LEVEL_A}
    by_root = {}
    for key, c in sorted(classes.items()):
        f = dict(kind=c['kind'], exc=c['exc'], root=c['root'], feats=c['feats'], attrs=c['attrs'])
        placed = False
        for g in LEVEL_A:
            if rt.sig_match(dict(kind=c['kind'], exc=c['exc'], root='*', feats=g['feats'], allow=g['allow']), f):
                G = groups[g['key']]
                G['kinds'].setdefault(c['kind'], set()).add(c['exc'])
                G['examples'] += [(c['count'], e) for e in c['examples'][:2]]
                placed = True
                break
        if not placed:
            by_root.setdefault(c['root'], []).append((key, c))
    out = []
    n = 0
    for g in LEVEL_A:
        G = groups[g['key']]
        if G['kinds']:
            for k, v in g.get('kinds_extra', {}).items():
                G['kinds'].setdefault(k, set()).update(v)
        if not G['kinds']:
            continue
        n += 1
        ex = sorted(G['examples'], key=lambda x: (len(x[1]['shrunk']), -x[0]))[0][1]
        if g['key'] in WITNESS:
            wd, wq = WITNESS[g['key']]
            wr = rt.oracle(wd, wq)
            if wr is not None and wr != 'ok':
                wf = rt.describe(wd, wq, wq, wr)
                if rt.sig_match(dict(kind=wf['kind'], exc=wf['exc'], root='*', feats=g['feats'], allow=g['allow']), wf):
                    ex = dict(dialect=wd, shrunk=wq, printed=wf.get('printed'))
                else:
                    print('preferred witness not in its group:', g['key'], wf['cls'])
        out.append(dict(
            id='KF-C01-%d' % n, property='C01', status='open', what=g['what'], site=g['site'],
            **({'why_open': WHY_OPEN[g['key']]} if g['key'] in WHY_OPEN else {'why_open': 'repair not attempted before the code freeze'}),
            **{'class': 'any statement whose minimised failing form has the feature(s) %s (other features only from %s + benign ones); '
                        'failure kinds listed in the signatures' % (g['feats'], g['allow'])},
            signatures=[dict(kind=k, exc=sorted(v) if len(v) > 1 else sorted(v)[0], root='*', feats=g['feats'], allow=g['allow'])
                        for k, v in sorted(G['kinds'].items())],
            witness=dict(dialect=ex['dialect'], sql=ex['shrunk'], printed=ex.get('printed'))))
    for root in sorted(by_root):
        n += 1
        items = by_root[root]
        sigs, lines = [], []
        for key, c in items:
            sigs.append(dict(kind=c['kind'], exc=c['exc'], root=root, feats=c['feats'], attrs=c['attrs']))
            e = c['examples'][0]
            lines.append('%s: %s -> %s' % (c['kind'] + (':' + c['exc'] if c['exc'] else ''), e['shrunk'],
                                           (e.get('printed') or e.get('msg') or '').replace('\n', ' ')))
        e0 = items[0][1]['examples'][0]
        out.append(dict(
            id='KF-C01-%d' % n, property='C01', status='open',
            what='%s statements: get_string does not mirror the grammar rule in %d minimised shape(s): %s' % (
                root, len(items), ' ;; '.join(lines[:6]) + (' ;; ...' if len(lines) > 6 else '')),
            site='get_string / grammar rule of %s' % root,
            why_open=WHY_OPEN.get('root:' + root, 'repair not attempted before the code freeze'),
            **{'class': 'root statement class %s with exactly the listed (failure kind, features, set root attributes) combinations' % root},
            signatures=sigs, witness=dict(dialect=e0['dialect'], sql=e0['shrunk'], printed=e0.get('printed'))))
    # ---- stable ids: an entry keeps the id of the merged entry with the same `class` text; repaired ones become `fixed`
    merged = [k for k in json.load(open(os.path.join(ROOT, 'known_findings.json')))['findings'] if k['property'] == 'C01']
    by_class = {k['class']: k for k in merged if k.get('status') == 'open'}     # a repaired entry is never re-opened: new id
    used = set()
    nxt = max([int(k['id'].split('-')[-1]) for k in merged] + [0])
    for k in out:
        old = by_class.get(k['class'])
        if old is not None:
            k['id'] = old['id']
            used.add(old['id'])
        else:
            nxt += 1
            k['id'] = 'KF-C01-%d' % nxt
    for old in merged:
        if old['id'] not in used and old.get('status') == 'open':
            w = old['witness']
            r = rt.oracle(w['dialect'], w['sql'])
            if r is None or r == 'ok' or not rt.kf_match(old, rt.describe(w['dialect'], w['sql'], w['sql'], r)):
                c = FIXED.get(old['id'], '?')
                out.append(dict(old, status='fixed', commit=c, what='fixed: property=C01 %s %s' % (c, old['what'])))
    for extra in FIXED_NEW:
        if any(k.get('commit') == extra['commit'] for k in merged):
            continue
        nxt += 1
        out.append(dict(extra, id='KF-C01-%d' % nxt))
    full = out
    same = lambda a, b: all(a.get(f) == b.get(f) for f in ('status', 'what', 'signatures', 'witness', 'class', 'site', 'why_open'))
    old_by_id = {k['id']: k for k in merged}
    out = [k for k in full if k['id'] not in old_by_id or not same(k, old_by_id[k['id']])]
    print('entries total', len(full), 'changed/new', [k['id'] for k in out])
    # every witness must be matched by its own entry
    bad = 0
    for k in out:
        if k.get('status') != 'open':
            continue
        w = k['witness']
        r = rt.oracle(w['dialect'], w['sql'])
        ok = r is not None and r != 'ok' and rt.kf_match(k, rt.describe(w['dialect'], w['sql'], w['sql'], r))
        if not ok:
            bad += 1
            print('witness does not match its entry:', k['id'], w)
    json.dump(out, open(os.path.join(ROOT, 'kf_proposed_C01.json'), 'w'), indent=1, ensure_ascii=False)
    print('entries', len(out), 'signatures', sum(len(k['signatures']) for k in out), 'bad witnesses', bad)
    if pairs_files:
        cache = {}
        for fn in pairs_files:
            cache.update(json.load(open(fn)))
        json.dump(cache, open(os.path.join(ROOT, 'corpus', 'c01_shrink_cache.json'), 'w'), indent=0, ensure_ascii=False, sort_keys=True)
        print('cache', len(cache))


if __name__ == '__main__':
    main()
