#!/venv/bin/python
"""Long search that enumerates the failure classes of the C01 round-trip oracle on the pinned tree
(the tail of kf_proposed_C01.json).  usage: kf_saturate_c01.py <out.json> <seed-tag>... [--n N]"""
import collections, json, os, sys, time
ROOT = os.path.dirname(os.path.dirname(os.path.abspath(__file__)))
sys.path.insert(0, ROOT)
os.environ.setdefault('PYTHONHASHSEED', '0')
from tools.harness import common, streams, gen, rt


def main():
    args = [a for a in sys.argv[1:] if not a.startswith('--')]
    n = 1000
    for a in sys.argv[1:]:
        if a.startswith('--n='):
            n = int(a[4:])
    out, tags = args[0], args[1:]
    classes = {}
    if os.path.exists(out):
        classes = json.load(open(out))
    stat = collections.Counter()
    t0 = time.time()
    for tag in tags:
        for d in common.DIALECTS:
            rng = common.rng_for(tag, 'C01/wild/' + d)
            for case in streams.statement_stream(d, rng, n, n, with_corpus=(tag == tags[0])):
                r = rt.oracle(d, case['text'])
                if r is None:
                    stat['rejected'] += 1
                    continue
                if r == 'ok':
                    stat['ok'] += 1
                    continue
                f = rt.classify(d, case['text'], r)
                stat['fail'] += 1
                stat['tests'] += f['tests']
                c = classes.setdefault(f['cls'], dict(count=0, dialects=[], examples=[], kind=f['kind'], exc=f['exc'],
                                                      root=f['root'], feats=f['feats'], attrs=f['attrs'], first_tag=tag))
                c['count'] += 1
                if d not in c['dialects']:
                    c['dialects'].append(d)
                if len(c['examples']) < 4 and f['shrunk'] not in [e['shrunk'] for e in c['examples']]:
                    c['examples'].append(dict(dialect=d, shrunk=f['shrunk'], printed=f['printed'], printed2=f['printed2'],
                                              msg=f['msg'], text=f['text'][:300]))
        print(tag, dict(stat), 'classes', len(classes), '%.0fs' % (time.time() - t0), flush=True)
        json.dump(classes, open(out, 'w'), indent=1, ensure_ascii=False, sort_keys=True)


if __name__ == '__main__':
    main()
