#!/venv/bin/python
"""long search for crash classes of parse_sql that are not yet in known_findings.json (run in the background)"""
import itertools, json, os, re, sys
ROOT = os.path.dirname(os.path.dirname(os.path.abspath(__file__)))
sys.path.insert(0, ROOT)
from tools import framework
from tools.extract import run_all
run_all.main()
from tools.harness import common, streams
from tools.props import c02

kf = [k for k in json.load(open(os.path.join(ROOT, 'known_findings.json')))['findings'] if k['property'] == 'C02']
seeds = range(int(sys.argv[1]), int(sys.argv[2]))
found = {}
for seed in seeds:
    for d in common.DIALECTS:
        rng = common.rng_for(seed, 'C02/' + d)
        for case in streams.statement_stream(d, rng, 15000, 10000):
            f = c02.probe_case(d, case['text'])
            if f and not any(c02.kf_match(k, f) for k in kf):
                key = f['class']
                if key not in found or len(f['text']) < len(found[key]['text']):
                    found[key] = f
    print('seed', seed, 'new classes so far', len(found), flush=True)
    json.dump(list(found.values()), open(os.path.join(ROOT, 'kf_candidates_c02.json'), 'w'), indent=1)
