#!/venv/bin/python
"""merge kf_proposed_*.json into known_findings.json (entries with the same id are replaced) and delete the proposals"""
import json, os, glob
ROOT = os.path.dirname(os.path.dirname(os.path.abspath(__file__)))
kf = json.load(open(os.path.join(ROOT, 'known_findings.json')))
by_id = {k['id']: i for i, k in enumerate(kf['findings'])}
for f in sorted(glob.glob(os.path.join(ROOT, 'kf_proposed_*.json'))):
    for k in json.load(open(f)):
        if k['id'] in by_id:
            kf['findings'][by_id[k['id']]] = k
        else:
            by_id[k['id']] = len(kf['findings'])
            kf['findings'].append(k)
    os.remove(f)
json.dump(kf, open(os.path.join(ROOT, 'known_findings.json'), 'w'), indent=1, ensure_ascii=False)
from collections import Counter
print(Counter((k['property'], k['status']) for k in kf['findings']))
