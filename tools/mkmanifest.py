#!/venv/bin/python
"""writes MANIFEST.json from the table below (kept in one place so it is always valid)"""
import json, os
ROOT = os.path.dirname(os.path.dirname(os.path.abspath(__file__)))
PROPS = [json.loads(l)['id'] for l in open(os.path.join(ROOT, 'properties.jsonl'))]

CLAIMED = {}
for _f in sorted(os.listdir(os.path.join(ROOT, 'manifest.d'))):
    if _f.endswith('.json'):
        CLAIMED[_f[:-5]] = json.load(open(os.path.join(ROOT, 'manifest.d', _f)))

NOT_YET = 'not claimed yet in this round: the Lean theorem for this property is not finished (never claimed on testing alone); see DESIGN.md §5'


def main():
    checks = []
    for pid in PROPS:
        if pid in CLAIMED:
            c = CLAIMED[pid]
            checks.append(dict(
                property_id=pid,
                quick_cmd='/venv/bin/python tools/check.py %s --tier quick' % pid,
                thorough_cmd='/venv/bin/python tools/check.py %s --tier thorough' % pid,
                evidence_file='/verif/evidence/%s.json' % pid,
                replay_cmd_template='/venv/bin/python tools/replay.py {path}',
                engine='lean4',
                level_claimed=dict(category='proof', text=c['text'], design_ref=c['ref']),
                level_note=c['note'],
                technique=c['technique']))
    m = dict(
        version=1,
        setup_cmd='/venv/bin/python tools/setup.py',
        hooks=dict(guard='MINDSDB_SQL_VERIF', enable='no source hooks are needed: instrumentation is done by wrapping from the harness process',
                   baseline_off_cmd='cd /repo && /venv/bin/python -m pytest -ra -q -p no:cacheprovider --timeout=900 --continue-on-collection-errors',
                   source_commits=[], add_only=True),
        engines=[dict(name='lean4', path='/verif/lean', serves_properties=sorted(CLAIMED),
                      kind_free_text='Lean 4.33 library MindsVerif: models, generated data (Gen/), lemmas, property theorems (Props/), line-protocol drivers')],
        checks=checks,
        notes='All checks: extract from /repo working tree -> lake build -> axiom audit -> correspondence -> impl-level probe -> known findings. Exit 2 = infrastructure failure.',
        not_applicable=[dict(property_id=p, reason=NOT_YET) for p in PROPS if p not in CLAIMED])
    json.dump(m, open(os.path.join(ROOT, 'MANIFEST.json'), 'w'), indent=1)


if __name__ == '__main__':
    main()
