#!/venv/bin/python
"""writes MANIFEST.json from the table below (kept in one place so it is always valid)"""
import json, os
ROOT = os.path.dirname(os.path.dirname(os.path.abspath(__file__)))
PROPS = [json.loads(l)['id'] for l in open(os.path.join(ROOT, 'properties.jsonl'))]

CLAIMED = {
 'C05': dict(
    text='Proof. Theorem C05_full (Lean 4, all token lists, both error modes, any fuel): if the model of sly Parser.parse '
         'accepts then the returned value is a derivation tree of the grammar whose frontier is the complete token list and no '
         'error recovery took place; instantiated for the LR tables of all three dialects, which are regenerated from the live '
         'parser classes on every run and whose stack-shape certificate is evaluated by the Lean kernel (decide +kernel). '
         'The driver model is tied to sly/yacc.py by a differential stream (reduction sequences, error state, bad token, expected set).',
    note='Trusted: Lean kernel; translator transcription of tables (cross-checked by the correspondence stream); hand model of Parser.parse '
         'and the two error() callbacks; lexing and the `re.sub` strip in parse_sql are outside the theorem (covered by the impl-level Earley oracle).',
    technique='Lean 4 theorem over translator-generated LR tables (kernel-checked certificate) + model/implementation correspondence',
    ref='DESIGN.md §5 C05'),
 'C02': dict(
    text='Proof (partial). Theorem C02_driver: for the regenerated tables of each dialect the model of the SLY runtime never reaches a '
         'stuck state (no IndexError/KeyError/internal parser error in Parser.parse), a None result always carries error_info and the bad-token '
         'index is in range — for all token lists. Semantic actions, AST constructors, ErrorHandling and termination are NOT theorems: they are '
         'covered by a crash oracle over corpus, mutants, grammar-derived sentences and random unicode text; 13 crash sites found on the pinned tree are known findings.',
    note='Trusted: as C05. The theorem is about the driver only; the crash search is bounded by its generators.',
    technique='Lean 4 theorem (driver never stuck, over kernel-validated tables) + correspondence + impl-level crash search',
    ref='DESIGN.md §5 C02'),

 'C03': dict(
    text='Proof. Theorem C03_full (Lean 4, all fragment expressions of any size with any user parentheses): an operator-precedence machine whose only '
         'decision function is SLY resolve over the dialect precedence data re-groups the minimally parenthesised print of every expression exactly as the '
         'stratified SQL grammar does (left-assoc chains, NOT/AND/OR/comparison/arithmetic strata, BETWEEN..AND, unary minus), instantiated for the three dialects '
         'via the kernel-evaluated obligation sqlOrder on precedence data regenerated from the live grammars; and phi3b: in every state of the real LALR tables '
         'with expr on top the action on every fragment operator equals the machine\'s decision (kernel-evaluated on the regenerated tables, all states).',
    note='Trusted: Lean kernel; translator of Precedence/Production.prec and LR tables; the stratified reference grouping (OPM.addParens) as the reading of '
         '"as SQL defines" (validated against sqlite3 by evaluation on every run); the simulation between OPM.parse and the LR driver beyond the per-state '
         'conformance obligation is covered by the expression correspondence stream (6 contexts), not proved.',
    technique='Lean 4 round-trip theorem for an operator-precedence machine + kernel-evaluated precedence/table-conformance obligations on translator-generated data',
    ref='DESIGN.md §5 C03'),
 'C20': dict(
    text='Proof (partial). Theorems C20_noninterference / C20_result_schedule_independent (all schedules, all numbers of calls): calls that step private '
         'state and only read a shared store get results independent of the interleaving; C20_lazy_global: history independence of the lazily filled reserved-word set. '
         'That parse_sql / plan_query / SqlalchemyRender have this structure is checked on the real code on every run (fresh objects, class-level state hashes, '
         'caller inputs reused across calls, threads with a shared catalog, shuffled histories with failing calls, several PYTHONHASHSEED processes incl. error messages and canonical tables).',
    note='Trusted: the structural assumptions are checked by execution, not proved; byte-code interleavings are sampled; finitely many hash seeds.',
    technique='Lean 4 non-interference theorem over schedules + run-time checks of its assumptions on the implementation',
    ref='DESIGN.md §5 C20'),
}

NOT_YET = 'not claimed yet in this round: the Lean theorem for this property is not finished (never claimed on testing alone); see DESIGN.md §5'


def main():
    checks = []
    for pid in PROPS:
        if pid in CLAIMED:
            c = CLAIMED[pid]
            checks.append(dict(
                property_id=pid,
                quick_cmd='/venv/bin/python tools/check.py %s --tier quick' % pid,
                thorough_cmd='/venv/bin/python tools/check.py %s --tier thorough' % pid,
                evidence_file='/verif/evidence/%s.json' % pid,
                replay_cmd_template='/venv/bin/python tools/replay.py {path}',
                engine='lean4',
                level_claimed=dict(category='proof', text=c['text'], design_ref=c['ref']),
                level_note=c['note'],
                technique=c['technique']))
    m = dict(
        version=1,
        setup_cmd='/venv/bin/python tools/setup.py',
        hooks=dict(guard='MINDSDB_SQL_VERIF', enable='no source hooks are needed: instrumentation is done by wrapping from the harness process',
                   baseline_off_cmd='cd /repo && /venv/bin/python -m pytest -ra -q -p no:cacheprovider --timeout=900 --continue-on-collection-errors',
                   source_commits=[], add_only=True),
        engines=[dict(name='lean4', path='/verif/lean', serves_properties=sorted(CLAIMED),
                      kind_free_text='Lean 4.33 library MindsVerif: models, generated data (Gen/), lemmas, property theorems (Props/), line-protocol drivers')],
        checks=checks,
        notes='All checks: extract from /repo working tree -> lake build -> axiom audit -> correspondence -> impl-level probe -> known findings. Exit 2 = infrastructure failure.',
        not_applicable=[dict(property_id=p, reason=NOT_YET) for p in PROPS if p not in CLAIMED])
    json.dump(m, open(os.path.join(ROOT, 'MANIFEST.json'), 'w'), indent=1)


if __name__ == '__main__':
    main()
