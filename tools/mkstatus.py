#!/venv/bin/python
"""regenerate docs/FIXES.md (repairs committed in /repo) and docs/SEEDS.md (seeded changes and which check catches them)"""
import json, os, subprocess, re
ROOT = os.path.dirname(os.path.dirname(os.path.abspath(__file__)))
os.makedirs(os.path.join(ROOT, 'docs'), exist_ok=True)
log = subprocess.run(['git', '-C', '/repo', 'log', '--format=%h %s', '--reverse'], capture_output=True, text=True).stdout.strip().split('\n')
kf = json.load(open(os.path.join(ROOT, 'known_findings.json')))['findings']
by_commit = {}
for k in kf:
    c = k.get('commit') or k.get('fixed')
    if k.get('status') == 'fixed' and isinstance(c, str):
        by_commit.setdefault(c[:7], []).append(k['id'])
out = ['# Repairs made to mindsdb_sql (`fix:` commits in /repo)', '',
       'Each is one small unguarded commit; the unedited test suite (688 tests) passes after every one of them.',
       'The check of the property reports the violation again if the defect returns (fixed entries suppress nothing).', '',
       '| commit | what | known-finding entries closed |', '|---|---|---|']
for l in log:
    h, s = l.split(' ', 1)
    if s.startswith('fix:'):
        out.append('| %s | %s | %s |' % (h, s[4:].strip().replace('|', '\\|'), ', '.join(by_commit.get(h[:7], []))))
open(os.path.join(ROOT, 'docs', 'FIXES.md'), 'w').write('\n'.join(out) + '\n')
res_p = os.path.join(ROOT, 'seeded', 'RESULTS.json')
res = json.load(open(res_p)) if os.path.exists(res_p) else {}
out = ['# Seeded changes (written by independent sub-agents that saw only the property text)', '',
       'Every change was confirmed by `tools/seedconfirm.sh` in a scratch worktree of /repo HEAD: the full suite passes with the patch,',
       'the demonstration fails with the patch and passes without it.  "result" is what the quick check of the property does with the patch applied.', '',
       '| seed | what is changed | needs | result of the check |', '|---|---|---|---|']
for d in sorted(os.listdir(os.path.join(ROOT, 'seeded'))):
    mp = os.path.join(ROOT, 'seeded', d, 'meta.json')
    if not os.path.exists(mp):
        continue
    m = json.load(open(mp))
    r = res.get(d, {})
    if r.get('exit') == 1:
        rr = 'VIOLATION' + (' (no-failing-input-found: obligation/correspondence broke)' if r.get('no_failing_input') else ' with a concrete failing input as replay')
    elif r.get('exit') == 0:
        rr = 'not reported'
    else:
        rr = str(r.get('status', 'not run'))
    note = m.get('note_main', '')
    if str(note).startswith('obsolete'):
        rr = 'obsolete (cannot be planted / is harmless on the current tree)'
    out.append('| %s | %s | %s | %s %s |' % (d, str(m.get('summary', ''))[:260].replace('|', '\\|').replace('\n', ' '),
                                          str(m.get('needs', ''))[:200].replace('|', '\\|').replace('\n', ' '), rr, note))
open(os.path.join(ROOT, 'docs', 'SEEDS.md'), 'w').write('\n'.join(out) + '\n')
out = ['# Open known findings (genuine defects of mindsdb_sql recorded, not repaired)', '',
       'Generated from `known_findings.json`.  Each is reported as a KNOWN-FINDING line by the check of its property (exit 0);',
       'anything the signature does not match is a VIOLATION.', '', '| id | property | what fails | why not repaired |', '|---|---|---|---|']
for k in kf:
    if k.get('status') == 'open':
        why = k.get('why_open') or ('pinned by ' + ', '.join(k['pinned_by']) if k.get('pinned_by') else '')
        out.append('| %s | %s | %s | %s |' % (k['id'], k['property'], str(k.get('what', ''))[:400].replace('|', '\\|').replace('\n', ' '), str(why).replace('|', '\\|')))
open(os.path.join(ROOT, 'docs', 'OPEN_FINDINGS.md'), 'w').write('\n'.join(out) + '\n')
print('fixes', sum(1 for l in log if ' fix:' in l), 'seeds', len(res))
