"""C01 — printing a parsed statement and re-parsing it yields the same tree (every statement kind, 3 dialects, copy())."""
import json, os, re, sys
from tools.harness import common, streams, gen, rt
from tools.harness.common import DIALECTS
from tools.props import c03

ID = 'C01'
TARGETS = ['MindsVerif.Props.C01']
THEOREMS = ['MindsVerif.Props.C01.' + n for n in (
    'C01_full_of_roundtrip_and_copy', 'C01_copy_print_stable',
    'C01_partial_select', 'C01_partial_select_good', 'C01_select_good', 'C01_partial_select_stable',
    'C01_partial_union', 'C01_partial_union_wf', 'C01_union_wf', 'C01_regress_union',
    'C01_partial_expr_sqlite', 'C01_partial_expr_mysql', 'C01_partial_expr_mindsdb',
    'C01_partial_literal_sequence', 'C01_regress_parameter', 'C01_regress_variable',
    'C01_partial_compose', 'C01_partial_select_expr',
    'C01_partial_select_expr_sqlite', 'C01_partial_select_expr_mysql', 'C01_partial_select_expr_mindsdb',
    'C01_partial_tokens', 'C01_partial_tokens_compose', 'C01_review_tokens_select_expr', 'C01_review_opm_print_ne',
    'C01_hist_pure', 'C01_hist_of_histIndep', 'C01_print_history_free', 'C01_texts_of_histIndep', 'C01_memo_histIndep_iff',
    'C01_ident_memo_histIndep_iff', 'C01_ident_memo_harmless', 'C01_witness_history_upper')]
ASSUME = [
    'C01_full (over the real parse_sql / to_string / copy) is neither proved nor refuted as a whole; it is proved per layer, each for all '
    'inputs of the layer: string constants in sequence (C01_partial_literal_sequence over the C04 codec model; tie = literal-sequence '
    'stream), operator expressions (C01_partial_expr_<d> = C03 round trip, tied to the LALR tables by C03.phi3b; tie = expr-print '
    'stream), SELECT clause skeleton (C01_partial_select, hand model Model/SelectSkel.lean of the clause rules, '
    'ensure_select_keyword_order and the clause order of Select.get_string; tie = select-skeleton stream through parse_sql / '
    'to_string in the three dialects), set operations with stored parentheses (C01_partial_union; tie = set-operation-chains), and '
    'their compositions (C01_partial_compose, C01_partial_select_expr_<d>, C01_partial_tokens(_compose), C01_review_tokens_select_expr)',
    'the copy() half of the quantifier: C01_full_of_roundtrip_and_copy reduces it to "a copy prints like the original", which is '
    'C01_copy_print_stable on the heap model of copy.deepcopy of the C18 package (tied there by the copy streams); on the real code the '
    'oracle compares to_string / to_tree of tree.copy() for every accepted input',
    'the token level (printTks / splitTks / parseSelTks / parseSelT) is Lean-only glue without a driver: tokens are tagged, so '
    'keyword-colliding identifiers, commas inside payloads and keywords inside sub-selects are not expressible there',
    'glue not proved: (G1) the lexer + LALR parser delimit clause payloads as the skeleton / token level assume, (G2) payloads beyond '
    'literals and operator expressions round-trip (functions, CASE, CAST, sub-selects, joins), (G3) all statement kinds other than '
    'SELECT / set operations; these are covered by the round-trip oracle on the real code only (corpus, grammar-derived sentences of '
    'every production, mutants, expression / identifier / literal / optional-sub-part / atom-sequence / raw-text / skeleton streams)',
    'Lex.parameterToString / Lex.variableToString (models of Parameter.get_string / Variable.get_string) are compared with the real '
    'printers by the atom-printers stream',
    'trees are compared by to_tree() and str() (the library\'s own equality), printing by to_string()',
    'every layer theorem speaks about ONE printer function print : Tree -> Text: that the real to_string is a function of the tree '
    'alone (no module-level table, per-class attribute or object identity consulted) is the model\'s claim C01_print_history_free '
    '(atomPrinter = pure atomPrint: a run over any history prints history.map atomPrint); it is tied to the code by the '
    'print-history stream: Driver/PrintHist.lean vs the real Identifier / Constant / Variable / Parameter classes printing whole '
    'histories of confusable atoms (forward / reversed, each group alone in a state in which nothing was printed, and cumulatively), '
    'and watched at statement level by the history-aware oracle (same statement => same text and same verdict in every run and in '
    'the check\'s own process).  "Nothing was printed" states are forks of an interpreter that only loaded the lexer / parser modules; '
    'replays use separate interpreters.  The families of confusables bound what is seen: key functions upper / lower / casefold / '
    'title / NFKC / accent folding / ASCII projection / strip / blank collapsing / word characters / 16-character prefix, value '
    'equality 1 = 1.0 = TRUE, name vs string vs variable spellings, case twins of corpus statements',
]

CACHE = os.path.join(common.ROOT, 'corpus', 'c01_shrink_cache.json')
FIXED_QUICK = [('q0', 260, 340)]                                  # (tag, mutants, sentences): vetted, deterministic
FIXED_DEEP = [('q0', 260, 340)] + [('t%d' % i, 1200, 1500) for i in range(6)]


# ------------------------------------------------------------------------------------------ classification
class Classifier:
    def __init__(self, chk):
        self.chk = chk
        self.cache = {}
        if os.path.exists(CACHE):
            try:
                self.cache = json.load(open(CACHE))
            except Exception:
                self.cache = {}
        self.hits = 0
        self.by_class = {}
        self.n_fail = 0
        self.dump = {}        # development aid (C01_DUMP=<path>): every class with examples, input of tools/kf_make_c01.py

    def classify(self, d, text, r, src):
        key = d + '|' + text
        f = None
        small = self.cache.get(key)
        if small is not None:
            r2 = rt.oracle(d, small)
            if r2 is not None and r2 != 'ok' and (r2['kind'], r2['exc']) == (r['kind'], r['exc']):
                f = rt.describe(d, text, small, r2)
                self.hits += 1
        if f is None:
            f = rt.classify(d, text, r)
        if r.get('at') is not None and f.get('at') != r['at'] and any(k.get('status') == 'open' and rt.kf_match(k, f) for k in self.chk.kf):
            # the shrunk input fails at another word of the printed text than the input did AND has the class of a known
            # finding: the shrink drifted into that finding; shrink again keeping the word, report what that gives if it is new
            f2 = rt.classify(d, text, r, at=r['at'])
            if f2 is not None and not any(k.get('status') == 'open' and rt.kf_match(k, f2) for k in self.chk.kf):
                f = f2
        f['src'] = src
        f['class'] = f['cls']
        f['desc'] = '%s: %s %r prints %r (%s%s)' % (d, f['kind'], f['shrunk'][:200], (f.get('printed') or '')[:200],
                                                      f['exc'], (' ' + (f.get('msg') or '')[:80]) if f.get('msg') else '')
        self.n_fail += 1
        c = self.dump.setdefault(f['cls'], dict(count=0, dialects=[], examples=[], kind=f['kind'], exc=f['exc'], root=f['root'],
                                                feats=f['feats'], attrs=f['attrs'], first_tag=src))
        c['count'] += 1
        if d not in c['dialects']:
            c['dialects'].append(d)
        self.pairs = getattr(self, 'pairs', {})
        if f['shrunk'] != text:
            self.pairs[d + '|' + text] = f['shrunk']
        if len(c['examples']) < 6:
            c['examples'].append(dict(dialect=d, shrunk=f['shrunk'], printed=f.get('printed'), printed2=f.get('printed2'),
                                      msg=f.get('msg'), text=f['text']))
        first = f['cls'] not in self.by_class
        self.by_class[f['cls']] = self.by_class.get(f['cls'], 0) + 1
        if first:
            self.chk.classify(f, rt.kf_match)
            self.chk.fail({k: v for k, v in f.items() if k != 'tree'})
        return f


def verify_fresh(chk, cl):
    """every NEW failure found in this process must fail alone in a state in which nothing was printed; one that does not
    depends on what this process printed before: look for its history among the confusables of its own names and values,
    report it as a history failure (replay = history + statement), and never first with a replay that shows nothing"""
    import time
    from tools.harness import printhist as hist
    new = [f for f in chk.failures if not f.get('kf') and f.get('history') is None][:200]
    if not new:
        return
    try:
        res = hist.fresh_runs([hist.trial_ops([], [f['dialect'], f['shrunk']]) for f in new])
    except Exception as e:
        chk.notes.append('fresh verification failed: %s' % e)
        return
    suspects = [f for f, r in zip(new, res) if r[0][1] in (None, 'ok')]
    deadline = time.time() + 45
    tail = []
    for k, f in enumerate(suspects):
        chk.failures.remove(f)
        found = None
        if k < 4 and time.time() < deadline:
            try:
                found = hist.find_history(f['dialect'], f['shrunk'])
            except Exception as e:
                chk.notes.append('history search failed: %s' % e)
        if found:
            g = history_failure(f, found[0], found[1], found[2], 0)
            if not any(x.get('cls') == g['cls'] for x in chk.failures):
                chk.classify(g, rt.kf_match)
                chk.failures.insert(0, g)
        else:
            f['history'] = []
            f['needs_history'] = True
            f['desc'] += ' — fails in the process of the check only: NOT reproduced when nothing was printed before (depends on the history of the process)'
            tail.append(f)
    chk.failures.extend(tail)
    if suspects:
        chk.samples.append(dict(failures_not_reproduced_in_a_fresh_state=len(suspects)))


def run_case(chk, cl, d, text, src, dist, tag):
    r = rt.oracle(d, text)
    chk.count((d, text))
    if r is None:
        dist[tag + '/rejected'] = dist.get(tag + '/rejected', 0) + 1
        return None
    if r == 'ok':
        dist[tag + '/ok'] = dist.get(tag + '/ok', 0) + 1
        return 'ok'
    dist[tag + '/' + r['kind']] = dist.get(tag + '/' + r['kind'], 0) + 1
    return cl.classify(d, text, r, src)


# ------------------------------------------------------------------------------------------ streams
def wild_stream(chk, cl, dist, plans):
    for tag, n_mut, n_sent in plans:
        for d in DIALECTS:
            rng = common.rng_for('C01-fixed-' + tag, 'wild/' + d)
            G = gen.Grammar(d)
            for case in streams.statement_stream(d, rng, n_mut, n_sent, grammar=G, with_corpus=(tag == plans[0][0])):
                run_case(chk, cl, d, case['text'], case['src'], dist, 'wild/%s/%s' % (d, case['src'].split(':')[0].split('+')[0]))
            dist['wild/%s/%s/productions' % (d, tag)] = '%d/%d' % G.coverage()


EXPR_ATOMS = ['c%d', 't.c%d', '%d', "'s%d'", 'f(c%d)', '`a b`.c%d', 'NULL', '@v%d', '(c%d)', '(t.c%d)', '(%d)', '(f(c%d))']


# further places an expression can stand in (oracle only; texts a dialect rejects are outside the property)
EXTRA_CTX = [
    'SELECT CASE WHEN c0 THEN 1 ELSE %s END FROM t', 'SELECT CASE WHEN %s THEN 1 END FROM t', 'SELECT CASE %s WHEN 1 THEN 2 END FROM t',
    'SELECT f(1, %s) FROM t', 'SELECT CAST(%s AS int) FROM t', 'SELECT * FROM t WHERE c0 IN (%s, 1)', 'SELECT c0 FROM t GROUP BY %s',
    'INSERT INTO t (a) VALUES (%s)', 'UPDATE t SET a = %s WHERE %s', 'DELETE FROM t WHERE %s', 'SELECT %s AS x, (%s) AS y FROM t',
    'SELECT * FROM t1 LEFT JOIN t2 ON %s WHERE %s', 'SELECT (SELECT %s FROM t2) FROM t', 'SELECT * FROM (SELECT %s FROM t2) AS s',
    'SELECT count(DISTINCT %s) FROM t', 'SELECT - (%s) FROM t', 'SELECT NOT (%s) FROM t', 'SELECT c0 FROM t ORDER BY %s',
    'SELECT sum(%s) OVER (PARTITION BY c0 ORDER BY c1) FROM t', 'SELECT * FROM t WHERE EXISTS (SELECT 1 FROM t2 WHERE %s)',
    'SELECT c0 FROM t WHERE %s UNION SELECT c1 FROM t2 WHERE %s', 'WITH w AS (SELECT %s FROM t) SELECT * FROM w',
    'SELECT (%s, 1) FROM t', 'SELECT c0 FROM t WHERE c1 BETWEEN 1 AND (%s)', 'SELECT * FROM t WHERE %s LIMIT 1 OFFSET 2',
]


def expr_stream(chk, cl, dist, quick):
    """C03 expression trees in 6 contexts through the oracle + correspondence with Driver/OPM
    (print of the parsed tree = OPM.print of the model tree, re-parse = same tree)"""
    lines, metas = [], []
    for d in DIALECTS:
        ops = c03.Ops(d)
        rng = common.rng_for(chk.seed, 'C01/expr/' + d)
        ctx_ok = [c for c in sorted(c03.CONTEXTS) if c03.parse_real(d, ops, 'c1 = c2', c)[0] is not None]
        trees = []
        for size in (1, 2):
            reps = {}
            for o in ops.bins:
                reps.setdefault(c03.STRAT[ops.names[o]], o)
            for t in c03.all_trees(ops, size, ops.bins if size == 1 else sorted(reps.values()), ops.pres):
                trees.append(c03.relabel(t, [0]))
        for _ in range(400 if quick else 6000):
            t = c03.gen_tree(ops, rng, rng.randint(2, 8))
            # user parentheses anywhere (kept by the parser as flags)
            trees.append(t)
        for i, t in enumerate(trees):
            ref = c03.add_parens(ops, t)
            lines.append('%s %s' % (d, c03.show(ref)))
            metas.append((d, ops, ref, ctx_ok[i % len(ctx_ok)], rng.choice(EXPR_ATOMS) if rng.random() < 0.5 else 'c%d'))
    outs = None
    try:
        outs = common.lean_run('OPM', lines)
    except Exception as e:
        chk.oblige('corr:expr-print', 'correspondence', False, 'driver failed: %s' % e)
    diverged, first, n = 0, None, 0
    norm = lambda s: re.sub(r'\s+', '', s).upper()
    for i, (d, ops, ref, ctx, atom) in enumerate(metas):
        text_plain = c03.to_sql(ops, ref, lambda k: 'c%d' % k)
        tmpl, getter = c03.CONTEXTS[ctx]
        # (a) oracle with varied atoms
        atomf = (lambda k: atom % k) if '%d' in atom else (lambda k: atom)
        etxt = c03.to_sql(ops, ref, atomf)
        run_case(chk, cl, d, tmpl % etxt, 'expr', dist, 'expr/%s' % d)
        x = EXTRA_CTX[i % len(EXTRA_CTX)]
        if (i // len(EXTRA_CTX)) % 3 == 0:
            etxt = '(' + etxt + ')'          # the whole operand carries a user parenthesis
        run_case(chk, cl, d, x % ((etxt,) * x.count('%s')), 'expr-ctx', dist, 'exprctx/%s' % d)
        # (b) correspondence on plain atoms
        if outs is None:
            continue
        n += 1
        parts = [x.strip() for x in outs[i].split('|')]
        model_toks, model_res = parts[0].split(' '), parts[1]
        model_text = ' '.join('c' + t[1:] if t[0] == 'a' else (c03.LEX[ops.names[int(t[1:])]] if t[0] == 'o' else t) for t in model_toks)
        try:
            from mindsdb_sql import parse_sql
            node = getter(parse_sql(tmpl % text_plain, d))
            real_tree = c03.from_ast(ops, node)
            real_text = node.to_string()
            node2 = getter(parse_sql(tmpl % real_text, d))
            real_tree2 = c03.from_ast(ops, node2)
            impl = (c03.show(real_tree) if real_tree else None, norm(real_text), c03.show(real_tree2) if real_tree2 else None)
        except Exception as e:
            impl = ('exc', type(e).__name__, str(e)[:80])
        model = (model_res, norm(model_text), model_res)
        if impl != model:
            diverged += 1
            first = first or dict(dialect=d, context=ctx, text=text_plain, model=model, impl=impl)
    if outs is not None:
        chk.corr_result('expr-print', n, diverged, first)


def keyword_words(d):
    cls = rt.lexer_cls(d)
    out = []
    for name in sorted(cls.tokens):
        v = getattr(cls, name, None)
        if isinstance(v, str) and v.startswith('\\b'):
            m = re.fullmatch(r'\\b([A-Za-z_]+)\\b', v)
            if m:
                out.append(m.group(1))
    return out


ID_CONTEXTS = ['SELECT %s FROM t', 'SELECT a AS %s FROM t', 'SELECT * FROM %s', 'SELECT t.%s FROM t', 'SELECT * FROM t AS %s',
               'SELECT * FROM t WHERE %s = 1', 'INSERT INTO %s (a) VALUES (1)', 'INSERT INTO t (%s) VALUES (1)',
               'UPDATE %s SET a = 1', 'UPDATE t SET %s = 1', 'DELETE FROM %s WHERE a = 1', 'DROP TABLE %s', 'SELECT f(%s)',
               'USE %s', 'SELECT * FROM a JOIN %s ON a.x = 1', 'SELECT a FROM t GROUP BY %s', 'SELECT a FROM t ORDER BY %s',
               'SELECT * FROM (SELECT 1) AS %s', 'SELECT CAST(%s AS int)', 'SELECT %s.%s.c FROM t',
               'SELECT (%s) FROM t', 'SELECT * FROM t WHERE (%s) = 1 AND (t.%s) > 2']
ID_CONTEXTS_MINDSDB = ['CREATE MODEL %s PREDICT a', 'DROP MODEL %s', 'CREATE DATABASE %s', 'DROP DATABASE %s',
                       'CREATE VIEW %s AS (SELECT 1)', 'DESCRIBE %s', 'RETRAIN %s', 'CREATE TABLE %s (a int)',
                       'CREATE MODEL m FROM %s (select 1) PREDICT a', 'DROP VIEW %s']
ODD_NAMES = ['`select$x`', '`x$from`', '`$all`', '`a b`', '`1a`', '`1`', '`x.y`', '`é`', 'é', '`ü ß`', '`a-b`', '`select`', '`Ab`', '_x', 'x1', '`from`', '`*`',
             '`a"b`', "`a'b`", '` `', '`a\\b`', 'a$b', '`$`', 'ıf', '`tAbLe`']
STRINGS = ["'s'", "''", "'a b'", "'a''b'", "'it\\'s'", "'a\\\\b'", "'\"q\"'", '"d"', '"a\'b"', '"a\\"b"', "'a\\nb'", "'é'",
           "'%'", "'a\nb'", "''''", "'\\''", '""', "'a\"'", "'?'", "';'", "'--'", "'/*'", "'`'", "'a''''b'"]
NUMBERS = ['0', '1', '42', '007', '1.5', '0.5', '10.25', '0.00001', '0.0001', '123456789012345678901234567890',
           '1234567890.123456789', '100000000000000000000000.5', '-1', '- 1', '-0.5', '0.0', '00.10', '1.0']
LIT_CONTEXTS = ['SELECT %s', 'SELECT * FROM t WHERE a = %s', 'INSERT INTO t (a) VALUES (%s)', 'UPDATE t SET a = %s',
                'SELECT f(%s, 1)', 'SELECT %s AS x FROM t', 'SELECT * FROM t WHERE a IN (%s, %s)', 'SELECT a FROM t LIMIT %s',
                'SELECT (%s) FROM t WHERE (%s) = a']


def atom_stream(chk, cl, dist, quick):
    """keywords as identifiers, quoted names, dots, digits-first, unicode; string and number literals"""
    from tools.harness import lexh
    for d in DIALECTS:
        rng = common.rng_for(chk.seed, 'C01/atoms/' + d)
        words = keyword_words(d)
        ctxs = ID_CONTEXTS + (ID_CONTEXTS_MINDSDB if d == 'mindsdb' else [])
        # every keyword word once back-quoted and once bare in a rotating context, + random picks
        cases = []
        for i, w in enumerate(words):
            cases.append((ctxs[i % len(ctxs)], '`%s`' % w))
            cases.append((ctxs[(i * 7 + 3) % len(ctxs)], '`%s`' % w.lower()))
            cases.append((ctxs[(i * 5 + 1) % len(ctxs)], w))
            # a keyword next to `$` inside one part: `\bKW\b` matches there (`$` is not a word character) although
            # the ID rule takes `$` — such a part must stay quoted
            cases.append((ctxs[(i * 3 + 2) % len(ctxs)], '`%s$x`' % w))
            cases.append((ctxs[(i * 11 + 5) % len(ctxs)], ('`x$%s`' if i % 2 else '`$%s`') % w.lower()))
        for nm in ODD_NAMES:
            for c in ctxs[:8] if quick else ctxs:
                cases.append((c, nm))
        for _ in range(300 if quick else 6000):
            w = rng.choice(words)
            form = rng.choice(['`%s`', '`%s`', '%s', '`%s`.c', 't.`%s`', '`%s x`', '`%s1`', '`%s$`', '`a$%s$b`', '`%s$1`.`$%s`'])
            w = rng.choice([w, w.lower(), w.capitalize()])
            cases.append((rng.choice(ctxs), form % ((w,) * form.count('%s'))))
        rngf = common.rng_for('C01-fixed-atoms', 'ident/' + d)     # arbitrary name bodies: fixed sub-seed (vetted)
        for _ in range(150 if quick else 3000):
            body = lexh.random_string(rngf, 1, 5, alphabet=['a', 'B', '1', '_', '.', '$', 'é', ' ', '-', '"', "'", 's', '*'])
            cases.append((rngf.choice(ctxs), '`%s`' % body))
        for c, a in cases:
            text = c % ((a,) * c.count('%s'))
            run_case(chk, cl, d, text, 'ident', dist, 'ident/%s' % d)
        # literals
        lits = list(STRINGS) + list(NUMBERS)
        rngf = common.rng_for('C01-fixed-atoms', 'literal/' + d)   # arbitrary string bodies: fixed sub-seed (vetted)
        for _ in range(200 if quick else 4000):
            q = rngf.choice(["'", "'", '"'])
            body = lexh.random_string(rngf, 0, 6, alphabet=["'", '"', '\\', 'a', '.', '`', '\n', 'é', ' ', '%', "''", "\\'"])
            lits.append(q + body + q)
        for _ in range(100 if quick else 2000):
            k = rng.random()
            if k < 0.4:
                lits.append(str(rng.randrange(10 ** rng.randint(1, 25))))
            elif k < 0.8:
                lits.append('%d.%s' % (rng.randrange(1000), ''.join(rng.choice('0123456789') for _ in range(rng.randint(1, 8)))))
            else:
                lits.append('0.%s%d' % ('0' * rng.randint(3, 8), rng.randint(1, 99)))
        for i, l in enumerate(lits):
            for c in (LIT_CONTEXTS if i < len(STRINGS) + len(NUMBERS) else [LIT_CONTEXTS[i % len(LIT_CONTEXTS)]]):
                text = c % ((l,) * c.count('%s'))
                run_case(chk, cl, d, text, 'literal', dist, 'literal/%s' % d)



# ------------------------------------------------------------------------------------------ optional sub-parts
# For every clause / node class with optional attributes: combinations of present / absent sub-parts.
# A spec is a list of segments; a segment is a literal or a list of alternatives ('' = absent).  Small specs are
# expanded completely, large ones by each-choice (every alternative once with the other segments at their first and at
# their last alternative) plus a random sample with a FIXED sub-seed (deterministic, vetted).
DIRS = ['', ' ASC', ' DESC']
NULLS = ['', ' NULLS FIRST', ' NULLS LAST']
ORD9 = [d + n for d in DIRS for n in NULLS]
JOINS = ['JOIN', 'LEFT JOIN', 'RIGHT JOIN', 'INNER JOIN', 'FULL JOIN', 'CROSS JOIN', 'OUTER JOIN', 'LEFT OUTER JOIN', 'FULL OUTER JOIN']
SETOPS = ['UNION', 'UNION ALL', 'UNION DISTINCT', 'INTERSECT', 'INTERSECT ALL', 'INTERSECT DISTINCT', 'EXCEPT', 'EXCEPT ALL']
OPERANDS = ['a', '1', "'s'", 'a + 1', 'a = 1', 'f(a)', '(SELECT 1)', 'CASE WHEN a THEN 1 ELSE 2 END', 'CAST(a AS int)', 'NULL',
            't.a', '- a', 'NOT a', 'a IN (1, 2)', 'a BETWEEN 1 AND 2', 'a IS NULL', '@v', 'TRUE', 'a AND b', '(1, 2)', '*', 'count(*)']
POSITIONS = ['SELECT %s FROM t', 'SELECT %s AS x FROM t', 'SELECT b, %s FROM t', 'SELECT * FROM t WHERE %s', 'SELECT a FROM t GROUP BY %s',
             'SELECT a FROM t GROUP BY b HAVING %s', 'SELECT a FROM t ORDER BY %s', 'SELECT a FROM t ORDER BY %s DESC NULLS LAST',
             'SELECT f(%s) FROM t', 'SELECT f(1, %s) FROM t', 'SELECT CASE %s WHEN 1 THEN 2 END', 'SELECT CASE WHEN %s THEN 1 END',
             'SELECT CASE WHEN a THEN %s END', 'SELECT CASE WHEN a THEN 1 ELSE %s END', 'SELECT CAST(%s AS int)',
             'SELECT %s IN (1, 2)', 'SELECT a IN (%s, 2)', 'SELECT %s BETWEEN 1 AND 2', 'SELECT a BETWEEN %s AND 2',
             'SELECT a BETWEEN 1 AND %s', 'SELECT * FROM t1 JOIN t2 ON %s', 'INSERT INTO t (a) VALUES (%s)', 'UPDATE t SET a = %s',
             'UPDATE t SET a = 1 WHERE %s', 'DELETE FROM t WHERE %s', 'SELECT %s + 1', 'SELECT 1 + %s', 'SELECT - %s', 'SELECT NOT %s',
             'SELECT %s IS NULL', 'SELECT %s = 2', 'SELECT 2 = %s', 'SELECT %s AND b', 'SELECT b OR %s', 'SELECT %s LIKE b',
             'SELECT sum(a) OVER (PARTITION BY %s) FROM t', 'SELECT sum(a) OVER (ORDER BY %s) FROM t', 'SELECT count(DISTINCT %s) FROM t',
             'SELECT * FROM t WHERE EXISTS (SELECT 1 FROM u WHERE %s)', 'SELECT (%s, 1)', 'SELECT * FROM t LIMIT %s', 'SET a = %s',
             'SELECT * FROM t WHERE a = 1 AND %s OR c', 'SELECT substring(%s FROM 1)', 'WITH w AS (SELECT %s) SELECT * FROM w',
             'SELECT %s UNION SELECT %s']
SEL_TARGETS = ['a', 'a AS x', 'a x', 'a AS "x y"', '*', 't.*', 'a, b AS y', '(a)', '(a) AS x', 'f(a) AS x', "'s' AS x",
           '(SELECT 1) AS x', '(SELECT 1)', 'CASE WHEN a THEN 1 END AS x', 'a AS `select`', 'count(*) c', '1 + 2 AS x']
FROMS = ['t', 't AS u', 't u', 'db.t', 'db.t AS u', '(SELECT 1) AS s', '(SELECT 1) s', 't1, t2', 't1 AS a1, t2 AS a2', 't1 JOIN t2 ON t1.a = t2.a',
         '(SELECT 1 UNION SELECT 2) AS s', 't AS "u v"']


def part_specs(d):
    term = lambda f: [f + o for o in ORD9]
    S = [
        # ordering terms: direction x nulls, one / two terms, plain / qualified / parenthesised field
        ('order', ['SELECT a FROM t ORDER BY ', ['a', 't.b', '(a)', 'a + 1', 'f(a)'], ORD9]),
        ('order2', ['SELECT a FROM t ORDER BY a', ORD9, ', b', ORD9]),
        ('order-ctx', ['SELECT a FROM t', ['', ' WHERE a = 1', ' GROUP BY a'], ' ORDER BY a', ORD9, ['', ' LIMIT 1', ' LIMIT 1 OFFSET 2']]),
        ('window', ['SELECT ', ['sum(a)', 'row_number()', 'f(a, b)'], ' OVER (', ['', 'PARTITION BY b', 'PARTITION BY b, c'], ' ',
                    ['', 'ORDER BY c'] , ORD9, ')', ['', ' AS w', ' w'], ' FROM t']),
        ('select', ['SELECT', ['', ' DISTINCT'], ' ', SEL_TARGETS, ' FROM ', FROMS, ['', ' WHERE a = 1', ' WHERE (a = 1)', ' WHERE NOT a = 1'],
                    ['', ' GROUP BY a', ' GROUP BY a, (b)'], ['', ' HAVING count(a) > 1', ' HAVING (a > 1)'], ['', ' ORDER BY a', ' ORDER BY a DESC, b NULLS FIRST'],
                    ['', ' LIMIT 1', ' LIMIT 1 OFFSET 2', ' LIMIT 2, 1', ' OFFSET 2'], ['', ' FOR UPDATE']]),
        ('select-nofrom', ['SELECT', ['', ' DISTINCT'], ' ', SEL_TARGETS, ['', ' LIMIT 1', ' LIMIT 2, 1', ' OFFSET 2', ' LIMIT 1 OFFSET 2']]),
        ('join', ['SELECT * FROM ', ['t1', 't1 AS a', '(SELECT 1) AS a'], ' ', JOINS, ' ', ['t2', 't2 AS b', 't2 b', '(SELECT 2) AS b'],
                  ['', ' ON a.x = b.x', ' ON (a.x = b.x)', ' ON a.x = b.x AND a.y > 1'],
                  ['', ' LEFT JOIN t3 ON t3.x = 1', ' JOIN t3', ' JOIN t3 AS c ON c.x = a.x WHERE c.x = 1']]),
        ('join-implicit', ['SELECT * FROM ', ['t1', 't1 AS a'], ', ', ['t2', 't2 AS b', '(SELECT 1) AS b'], ['', ', t3', ', t3 c'], ['', ' WHERE t1.x = t2.x']]),
        ('setop', [['SELECT 1', '(SELECT 1)', 'SELECT a FROM t LIMIT 1', '(SELECT a FROM t ORDER BY a LIMIT 1)'], ' ', SETOPS, ' ',
                   ['SELECT 2', '(SELECT 2)', 'SELECT b FROM u WHERE b = 1', '(SELECT b FROM u LIMIT 2)'], ['', ' ORDER BY 1', ' LIMIT 3']]),
        ('setop3', [['SELECT 1', '(SELECT 1'], ' ', SETOPS, ' ', ['SELECT 2', '(SELECT 2', 'SELECT 2)'], ' ', SETOPS, ' ', ['SELECT 3', 'SELECT 3)']]),
        ('function', ['SELECT ', ['count', 'f', 'db.f', 'max'], '(', ['', 'DISTINCT '], ['a', '*', 'a, b', '', '1', 't.a'], ')', ['', ' AS x', ' x'], ['', ' FROM t']]),
        ('cast', ['SELECT CAST(', ['a', '1', 'a + 1'], ' AS ', ['int', 'decimal(10)', 'decimal(10, 2)', 'varchar(5)', 'date'], ')', ['', ' AS x']]),
        ('case', ['SELECT CASE', ['', ' a'], ' WHEN 1 THEN 2', ['', ' WHEN 3 THEN 4'], ['', ' ELSE 5', ' ELSE (5)'], ' END', ['', ' AS x', ' x'], ['', ' FROM t']]),
        ('insert', ['INSERT INTO ', ['t', 'db.t'], ['', ' (a)', ' (a, b)'], [' VALUES (1)', ' VALUES (1, 2)', ' VALUES (1, 2), (3, 4)', ' SELECT 1',
                    ' SELECT a, b FROM t2', ' (SELECT 1)', " VALUES ('s', NULL)"]]),
        ('update', ['UPDATE ', ['t', 'db.t'], ' SET a = 1', ['', ', b = 2', ", b = 's'"], ['', ' WHERE a = 1', ' WHERE (a = 1) AND b IS NULL']]),
        ('delete', ['DELETE FROM ', ['t', 'db.t'], ['', ' WHERE a = 1', ' WHERE a IN (SELECT b FROM u)']]),
        ('create-table', ['CREATE ', ['', 'OR REPLACE '], 'TABLE ', ['', 'IF NOT EXISTS '], ['t', 'db.t'], ' ',
                          ['(a int)', '(a int, b varchar(10))', '(a int NOT NULL)', '(a int NULL)', '(a int DEFAULT 1)', '(a int PRIMARY KEY)',
                           '(a int, PRIMARY KEY (a))', '(a serial)', 'SELECT 1', '(SELECT 1)', 'AS (SELECT 1)', 'AS SELECT 1']]),
        ('drop', ['DROP ', ['TABLE', 'VIEW', 'DATABASE', 'SCHEMA'], ' ', ['', 'IF EXISTS '], ['t', 't1, t2', 'db.t']]),
        ('cte', ['WITH w', ['', ' (x)', ' (x, y)'], ' AS (SELECT 1', ['', ', 2'], ')', ['', ', w2 AS (SELECT 2)'], ' SELECT ', ['*', 'x'], ' FROM w', ['', ' WHERE x = 1']]),
        ('show', ['SHOW ', ['', 'FULL ', 'EXTENDED ', 'GLOBAL ', 'SESSION '], ['TABLES', 'COLUMNS', 'DATABASES', 'VARIABLES', 'INDEXES', 'STATUS', 'SCHEMAS', 'ENGINES',
                  'FUNCTION STATUS', 'CHARACTER SET', 'COLLATION', 'PROCESSLIST', 'TABLE STATUS', 'WARNINGS', 'KEYS'], ['', ' FROM db', ' IN db', ' FROM t FROM db'],
                  ['', " LIKE 'x'"], ['', ' WHERE a = 1']]),
        ('set', ['SET ', ['a = 1', "a = 's'", 'a = 1, b = 2', 'NAMES utf8', "NAMES utf8 COLLATE utf8_bin", 'autocommit', 'GLOBAL a = 1', 'SESSION a = 1', '@a = 1',
                 '@@a = 1', 'CHARACTER SET utf8', 'CHARSET DEFAULT', 'TRANSACTION READ ONLY', 'SESSION TRANSACTION ISOLATION LEVEL READ COMMITTED',
                 'GLOBAL TRANSACTION ISOLATION LEVEL SERIALIZABLE, READ WRITE', 'a = b', 'a = NULL', 'a = TRUE']]),
        # shapes of the findings that are still open (kept so that the probes stay alive and repairs are noticed)
        ('odd-alias', ['SELECT a FROM (SELECT 1) ', ['s', 's.t', 's.*', 'AS s', 'AS `s t`'], ['', ' WHERE a = 1']]),
        ('odd-alias2', ['SELECT a ', ['"."', '"x.y"', 'b.c', 'AS "x y"', '"x"'], ['', ' FROM t']]),
        ('quoted-func', [['SELECT ', 'DROP VIEW ', 'SELECT 1 + '], ['"a b"()', '`f g`(1)', '"f"(a, b)', '`select`(1)']]),
        ('paren-select-clause', [['(SELECT a)', '(SELECT a FROM t)', '(SELECT a FROM t WHERE a = 1)', '((SELECT a FROM t))'],
                                 [' OFFSET 1', ' LIMIT 1', ' LIMIT 1 OFFSET 2', ' ORDER BY a', ' WHERE a = 1', '']]),
        ('describe-odd', ['DESCRIBE ', ['a.b c', 'a.1 b', 'a.b.c', '`a b`']]),
        ('create-table-pk', ['CREATE TABLE t ', ['(PRIMARY KEY (a))', '(a int, PRIMARY KEY (a, b))', '(a int, b int PRIMARY KEY)']]),
        ('misc', [['USE db', 'USE `a b`', 'START TRANSACTION', 'BEGIN', 'COMMIT', 'ROLLBACK', 'EXPLAIN t', 'EXPLAIN SELECT 1', 'DESCRIBE t', 'DESCRIBE db.t',
                   'ALTER TABLE t DISABLE KEYS', 'ALTER TABLE t ENABLE KEYS', 'SELECT 1; ', 'SELECT DATABASE()', 'SELECT CURRENT_USER', 'SELECT @@version', 'SELECT LAST']]),
    ]
    if d == 'mindsdb':
        S += [
            ('create-model', ['CREATE ', ['', 'OR REPLACE '], ['MODEL', 'PREDICTOR'], ' ', ['', 'IF NOT EXISTS '], 'm', ['', ' FROM i (select 1)', ' FROM i (select a from t order by a)'],
                              ' PREDICT ', ['p', 'p, q', 'p AS x'], ['', ' ORDER BY d' ], ORD9, ['', ' GROUP BY g', ' GROUP BY g, h'],
                              ['', ' WINDOW 5'], ['', ' HORIZON 3'], ['', ' USING a = 1', " USING a = 's', b = 2", ' USING engine = "x"']]),
            ('create-model-order2', ['CREATE MODEL m FROM i (select 1) PREDICT p ORDER BY d', ORD9, ', e', ORD9, ' WINDOW 5']),
            ('retrain', [['RETRAIN', 'FINETUNE'], ' m', ['', ' FROM i (select 1)'], ['', ' USING a = 1', " USING a = 's', b = 2"]]),
            ('evaluate', ['EVALUATE m FROM (select 1)', ['', ' USING a = 1', " USING a = 's'"]]),
            ('create-db', ['CREATE ', ['', 'OR REPLACE '], ['DATABASE', 'PROJECT'], ' ', ['', 'IF NOT EXISTS '], 'd',
                           ['', " WITH ENGINE = 'e'", " ENGINE 'e'", " USING ENGINE = 'e'", " WITH ENGINE 'e'"],
                           ['', ', PARAMETERS = {"a": 1}', ' PARAMETERS {"a": "b", "c": [1, 2]}', ' PARAMETERS {}', ' PARAMETERS {"ü": "é"}']]),
            ('create-view', ['CREATE VIEW ', ['', 'IF NOT EXISTS '], ['v', 'p.v'], ['', ' FROM i'], [' AS (select 1)', ' (select 1)', ' AS (select a from t where a = 1)']]),
            ('create-job', ['CREATE JOB ', ['', 'IF NOT EXISTS '], ['j', 'p.j'], [' (select 1)', ' AS (select 1; select 2)'], ['', " START '2020-01-01'", ' START now'],
                            ['', " END '2021-01-01'"], ['', ' EVERY hour', ' EVERY 2 days'], ['', ' IF (select 1)']]),
            ('create-misc', [['CREATE ML_ENGINE e FROM h', 'CREATE ML_ENGINE IF NOT EXISTS e FROM h', 'CREATE TRIGGER tr ON db.t (select 1)', 'CREATE TRIGGER tr ON db.t COLUMNS a, b (select 1)',
                              "CREATE AGENT ag USING model = 'm'", "CREATE AGENT IF NOT EXISTS ag USING model = 'm', skills = ['s']", "CREATE SKILL sk USING type = 't'",
                              "CREATE SKILL IF NOT EXISTS sk USING type = 't', a = 1", "CREATE CHATBOT cb USING database = 'd', model = 'm'",
                              "CREATE KNOWLEDGE_BASE kb USING model = m", "CREATE KNOWLEDGE_BASE IF NOT EXISTS kb FROM (select 1) USING model = m, storage = s.t"],
                             ['', ' USING a = 1', " USING a = 's', b = 2"]]),
            ('update-cmd', [['UPDATE AGENT ag SET', 'UPDATE SKILL sk SET', 'UPDATE CHATBOT cb SET'], [' a = 1', " a = 's'", " a = 1, b = 's'", ' a = [1, 2]', ' a = {"x": 1}']]),
            ('drop-cmd', ['DROP ', ['MODEL', 'PREDICTOR', 'JOB', 'TRIGGER', 'AGENT', 'SKILL', 'CHATBOT', 'KNOWLEDGE_BASE', 'ML_ENGINE', 'DATASOURCE', 'VIEW', 'PROJECT'], ' ',
                          ['', 'IF EXISTS '], ['x', 'p.x']]),
            ('describe', ['DESCRIBE ', ['', 'MODEL ', 'AGENT ', 'JOB ', 'SKILL '], ['m', 'p.m', 'p.m.attr']]),
            ('select-using', ['SELECT a FROM t', ['', ' WHERE a = 1'], ['', ' LIMIT 1'], [' USING x = 1', " USING x = 's', y = 2", ' USING x = [1, 2]', " USING x = 'ü'"]]),
            ('native', ['SELECT * FROM i (', ['select 1', 'select a, b from t where a = 1', 'show tables'], ')', ['', ' AS n', ' n'], ['', ' WHERE a = 1']]),
            ('update-from', ['UPDATE t SET a = s.a', ['', ', b = s.b'], ' FROM (SELECT 1) AS s', ['', ' WHERE t.a = s.a']]),
            ('update-on', ['UPDATE t ON a', ['', ', b'], ' FROM (select 1)']),
            ('predict-odd', ['CREATE MODEL m PREDICT ', ['f(DISTINCT a)', 'db.f(a)', '((SELECT a UNION SELECT b))', '(SELECT a)', 'db.*(DISTINCT a)', '"a b"()']]),
            ('kb-source', ['CREATE KNOWLEDGE_BASE kb FROM ', ['(SELECT a)', '((SELECT a UNION SELECT b))', '(SELECT a UNION SELECT b)'], ' USING model = m']),
            ('latest', ['SELECT * FROM t WHERE ', ['a > LATEST', 'a = LATEST AND b = 1']]),
        ]
    return S


def expand(spec, rng, cap):
    import itertools
    segs = [x if isinstance(x, list) else [x] for x in spec]
    total = 1
    for x in segs:
        total *= len(x)
    if total <= cap:
        for combo in itertools.product(*segs):
            yield ''.join(combo)
        return
    seen = set()
    for i, x in enumerate(segs):
        for alt in x:
            for base in (0, -1):
                t = ''.join(alt if j == i else y[base] for j, y in enumerate(segs))
                if t not in seen:
                    seen.add(t)
                    yield t
    for _ in range(cap):
        t = ''.join(rng.choice(y) for y in segs)
        if t not in seen:
            seen.add(t)
            yield t


def parts_stream(chk, cl, dist, quick):
    for d in DIALECTS:
        rng = common.rng_for('C01-fixed-parts', d)
        for name, spec in part_specs(d):
            for text in expand(spec, rng, 700 if quick else 4000):
                run_case(chk, cl, d, text, 'parts:' + name, dist, 'parts/%s/%s' % (d, name))
        # parentheses flag on every expression position
        for pos in POSITIONS:
            for x in OPERANDS:
                for w in ('%s', '(%s)', '((%s))'):
                    e = w % x
                    run_case(chk, cl, d, pos % ((e,) * pos.count('%s')), 'parts:paren', dist, 'parts/%s/paren' % d)


# ------------------------------------------------------------------------------------------ atoms in sequence
# Where a quoted token ends can depend on what FOLLOWS it (a printed literal ending in an odd run of backslashes
# swallows its closing quote and runs on to the next quote of the statement; likewise back-quoted names).  So every
# edge value is tried followed by every other edge value, in every statement position that holds two or more atoms.
EDGE_CHARS = ['\\', "'", '"', '`', '%', ' ', '\n', 'é', '_']


def edge_values():
    out = []
    for c in EDGE_CHARS:
        out += [c, c + c, 'a' + c, c + 'a', 'a' + c + 'b', 'a' + c + c, c + c + c]
    out += ["\\'", "'\\", '\\"', '"\\', "a\\'", "a'\\", 'C:\\d\\', 'x\\\\', "it's", 'a\\%', '50\\%', '\\d+', '', 'a']
    seen, res = set(), []
    for v in out:
        if v not in seen:
            seen.add(v)
            res.append(v)
    return res


PAIR_VALUES = ['a', '', 'a\\', '\\', '\\\\', 'a\\\\', "a'", "'", "''", "'a", "a\\'", "a'\\", 'a"', '"', 'a\\"', 'a`', 'a\n', 'a%', 'C:\\d\\', ' ']


def src_literal(v, style):
    """source text of a string literal denoting v, written WITHOUT the library's printer:
    style 0: '..' with '' for a quote, 1: '..' with \' for a quote, 2: ".." (\" for a double quote)"""
    if style == 2:
        return '"' + v.replace('\\', '\\\\').replace('"', '\\"') + '"'
    return "'" + v.replace('\\', '\\\\').replace("'", "''" if style == 0 else "\\'") + "'"


SEQ_CONTEXTS = ['SELECT %s, %s', 'SELECT * FROM t WHERE a = %s AND b = %s', 'INSERT INTO t (a, b) VALUES (%s, %s)',
                'SELECT * FROM t WHERE a IN (%s, %s)', 'SELECT f(%s, %s)', 'UPDATE t SET a = %s, b = %s', 'SELECT %s AS x, %s AS y FROM t',
                'SELECT * FROM t WHERE a LIKE %s OR b = %s', 'SELECT CASE WHEN a = %s THEN %s END', 'SELECT * FROM t WHERE a = %s ORDER BY %s',
                'DELETE FROM t WHERE a = %s AND b <> %s', 'SELECT %s UNION SELECT %s']
SEQ_CONTEXTS_MINDSDB = ['SELECT a FROM t USING x = %s, y = %s', 'CREATE DATABASE d PARAMETERS {"k": %s, "l": %s}', 'SHOW TABLES LIKE %s WHERE a = %s',
                        "CREATE DATABASE d WITH ENGINE = %s, PARAMETERS = {\"k\": %s}", 'CREATE AGENT ag USING model = %s, prompt = %s',
                        'SELECT INTERVAL %s, %s', 'CREATE MODEL m PREDICT p USING a = %s, b = %s', "CREATE JOB j (select %s) START %s",
                        'UPDATE SKILL sk SET a = %s, b = %s', 'EVALUATE m FROM (select 1) USING a = %s, b = %s']
NAME_VALUES = ['a', 'a`', '`a', 'a`b', '`', '``', 'a b', 'a.b', "a'b", 'a"b', 'a\\', 'select', '1a', 'é']
NAME_CONTEXTS = ['SELECT %s, %s FROM t', 'SELECT %s.%s FROM t', 'SELECT a AS %s, b AS %s FROM t', 'SELECT * FROM %s AS %s', 'SELECT * FROM %s JOIN %s',
                 'INSERT INTO %s (%s) VALUES (1)', 'SELECT * FROM t WHERE %s = %s', 'UPDATE %s SET %s = 1', 'SELECT %s FROM t ORDER BY %s']


def src_name(v):
    return '`' + v.replace('`', '``') + '`'


def lexh_random(rng):
    return ''.join(rng.choice(['a', 'B', '_', '.', '$', ' ', '`', '"', "'", 'é', '1', '-']) for _ in range(rng.randint(1, 5)))


def sequence_stream(chk, cl, dist, quick):
    """edge atoms followed by edge atoms: oracle in every two-atom position + correspondence of the literal sequence
    model (Driver/LitSeq: printSeq / readSeq) with Constant.to_string and the real lexers"""
    vals = edge_values()
    rng = common.rng_for('C01-fixed-seq', 'lits')
    for d in DIALECTS:
        ctxs = SEQ_CONTEXTS + (SEQ_CONTEXTS_MINDSDB if d == 'mindsdb' else [])
        # (a) every edge value alone and before / after a plain literal, all three source spellings
        for v in vals:
            for st in (0, 1, 2):
                for c in ('SELECT %s', 'SELECT %s, %s', 'SELECT * FROM t WHERE a = %s AND b = %s'):
                    args = [src_literal(v, st)] + ["'z'"] * (c.count('%s') - 1)
                    run_case(chk, cl, d, c % tuple(args), 'seq:lit', dist, 'seq/%s/single' % d)
                    if c.count('%s') == 2:
                        run_case(chk, cl, d, c % ("'z'", src_literal(v, st)), 'seq:lit', dist, 'seq/%s/single' % d)
        # (b) every ordered pair of the pair values in every two-literal position
        k = 0
        for x in PAIR_VALUES:
            for y in PAIR_VALUES:
                k += 1
                for ci, c in enumerate(ctxs):
                    if quick and (ci + k) % 3 and ci >= 4:
                        continue        # quick: the first four positions always, the others for every third pair
                    text = c % (src_literal(x, k % 2), src_literal(y, (k // 2) % 3 if d != 'sqlite' else 0))
                    run_case(chk, cl, d, text, 'seq:pair', dist, 'seq/%s/pair' % d)
        # (c) triples
        for _ in range(150 if quick else 3000):
            xs = [rng.choice(vals) for _ in range(3)]
            text = rng.choice(['SELECT %s, %s, %s', 'SELECT * FROM t WHERE a IN (%s, %s, %s)', 'INSERT INTO t VALUES (%s, %s), (%s, 1)'])
            run_case(chk, cl, d, text % tuple(src_literal(x, rng.randrange(2)) for x in xs), 'seq:triple', dist, 'seq/%s/triple' % d)
        # (d) quoted names in sequence
        k = 0
        for x in NAME_VALUES:
            for y in NAME_VALUES:
                k += 1
                for ci, c in enumerate(NAME_CONTEXTS):
                    if quick and (ci + k) % 3:
                        continue
                    run_case(chk, cl, d, c % (src_name(x), src_name(y)), 'seq:name', dist, 'seq/%s/name' % d)
    # (e) correspondence: model of the printed literal sequence vs the real printer and the real lexers
    from tools.harness.lexh import enc, dec, dec_list
    seps = [', ', ' AND b = ', ') OR (', ' || ', '\n', ' ']
    items = []
    for x in PAIR_VALUES:
        for y in PAIR_VALUES:
            items.append([(x, seps[len(items) % len(seps)]), (y, '')])
    for _ in range(300 if quick else 5000):
        n = rng.randint(1, 4)
        items.append([(rng.choice(vals), rng.choice(seps) if i < n - 1 else rng.choice(['', ')', ' FROM t'])) for i in range(n)])
    lines = [' '.join('%s %s' % (enc(v), enc(sp)) for v, sp in it) for it in items]
    try:
        outs = common.lean_run('LitSeq', lines)
    except Exception as e:
        chk.oblige('corr:literal-sequence', 'correspondence', False, 'driver failed: %s' % e)
        return
    from mindsdb_sql.parser.ast import Constant
    try:
        from mindsdb_sql.parser.utils import unescape_string
    except ImportError:
        unescape_string = None
    diverged, first, n = 0, None, 0
    for it, o in zip(items, outs):
        m_printed, _, m_vals = o.partition(' | ')
        m_printed = dec(m_printed)
        m_vals = None if m_vals.strip() == 'none' else dec_list(m_vals.strip())
        real_printed = ''.join(Constant(v).to_string() + sp for v, sp in it)
        n += 1
        if real_printed != m_printed:
            diverged += 1
            first = first or dict(values=[v for v, _ in it], model_printed=m_printed, impl_printed=real_printed)
            continue
        if unescape_string is None:
            continue
        for d in DIALECTS:
            try:
                toks = list(rt.lexer_cls(d)().tokenize(real_printed))
                real_vals = [unescape_string(t.value[1:-1], "'") for t in toks if t.type == 'QUOTE_STRING']
            except Exception:
                real_vals = None
            if real_vals != m_vals:
                diverged += 1
                first = first or dict(dialect=d, text=real_printed, model_values=m_vals, impl_values=real_vals)
                break
    chk.corr_result('literal-sequence', n, diverged, first)
    # (f) the two other atom printers: Parameter.get_string and Variable.get_string (+ the variable lexers)
    from mindsdb_sql.parser.ast import Parameter, Variable
    pvals = ['?', 'a', 'name', 'p1', ':x', '??', '']
    vvals = ['a', 'a.b', 'a b', 'a`b', 'x y', '$v', 'a"b', "a'b", 'A_1', 'é', '1a', 'a-b', '@a'] + \
            [lexh_random(rng) for _ in range(60 if quick else 1000)]
    lines = ['P %s' % enc(v) for v in pvals] + ['V %d %s' % (sy, enc(v)) for v in vvals if v for sy in (0, 1)]
    metas = [('P', v, None) for v in pvals] + [('V', v, sy) for v in vvals if v for sy in (0, 1)]
    try:
        outs = common.lean_run('LitSeq', lines)
    except Exception as e:
        chk.oblige('corr:atom-printers', 'correspondence', False, 'driver failed: %s' % e)
        return
    diverged, first = 0, None
    for (kind, v, sy), o in zip(metas, outs):
        if kind == 'P':
            impl = Parameter(v).to_string()
            model = dec(o.strip())
        else:
            impl = Variable(v, is_system_var=bool(sy)).to_string()
            model = dec(o.split(' | ')[0].strip())
        if impl != model:
            diverged += 1
            first = first or dict(kind=kind, value=v, system=sy, model=model, impl=impl)
    chk.corr_result('atom-printers', len(lines), diverged, first)


# ------------------------------------------------------------------------------------------ embedded raw text
# Statements that keep a query as raw text (views, native queries, model sources, jobs, triggers) rebuild that text
# from the token positions; printing must be stable under every layout of the embedded text: blank lines, indentation
# after a newline, tabs, trailing blanks, tokens that span lines.
RAW_CONTAINERS = ['CREATE VIEW v AS (%s)', 'CREATE VIEW v FROM i AS (%s)', 'SELECT * FROM i (%s) AS n', 'SELECT * FROM i (%s)',
                  'CREATE MODEL m FROM i (%s) PREDICT p', 'RETRAIN m FROM i (%s)', 'FINETUNE m FROM i (%s)', 'CREATE JOB j (%s)',
                  'CREATE TRIGGER tr ON db.t (%s)', 'EVALUATE m FROM (%s)', 'CREATE ANOMALY DETECTION MODEL m FROM i (%s)']
RAW_SEPS = [' ', '\n', '\n\n', '\n   ', '\n\n  ', '   ', '\t', '\n\t', ' \n', '\n\n\n ']
RAW_PIECES = [['select a', 'from t', 'where x = 1'], ['select a,', 'b', "from t where s = 'm\nn'"], ['select `a\nb`', 'from t', 'limit 1']]


def rawtext_stream(chk, cl, dist, quick):
    import itertools
    d = 'mindsdb'
    k = 0
    for pieces in RAW_PIECES:
        for seps in itertools.product(RAW_SEPS, repeat=len(pieces) - 1):
            inner = pieces[0] + ''.join(sp + pc for sp, pc in zip(seps, pieces[1:]))
            for lead, trail in (('', ''), (' ', ' '), ('\n', '\n'), ('\n  ', ' \n ')):
                k += 1
                conts = RAW_CONTAINERS if not quick else [RAW_CONTAINERS[k % len(RAW_CONTAINERS)], RAW_CONTAINERS[(k * 7 + 3) % len(RAW_CONTAINERS)]]
                for c in conts:
                    run_case(chk, cl, d, c % (lead + inner + trail), 'rawtext', dist, 'rawtext/%s' % d)
            # the same statement with the layout applied outside the embedded text as well
            run_case(chk, cl, d, ('CREATE VIEW v%sAS%s(%s)' % (seps[0], seps[-1], inner)), 'rawtext', dist, 'rawtext/%s' % d)

# ------------------------------------------------------------------------------------------ DDL from the grammar rules
# CREATE TABLE statements derived from the productions of the exported grammar (tools/harness/ddlgen.py): every derivation
# of a column definition (type with / without length, DEFAULT, inline PRIMARY KEY, NULL / NOT NULL suffixes), alone, in every
# ordered pair and in sampled triples, PRIMARY KEY clause over the first / last / first two / all columns, x OR REPLACE x
# IF NOT EXISTS, + the SELECT forms; all dialects that have the rules.  The oracle also compares the attributes of the
# column definitions (rt.holder_records): CreateTable.to_tree shows `name: type` only.
def ddl_stream(chk, cl, dist, quick):
    from tools.harness import ddlgen
    for d in DIALECTS:
        rng = common.rng_for('C01-fixed-ddl', d)
        try:
            sts = ddlgen.create_table_statements(d, rng, 150 if quick else 3000)
        except Exception as e:
            chk.oblige('probe:ddl-from-grammar', 'probe', False, 'generator failed for %s: %s' % (d, e))
            continue
        for tag, text in sts:
            run_case(chk, cl, d, text, 'ddl:' + tag, dist, 'ddl/%s/%s' % (d, tag))
        dist['ddl/%s/statements' % d] = '%d' % len(sts)


# ------------------------------------------------------------------------------------------ printing histories
# The printed form must be a function of the tree alone.  Every other stream looks at one statement at a time, in one
# process whose state is whatever the earlier streams left behind; a printer that remembers decisions in process state
# (keyed by a non-injective normal form of a name, by value equality, by object identity, in a per-class attribute) is
# seen only by chance.  Here the statements of confusable groups are printed in fresh interpreters in opposite orders and
# in this process; texts and verdicts must agree (tools/harness/printhist.py).  Model side: Driver/PrintHist.lean.
def atom_word(a):
    from tools.harness.lexh import enc
    if a[0] == 'I':
        return 'I ' + '|'.join(enc(p) for p in a[1])
    if a[0] == 'S':
        return 'S ' + enc(a[1])
    if a[0] == 'V':
        return 'V%d %s' % (a[1], enc(a[2]))
    return 'P ' + enc(a[1])


def history_failure(f0, history, fresh, after, tests):
    """the failure record of a statement observed differently after `history` than in a state in which nothing was printed"""
    bad_after = after[1] != 'ok'
    grave = bad_after and fresh[1] == 'ok'
    f = dict(f0, history=history, printed=after[0], printed_fresh=fresh[0], verdict_fresh=fresh[1], verdict_after=after[1],
             msg=after[2], tests=tests, kind=('history-' + after[1].split(':')[0]) if grave else 'print-history',
             exc=after[1].split(':', 1)[1] if grave else '')
    f['cls'] = f['class'] = rt.class_key(f)
    f['desc'] = '%s: %r prints %r when nothing was printed before (%s) but %r (%s %s) after %s was printed' % (
        f['dialect'], f['shrunk'][:200], fresh[0], fresh[1], after[0], after[1], (after[2] or '')[:80],
        ' ; '.join('%s %r' % (a, b[:120]) for a, b in history[:3]) + (' … (%d statements)' % len(history) if len(history) > 3 else ''))
    return f


# process state that printing is known to write, vetted: RESERVED_KEYWORDS is completed by the first call of
# get_reserved_words() with the token names of the two lexers and is the same set ever after
VETTED_STATE = ['mindsdb_sql.parser.ast.select.identifier.RESERVED_KEYWORDS']


def history_stream(chk, cl, dist, quick, deep=False):
    """runs: every group alone in a state in which nothing was printed, members forward / reversed (forked from an
    interpreter that only loaded the parsers); all groups in one interpreter forward / reversed (history accumulates); this
    process (history = all other streams).  Same statement => same text and same verdict in all of them."""
    import time
    from tools.harness import printhist as hist, corpus
    sfx = ':deeper' if deep else ''
    from tools.harness.lexh import dec
    groups = hist.build_groups(chk.seed, 'deep' if deep else quick, ID_CONTEXTS, LIT_CONTEXTS, corpus.load())
    servers = []   # (tag, single-group jobs, cumulative run): one interpreter each, in parallel
    for rev in (False, True):
        jobs = [hist.ops_of([dict(G)], reverse=rev) for G in groups]
        for k, o in enumerate(jobs):            # group index inside a single-group run is 0: restore it
            for op in o:
                op[1] = k
        servers.append(('reverse' if rev else 'forward', jobs, None))
        if not rev or not quick or deep:     # quick: one cumulative run (forward); this process is a second, longer one
            servers.append(('reverse' if rev else 'forward', [], hist.ops_of(groups, reverse=rev)))
    if not quick:
        rng = common.rng_for(chk.seed, 'C01/history-orders')
        o = list(range(len(groups)))
        rng.shuffle(o)
        servers.append(('shuffled', [], hist.ops_of(groups, order=o)))
    try:
        handles = [hist.start(jobs, cum) for _, jobs, cum in servers]
    except Exception as e:
        chk.oblige('probe:history-runs' + sfx, 'probe', False, 'cannot start a fresh interpreter: %s' % e)
        return
    # model: the texts of every run
    lines = []
    for _, jobs, cum in servers:
        for o in jobs + ([cum] if cum else []):
            lines.append(' '.join(atom_word(op[3]) for op in o if op[0] == 'A') or 'P 63')
    outs = None
    try:
        outs = common.lean_run('PrintHist', lines)
    except Exception as e:
        chk.oblige('corr:print-history' + sfx, 'correspondence', False, 'driver failed: %s' % e)
    # this process (its history = all the other streams)
    main, pending = {}, []
    for g, G in enumerate(groups):
        for i, (d, text) in enumerate(G['cases']):
            s, v, msg, tree, r = hist.observe(d, text)
            main[(g, i)] = [s, v, msg]
            chk.count((d, text))
            tag = 'history/%s' % d
            if r is None:
                dist[tag + '/rejected'] = dist.get(tag + '/rejected', 0) + 1
            elif r == 'ok':
                dist[tag + '/ok'] = dist.get(tag + '/ok', 0) + 1
            else:
                dist[tag + '/' + r['kind']] = dist.get(tag + '/' + r['kind'], 0) + 1
                pending.append(((g, i), d, text, r, 'history:' + G['name']))
    try:
        results = [hist.finish(h) for h in handles]
    except Exception as e:
        chk.oblige('probe:history-runs' + sfx, 'probe', False, str(e)[-1500:])
        return
    flat = []      # (run name, ops, result)
    for (tagk, jobs, cum), res in zip(servers, results):
        for o, r in zip(jobs, res['jobs']):
            flat.append(('group-alone-' + tagk, o, r))
        if cum:
            flat.append(('all-groups-' + tagk, cum, res['cumulative']))
    chk.oblige('probe:history-runs' + sfx, 'probe', True, '%d runs (%d of one group in a state where nothing was printed, %d cumulative), '
               '%d groups, %d statements, %d atoms' % (len(flat), sum(len(j) for _, j, _ in servers), sum(1 for _, _, c in servers if c), len(groups),
                                                      sum(len(G['cases']) for G in groups), sum(len(G['atoms']) for G in groups)))
    # process state written while the family was printed (information; anything beyond the vetted list makes the stream
    # look deeper: more code points per key function, all contexts)
    written = sorted({w for res in results for w in (res.get('state_written') or [])})
    extra_state = [w for w in written if w not in VETTED_STATE]
    chk.samples.append(dict(process_state_written_while_printing=written, not_vetted=extra_state))
    # (a) correspondence of the atom printers over whole histories
    if outs is not None:
        n, diverged, first = 0, 0, None
        for (rname, ops, res), o in zip(flat, outs):
            model = [dec(w) for w in o.split(' ')] if o.strip() else []
            k = 0
            recent = []
            for op, r in zip(ops, res):
                if op[0] != 'A':
                    continue
                n += 1
                m = model[k] if k < len(model) else None
                k += 1
                if r != m:
                    diverged += 1
                    first = first or dict(run=rname, atom=op[3], printed_before_in_this_run=recent[-6:], model=m, impl=r)
                recent.append(op[3])
        chk.corr_result('print-history' + sfx, n, diverged, first, {'runs': len(flat)})
    # (b) the same statement in every run: same text, same verdict
    seen = {}
    where = {}     # key -> [(run name, statements of the run, position, observation)]
    for rname, ops, res in flat:
        cs = [(op, r) for op, r in zip(ops, res) if op[0] == 'C']
        for pos, (op, r) in enumerate(cs):
            key = (op[1], op[2])
            seen.setdefault(key, []).append(r[:2])
            where.setdefault(key, []).append((rname, cs, pos, r))
    deviating, main_only = [], []
    for key in sorted(main):
        obs = seen.get(key, [])
        if any(x != obs[0] for x in obs[1:]):
            deviating.append(key)             # the runs with a known history disagree: can be minimised
        elif obs and main[key][:2] != obs[0]:
            main_only.append(key)             # only this process (unknown, long history) deviates
    for key, d, text, r, src in pending:
        if key not in deviating and key not in main_only:          # fails the same way in every run: an ordinary failure of the round trip
            cl.classify(d, text, r, src)
    twice = [(rname, op[1], r) for rname, ops, res in flat for op, r in zip(ops, res) if op[0] == 'E' and r]
    dist['history/summary' + sfx] = 'groups=%d statements=%d runs=%d deviating=%d deviating-in-this-process-only=%d printed-twice-differs=%d' % (
        len(groups), len(main), len(flat) + 1, len(deviating), len(main_only), len(twice))
    unexplained, trials, tried = [], 0, set()
    for key in main_only[:3]:
        d, text = groups[key[0]]['cases'][key[1]]
        unexplained.append(dict(dialect=d, text=text, every_run_with_known_history=seen[key][0], this_process=main[key]))
    deadline = time.time() + 90          # deeper search only when something deviates; bounded
    for key in deviating:
        g, i = key
        d, text = groups[g]['cases'][i]
        info = {}
        rt.oracle(d, text, info)
        tree = info.get('tree')
        feats = sorted(rt.features(d, text, tree, info.get('printed'))) if tree is not None else []
        root = type(tree).__name__
        pre_cls = '%s|%s' % (root, ','.join(feats))
        if pre_cls in tried or len(tried) >= 4:
            continue
        tried.add(pre_cls)
        found = None
        # the runs in which the statement was seen with something printed before it, shortest history first
        for rname, cs, pos, r in sorted(where.get(key, []), key=lambda w: w[2]):
            if not pos or time.time() > deadline:
                continue
            prefix = [[o[3], o[4]] for o, _ in cs[:pos]]
            within = [[o[3], o[4]] for o, _ in cs[:pos] if o[1] == g]
            try:
                found = hist.minimise([d, text], within, prefix, deadline)
            except Exception as e:
                chk.notes.append('history minimisation failed: %s' % e)
            if found:
                break
        if not found:
            unexplained.append(dict(dialect=d, text=text, observations={w[0]: w[3] for w in where.get(key, [])}, this_process=main[key]))
            continue
        history, fresh, after, nt = found
        trials += nt
        f = history_failure(dict(root=root, feats=feats, attrs=rt.root_attrs(tree), dialect=d, text=text, shrunk=text,
                                 src='history:' + groups[g]['name']), history, fresh, after, nt)
        cl.n_fail += 1
        cl.by_class[f['cls']] = cl.by_class.get(f['cls'], 0) + 1
        chk.classify(f, rt.kf_match)
        chk.fail(f)
    for rname, g, bad in twice[:1]:
        i, s1, s2 = bad[0]
        d, text = groups[g]['cases'][i]
        f = dict(kind='print-twice-differs', exc='', root='', feats=[], attrs=[], dialect=d, text=text, shrunk=text,
                 history=[c for c in groups[g]['cases']], group_ops=hist.ops_of([dict(groups[g], keep=True)], reverse='reverse' in rname),
                 printed=s2, printed_fresh=s1, src='history:' + groups[g]['name'])
        f['cls'] = f['class'] = 'print-twice-differs|' + groups[g]['name'].split(':')[0]
        f['desc'] = '%s: the tree of %r printed %r, and %r again after its confusables were printed (run %s)' % (d, text[:200], s1, s2, rname)
        cl.n_fail += 1
        chk.classify(f, rt.kf_match)
        chk.fail(f)
    chk.oblige('probe:print-independent-of-history' + sfx, 'probe', not unexplained,
               '' if not unexplained else 'printed text / verdict differs between runs, no small history found: %s'
               % json.dumps(unexplained[:3], ensure_ascii=False)[:1500])
    chk.samples.append(dict(history_runs=dist['history/summary' + sfx], minimisation_trials=trials))
    if quick and not deep and extra_state and not deviating and not any(f.get('history') is not None for f in chk.failures):
        # printing writes process state nobody vetted and the quick family saw no effect: run the thorough family once
        dist['history/deeper'] = 'state written: ' + ', '.join(extra_state)[:300]
        history_stream(chk, cl, dist, quick, deep=True)


# ------------------------------------------------------------------------------------------ SELECT skeleton
def pay_sql(n, role):
    if role == 'from':
        return 't%d' % n
    if role == 'using':
        return 'a = %d' % n
    if role == 'target':
        return 'c%d' % n
    m = n % 4
    return 'c%d = 1' % n if m == 0 else ('%d' % n if m == 2 else ('c%d' % n if m == 1 else '%d.5' % n))


def clause_sql(c):
    k = c[0]
    if k == 'F':
        return 'FROM ' + pay_sql(c[1], 'from')
    if k == 'W':
        return 'WHERE ' + pay_sql(c[1], 'e')
    if k == 'G':
        return 'GROUP BY ' + ', '.join(pay_sql(n, 'e') for n in c[1])
    if k == 'H':
        return 'HAVING ' + pay_sql(c[1], 'e')
    if k == 'O':
        return 'ORDER BY ' + ', '.join(pay_sql(n, 'e') for n in c[1])
    if k == 'L':
        return 'LIMIT ' + pay_sql(c[1], 'e')
    if k == 'L2':
        return 'LIMIT %s, %s' % (pay_sql(c[1][0], 'e'), pay_sql(c[1][1], 'e'))
    if k == 'X':
        return 'OFFSET ' + pay_sql(c[1], 'e')
    if k == 'U':
        return 'FOR UPDATE'
    return 'USING ' + pay_sql(c[1], 'using')


def clause_tok(c):
    k = c[0]
    if k == 'U':
        return 'U'
    if k in ('G', 'O', 'L2'):
        return '%s:%s' % (k, ','.join(str(n) for n in c[1]))
    return '%s:%d' % (k, c[1])


def pay_of(node):
    """inverse of pay_sql on real AST nodes"""
    cls = type(node).__name__
    if cls == 'Identifier':
        return int(re.sub(r'\D', '', str(node.parts[-1])))
    if cls == 'BinaryOperation':
        return pay_of(node.args[0])
    if cls == 'Constant':
        return int(node.value)
    if cls == 'OrderBy':
        return pay_of(node.field)
    raise ValueError(cls)


def record_of(t):
    o = lambda x: '-' if x is None else str(pay_of(x))
    ol = lambda x: '-' if x is None else ','.join(str(pay_of(y)) for y in x)
    using = '-' if not getattr(t, 'using', None) else str(list(t.using.values())[0])
    return 'd=%d t=%s from=%s where=%s group=%s having=%s order=%s limit=%s offset=%s mode=%d using=%s' % (
        1 if t.distinct else 0, ','.join(str(pay_of(x)) for x in t.targets), o(t.from_table), o(t.where), ol(t.group_by),
        o(t.having), ol(t.order_by), o(t.limit), o(t.offset), 1 if t.mode else 0, using)


ERR_RX = [
    (r'Duplicate (.+?) clause', lambda m: 'dup:' + m.group(1)),
    (r'^(.+?) requires (.+)$', lambda m: 'req:%s:%s' % (m.group(1), m.group(2))),
    (r'^(.+?) must go before (.+)$', lambda m: 'before:%s:%s' % (m.group(1), m.group(2))),
    (r'^(WHERE|HAVING) must contain an operation', lambda m: 'notop:' + m.group(1)),
    (r'^(LIMIT|OFFSET) must (?:be an integer|have integer)', lambda m: 'notint:' + m.group(1)),
    (r'^OFFSET already specified', lambda m: 'offset2'),
]


def skeleton_stream(chk, cl, dist, quick):
    from mindsdb_sql import parse_sql
    ORDER = ['F', 'W', 'G', 'H', 'O', 'L', 'X', 'U', 'US']
    lines, metas = [], []
    for d in DIALECTS:
        rng = common.rng_for(chk.seed, 'C01/skel/' + d)
        kinds = [k for k in ORDER if not (k == 'U' and d == 'sqlite') and not (k == 'US' and d != 'mindsdb')]

        def mk(k):
            if k == 'G':
                return (k, [rng.choice([1, 4, 5, 8, 9]) for _ in range(rng.randint(1, 3))])
            if k == 'O':      # sqlite / mysql ordering terms are identifiers
                return (k, [rng.choice([1, 5, 9]) for _ in range(rng.randint(1, 3))])
            if k in ('L', 'X'):
                return (k, rng.choice([2, 6, 10, 2, 6, 3, 7]))
            if k == 'L2':
                return (k, [rng.choice([2, 6, 10, 3]), rng.choice([2, 6, 10, 7])])
            if k in ('W', 'H'):
                return (k, rng.choice([4, 8, 12, 4, 8, 1, 5, 2]))
            if k == 'US':
                return (k, rng.randint(1, 9))
            if k == 'U':
                return ('U',)
            return (k, rng.randint(1, 9))
        seqs = []
        for _ in range(700 if quick else 20000):
            r = rng.random()
            if r < 0.55:      # canonical order, random subset
                ks = [k for k in kinds if rng.random() < 0.5]
                if 'L' in ks and 'X' not in ks and rng.random() < 0.3:
                    ks[ks.index('L')] = 'L2'
            elif r < 0.8:     # one perturbation: swap / duplicate / drop FROM
                ks = [k for k in kinds if rng.random() < 0.6]
                if ks:
                    i = rng.randrange(len(ks))
                    p = rng.random()
                    if p < 0.4 and len(ks) > 1:
                        j = rng.randrange(len(ks))
                        ks[i], ks[j] = ks[j], ks[i]
                    elif p < 0.7:
                        ks.insert(rng.randrange(len(ks) + 1), ks[i])
                    elif 'F' in ks:
                        ks.remove('F')
            else:             # arbitrary
                ks = [rng.choice(kinds + ['L2']) for _ in range(rng.randint(0, 6))]
            seqs.append((rng.random() < 0.3, [rng.randint(1, 9) for _ in range(rng.randint(1, 3))], [mk(k) for k in ks]))
        # exhaustive: every ordered selection of up to 3 distinct clause kinds, with and without a leading FROM
        import itertools
        others = [k for k in kinds if k != 'F'] + ['L2']
        for k in (1, 2, 3):
            for perm in itertools.permutations(others, k):
                if 'L' in perm and 'L2' in perm:
                    continue
                cs0 = [mk(x) for x in perm]
                seqs.append((False, [1], [mk('F')] + cs0))
                if k < 3:
                    seqs.append((False, [1], cs0))
        for distinct, targets, cs in seqs:
            text = 'SELECT %s%s %s' % ('DISTINCT ' if distinct else '', ', '.join(pay_sql(n, 'target') for n in targets),
                                       ' '.join(clause_sql(c) for c in cs))
            lines.append('S %d %s %s' % (1 if distinct else 0, ','.join(str(n) for n in targets), ' '.join(clause_tok(c) for c in cs)))
            metas.append((d, text.strip(), cs))
    # set-operation chains (mindsdb grammar has chains and parenthesised operands)
    qmetas = []
    rngq = common.rng_for(chk.seed, 'C01/chain')
    OPS = {'u': 'UNION', 'ua': 'UNION ALL', 'i': 'INTERSECT', 'ia': 'INTERSECT ALL', 'e': 'EXCEPT', 'ea': 'EXCEPT ALL'}

    def chain(depth):
        n = rngq.randint(2, 4) if depth == 0 else rngq.randint(2, 3)
        toks = []
        for i in range(n):
            if i:
                toks.append(rngq.choice(sorted(OPS)))
            if depth < 2 and rngq.random() < (0.25 if depth == 0 else 0.15):
                toks += ['('] + chain(depth + 1) + [')']
            elif rngq.random() < 0.1:
                toks += ['(', 's%d' % rngq.randint(0, 9), ')']
            else:
                toks.append('s%d' % rngq.randint(0, 9))
        return toks
    for _ in range(150 if quick else 4000):
        toks = chain(0)
        lines.append('Q ' + ' '.join(toks))
        qmetas.append(toks)
    outs = None
    try:
        outs = common.lean_run('SelectSkel', lines)
    except Exception as e:
        chk.oblige('corr:select-skeleton', 'correspondence', False, 'driver failed: %s' % e)
    diverged, first, n, syn = 0, None, 0, 0
    norm = lambda s: re.sub(r'\s+', '', s).upper()
    for i, (d, text, cs) in enumerate(metas):
        run_case(chk, cl, d, text, 'skeleton', dist, 'skeleton/%s' % d)
        if outs is None:
            continue
        o = outs[i]
        canonical = [c[0] for c in cs] == sorted({c[0] for c in cs}, key=lambda k: ORDER.index(k) if k in ORDER else 99) \
            and all(c[0] != 'L2' for c in cs)
        try:
            t = parse_sql(text, d)
            impl = 'ok ' + record_of(t)
            printed = t.to_string()
        except Exception as e:
            msg = str(e)
            impl = None
            for rx, f in ERR_RX:
                m = re.search(rx, msg.split('\n')[0])
                if m:
                    impl = 'err ' + f(m)
                    break
            if impl is None:
                impl = 'syntax'
        n += 1
        dist['skeleton/%s/%s' % (d, impl.split(' ')[0] if impl != 'syntax' else 'syntax')] = \
            dist.get('skeleton/%s/%s' % (d, impl.split(' ')[0] if impl != 'syntax' else 'syntax'), 0) + 1
        if impl == 'syntax':
            # LALR glue (G1) outside the skeleton: tolerated only for non-canonical clause orders
            syn += 1
            # (the OFFSET-as-alias hole of (G1) is closed in all dialects since 439b325: no tolerance left)
            if canonical and o.startswith('ok'):
                diverged += 1
                first = first or dict(dialect=d, text=text, model=o, impl='syntax error on a canonical clause order')
            continue
        parts = [x.strip() for x in o.split('|')]
        if parts[0] != impl:
            diverged += 1
            first = first or dict(dialect=d, text=text, model=parts[0], impl=impl)
            continue
        if impl.startswith('ok'):
            # printed clause order of the real printer = model's clause list
            mc = []
            for w in parts[1].split():
                k, _, v = w.partition(':')
                mc.append((k,) if k == 'U' else ((k, [int(x) for x in v.split(',')]) if k in ('G', 'O', 'L2') else (k, int(v))))
            head = text[:text.upper().index(' FROM ')] if ' FROM ' in text.upper() else None
            want = ' '.join(clause_sql(c) for c in mc)
            got = printed
            if norm(want) not in norm(got) or not norm(got).endswith(norm(want)) or parts[2] != 'rt=1':
                diverged += 1
                first = first or dict(dialect=d, text=text, model_clauses=want, impl_printed=got, rt=parts[2])
    if outs is not None:
        chk.corr_result('select-skeleton', n, diverged, first, {'syntax-outside-model': syn})
    # chains
    diverged, first, n = 0, None, 0
    for j, toks in enumerate(qmetas):
        text = ' '.join('SELECT %s' % t[1:] if t[0] == 's' else OPS.get(t, t) for t in toks)
        f = run_case(chk, cl, 'mindsdb', text, 'chain', dist, 'chain/mindsdb')
        if outs is None:
            continue
        o = outs[len(metas) + j]
        n += 1

        def showq(t):
            cls = type(t).__name__
            if cls == 'Select':
                return 's%d' % t.targets[0].value
            nm = {'Union': 'u', 'Intersect': 'i', 'Except': 'e'}[cls] + ('' if t.unique else 'a') + ('!' if t.parentheses else '')
            return '(%s %s %s)' % (nm, showq(t.left), showq(t.right))
        try:
            t = parse_sql(text, 'mindsdb')
            t2 = parse_sql(t.to_string(), 'mindsdb')
            printed = t.to_string()
            impl = 'some %s rt=%d' % (showq(t), 1 if showq(t2) == showq(t) else 0)
        except Exception as e:
            impl = 'none'
        parts = [x.strip() for x in o.split('|')]
        model = 'none' if parts[0] == 'none' else '%s %s' % (parts[0], parts[2])
        if impl == model and impl != 'none':
            # the printed token sequence of the real printer = printQ of the model
            want = ' '.join('SELECT %s' % w[1:] if w[0] == 's' else OPS.get(w, w) for w in parts[1].split())
            if norm(want) != norm(printed):
                impl = impl + ' printed=' + printed.replace('\n', ' ')
        if impl != model:
            diverged += 1
            first = first or dict(text=text, model=o, impl=impl)
    if outs is not None:
        chk.corr_result('set-operation-chains', n, diverged, first)


# ------------------------------------------------------------------------------------------ run
def run(chk):
    quick = chk.tier == 'quick'
    broken = bool(chk.broken())
    cl = Classifier(chk)
    dist = {}
    wild_stream(chk, cl, dist, FIXED_QUICK if quick and not broken else (FIXED_DEEP[:3] if quick else FIXED_DEEP))
    expr_stream(chk, cl, dist, quick)
    atom_stream(chk, cl, dist, quick)
    parts_stream(chk, cl, dist, quick)
    sequence_stream(chk, cl, dist, quick)
    rawtext_stream(chk, cl, dist, quick)
    skeleton_stream(chk, cl, dist, quick)
    ddl_stream(chk, cl, dist, quick)
    import time, resource
    t0, c0, k0 = time.time(), time.process_time(), resource.getrusage(resource.RUSAGE_CHILDREN)
    history_stream(chk, cl, dist, quick)      # last: this process then has the longest history
    verify_fresh(chk, cl)
    k1 = resource.getrusage(resource.RUSAGE_CHILDREN)
    dist['history/seconds'] = 'wall %.1f, cpu %.1f (this process) + %.1f (interpreters, in parallel)' % (
        time.time() - t0, time.process_time() - c0, k1.ru_utime + k1.ru_stime - k0.ru_utime - k0.ru_stime)
    # known findings still reproduce?
    for k in chk.kf:
        if k.get('status') != 'open':
            continue
        w = k.get('witness', {})
        try:
            r = rt.oracle(w['dialect'], w['sql'])
            if r is not None and r != 'ok':
                f = rt.describe(w['dialect'], w['sql'], w['sql'], r)
                if rt.kf_match(k, f):
                    k['_reproduced'] = True
        except Exception:
            pass
    chk.samples.append(dict(theorem='C01_partial_select : C01_full (parseSkel c) printSkel id — for every clause sequence the rules accept, '
                                    'the clauses Select.get_string emits pass ensure_select_keyword_order and rebuild the record'))
    chk.samples.append(dict(theorem='C01_partial_union : C01_full parseQ printQ id — every token list the set-operation rules accept '
                                    '(parenthesised operands on either side, any nesting) round-trips, parentheses flags included'))
    chk.samples.append(dict(theorem='C01_partial_literal_sequence : sepsOK items → readSeq (items.map (·.2)) (printSeq items) = some (items.map (·.1)) '
                                    '— a string constant ends where the printer ended it, whatever follows'))
    chk.samples.append(dict(theorem='C01_print_history_free : (atomPrinter reserved).after h a = atomPrint reserved a ∧ (atomPrinter reserved).texts h = '
                                    'h.map (atomPrint reserved) — the printed form is a function of the tree alone; C01_memo_histIndep_iff : HistIndep (memo key f) ↔ '
                                    '∀ a b, key a = key b → f a = f b'))
    chk.samples.append(dict(theorem='C01_full_of_roundtrip_and_copy : (∀ txt t, parse txt = some t → parse (print t) = some t) → '
                                    '(∀ txt t, parse txt = some t → print (copy t) = print t) → C01_full parse print copy'))
    for cls, cnt in sorted(cl.by_class.items(), key=lambda x: -x[1])[:6]:
        chk.samples.append(dict(failure_class=cls, count=cnt))
    if os.environ.get('C01_DUMP'):
        json.dump(cl.dump, open(os.environ['C01_DUMP'], 'w'), indent=1, ensure_ascii=False, sort_keys=True)
        json.dump(getattr(cl, 'pairs', {}), open(os.environ['C01_DUMP'] + '.pairs', 'w'), indent=0, ensure_ascii=False, sort_keys=True)
    summary = {}
    for k, v in dist.items():
        if isinstance(v, int):
            a, _, b = k.rpartition('/')
            summary.setdefault(a, {})[b] = v
    return chk.finish(assumptions=ASSUME, extra=dict(
        impl_probe=dict(failures=cl.n_fail, classes=len(cl.by_class), cache_hits=cl.hits, distribution=summary,
                        productions={k: v for k, v in dist.items() if not isinstance(v, int)})))


def replay(path):
    data = json.load(open(path))
    f = data.get('failure')
    if not f:
        print(json.dumps(data, indent=1)[:3000])
        return 1
    if f.get('history') is not None:
        from tools.harness import printhist as hist
        if f.get('group_ops'):
            res = hist.fresh_runs([f['group_ops']])[0]
            bad = [r for op, r in zip(f['group_ops'], res) if op[0] == 'E' and r]
            print('fresh interpreter, one group, trees kept alive: printed twice differs: %s' % json.dumps(bad, ensure_ascii=False)[:600])
            bad = 1 if bad else 0
        else:
            bad = hist.replay(f)
        print('REPRODUCED' if bad else 'not reproduced', f.get('cls'))
        return 1 if bad else 0
    bad = 0
    for text in (f.get('shrunk'), f.get('text')):
        if not text:
            continue
        r = rt.oracle(f['dialect'], text)
        st = 'rejected' if r is None else ('ok' if r == 'ok' else '%s %s printed=%r' % (r['kind'], r['exc'], r.get('printed')))
        print('%s %r -> %s' % (f['dialect'], text[:300], st))
        if r is not None and r != 'ok':
            bad = 1
    print('REPRODUCED' if bad else 'not reproduced', f.get('cls'))
    return 1 if bad else 0
