"""C02 — parsing terminates with a tree or a parsing error, never a crash."""
import json, re, sys, traceback
from tools.harness import common, lr, gen, streams, extra, slylex
import itertools
from tools.harness.common import DIALECTS
from tools.props import c02_lexprobe

ID = 'C02'
TARGETS = ['MindsVerif.Props.C02', 'MindsVerif.Props.C02Lex']
THEOREMS = ['MindsVerif.Props.C02.C02_partial_sqlite', 'MindsVerif.Props.C02.C02_partial_mysql',
            'MindsVerif.Props.C02.C02_partial_mindsdb', 'MindsVerif.Props.C02.C02_driver_generic',
            'MindsVerif.Props.C02.C02_review_raise_never_none', 'MindsVerif.Props.C02.C02_review_raise_never_none_sqlite',
            'MindsVerif.Props.C02.C02_review_raise_never_none_mysql',
            # lexer half: the SLY tokenize loop over the regenerated master regexes (Props/C02Lex.lean)
            'MindsVerif.Props.C02Lex.C02_lexer_generic', 'MindsVerif.Props.C02Lex.C02_lexer_total_sqlite',
            'MindsVerif.Props.C02Lex.C02_lexer_total_mysql', 'MindsVerif.Props.C02Lex.C02_lexer_total_mindsdb',
            'MindsVerif.Props.C02Lex.C05_lexer_tiles', 'MindsVerif.Props.C02Lex.C05_lexer_chain',
            'MindsVerif.Props.C02Lex.C02_lexer_error_spec',
            'MindsVerif.Props.C02Lex.nonNull_sqlite', 'MindsVerif.Props.C02Lex.nonNull_mysql', 'MindsVerif.Props.C02Lex.nonNull_mindsdb',
            'MindsVerif.Props.C02Lex.supported_sqlite', 'MindsVerif.Props.C02Lex.supported_mysql', 'MindsVerif.Props.C02Lex.supported_mindsdb',
            'MindsVerif.Props.C02Lex.no_literals_no_remapping', 'MindsVerif.Props.C02Lex.C02_lexer_example_long_s']
ASSUME = [
    'theorem covers the table-driven runtime only (no stuck state, error_info well-formed); the semantic '
    'actions, AST constructors, ErrorHandling and termination are covered by the crash search of this run, not by a theorem',
    'Parser.parse is hand-modelled; tie = LR correspondence stream',
    'lexer half: Lexer.tokenize (sly/lex.py) is hand-modelled (Model/SlyLex.lean, Model/Re.lean = backtracking matcher with the '
    'priority semantics of re); the rule list is regenerated each run from the parse tree (re._parser) of the live master regex, '
    'one-character atoms tabulated with the real re engine over all code points (tools/extract/x_relex.py, trusted to transcribe); '
    'tie = stream slylex (token types, boundaries, error index); token values / line numbers / the error message are outside this model',
]


def site_of(e):
    tb = traceback.extract_tb(e.__traceback__)
    frs = [f for f in tb if '/mindsdb_sql/' in f.filename or '/sly/' in f.filename]
    fr = frs[-1] if frs else tb[-1]
    return dict(exc=type(e).__name__, file=fr.filename.split('/')[-1], func=fr.name)


def msg_of(e):
    return str(e)[:300]


def probe_case(dialect, text):
    """crash oracle on the real parse_sql; returns failure dict or None"""
    from mindsdb_sql import parse_sql
    from mindsdb_sql.exceptions import ParsingException
    from mindsdb_sql.parser.ast.base import ASTNode
    from sly.lex import LexError
    try:
        with common.time_limit(60):
            r = parse_sql(text, dialect)
        if not isinstance(r, ASTNode):
            return dict(desc='parse_sql returned a non-tree value %r' % type(r).__name__, dialect=dialect,
                        text=text, site=dict(exc='non-tree', file='', func=''), **{'class': 'non-tree'})
    except (ParsingException, LexError):
        return None
    except common.HangDetected:
        return dict(desc='parse_sql did not return within 60 s (hang)', dialect=dialect, text=text,
                    site=dict(exc='hang', file='', func='parse_sql'), msg='hang', **{'class': 'hang/parse_sql'})
    except Exception as e:
        s = site_of(e)
        m = msg_of(e)
        return dict(desc='parse_sql raised %s (%s) in %s:%s' % (s['exc'], m[:80], s['file'], s['func']), dialect=dialect,
                    text=text, site=s, msg=m,
                    **{'class': '%s/%s/%s/%s' % (s['exc'], s['file'], s['func'], re.sub(r'\d+', 'N', m)[:60])})
    return None


def kf_match(k, f):
    return k.get('site') == f.get('site') and re.search(k.get('msg_re', ''), f.get('msg', '')) is not None


def run(chk):
    quick = chk.tier == 'quick'
    common.install_lexer_guard()   # a lexer that stops advancing is reported as a hang, it cannot stall the check
    deep = (not quick) or bool(chk.broken())
    n_mut, n_sent = (500, 300) if not deep else (15000, 10000)
    # known findings: do the witnesses still fail?
    for k in chk.kf:
        if k['status'] == 'open':
            f = probe_case(k['witness']['dialect'], k['witness']['text'])
            k['_reproduced'] = bool(f and kf_match(k, f))
    lines, metas, dist = [], [], {}
    for d in DIALECTS:
        rng = common.rng_for(chk.seed, 'C02/' + d)
        R = lr.real(d)
        fam = [c for f in extra.layout_variant_stream(d, rng, 20 if not deep else 300) for c in f]
        more = itertools.chain(extra.append_terminal_stream(d, rng, 4 if not deep else 80), fam,
                               extra.recase_stream(d, rng, 80 if not deep else 2000), extra.numeric_position_stream(d, rng),
                               # keywords respelled with the case-folding look-alikes the live lexer accepts (Gen/LexRe atom sets)
                               slylex.lookalike_texts(d, rng, 150 if not deep else 3000))
        for case in itertools.chain(streams.statement_stream(d, rng, n_mut, n_sent), more):
            text = case['text']
            s2 = re.sub(r'[\s;]+$', '', text)
            toks, bad = R.tokenize(s2)
            py = R.run(toks, bool(bad))
            py.pop('parser', None); py.pop('result', None)
            ids = [R.tid[t.type] for t in toks]
            lines.append(lr.model_line(d, ids, bool(bad)))
            metas.append((d, case, py))
            chk.count((d, text))
            f = probe_case(d, text)
            key = '%s/%s/%s' % (d, case['src'].split(':')[0].split('+')[0], 'crash' if f else 'ok')
            dist[key] = dist.get(key, 0) + 1
            if f:
                chk.classify(f, kf_match)
                chk.fail(f)
        # long flat operator chains and deep parentheses (reasonably sized input: a few KB): no RecursionError
        for n_ in (600, 1500):
            for op in (' or ', ' and '):
                chain = op.join('id = %d' % i for i in range(n_))
                for text in ('select * from t where ' + chain, 'select a from t group by a having ' + chain):
                    chk.count((d, 'chain', n_, op, text[:30]))
                    f = probe_case(d, text)
                    if f:
                        f['text'] = text[:200] + ' ... (%d conditions)' % n_
                        chk.classify(f, kf_match)
                        chk.fail(f)
        for text in ('select ' + ' + '.join('c%d' % i for i in range(800)) + ' from t', 'select ' + '(' * 150 + '1' + ')' * 150):
            chk.count((d, 'chain', text[:30], len(text)))
            f = probe_case(d, text)
            if f:
                f['text'] = text[:200] + ' ...'
                chk.classify(f, kf_match)
                chk.fail(f)
        # quoted tokens with every short body over the characters that matter to the lexers and the un-escaping actions
        # (backslash, both quotes, back-quote, newline): literal at the end / followed by another literal / as a name

        alpha = ['a', '\\', "'", '"', '`', '\n', ' ']
        bodies = [''.join(t) for n in (0, 1, 2, 3) for t in itertools.product(alpha, repeat=n)]
        if quick:
            bodies = [b for b in bodies if len(b) <= 2] + rng.sample([b for b in bodies if len(b) == 3], 120)
        for b in bodies:
            for q in ("'", '"', '`'):
                for text in ('select %s%s%s' % (q, b, q), 'select * from t where a = %s%s%s and b = \'z\'' % (q, b, q),
                             'select 1 as %s%s%s' % (q, b, q), 'select @%s%s%s' % (q, b, q)):
                    chk.count((d, text))
                    f = probe_case(d, text)
                    if f:
                        chk.classify(f, kf_match)
                        chk.fail(f)
        # arbitrary unicode text
        for i in range(200 if quick else 5000):
            n = rng.randint(0, 30)
            text = ''.join(rng.choice(['a', ' ', "'", '"', '`', '\\', '\n', '(', ')', ',', '.', '*', '=', '@', '?', '-',
                                       '/', ';', '1', 'é', '中', '\U0001f600', '\x00', '%', ':', '#', '|', '>', '<',
                                       'select ', ' from ', 'x']) for _ in range(n))
            chk.count((d, text))
            f = probe_case(d, text)
            if f:
                chk.classify(f, kf_match)
                chk.fail(f)
    # lexer side: every code-point class at every kind of position, regex blow-up growth (tools/props/c02_lexprobe.py)
    c02_lexprobe.run(chk, DIALECTS, kf_match)
    try:
        outs = common.lean_run('LR', lines)
        diverged, first = 0, None
        for (d, case, py), o in zip(metas, outs):
            m = lr.parse_model(o)
            r = lr.compare(d, py, m)
            if r:
                diverged += 1
                if first is None:
                    first = dict(dialect=d, text=case['text'], src=case['src'], why=r, model=o[:300],
                                 impl=dict(kind=py['kind'], err=py.get('err')))
        chk.corr_result('lr', len(lines), diverged, first, dist)
    except Exception as e:
        chk.oblige('corr:lr', 'correspondence', False, 'driver failed: %s' % e)
    # lexer half: regex-level model of Lexer.tokenize against the real lexers
    slylex.stream(chk, 350 if not deep else 6000)
    for (d, case, py) in metas[:2] + metas[-2:]:
        chk.samples.append(dict(dialect=d, src=case['src'], text=case['text'][:200], impl=py['kind']))
    chk.samples.append(dict(theorem='C02_lexer_full c := ∀ s, (lex c s ends in ok or err) ∧ (ok segs → flat segs = s ∧ Chain s.length 0 (tokensFrom 0 segs)) ∧ (err i segs → i < s.length ∧ flat segs = s.take i ∧ s[i] not ignorable ∧ no rule matches at i); proved for every c with allNonNull (kernel-decided on Gen/LexRe_<d>)'))
    chk.samples.append(dict(theorem='C02_driver T := ∀ mode bad toks fuel, (∀ x ∈ toks, x ≠ 0) → match parse T mode bad toks fuel with | .stuck _ => False | .none_ e _ => e ≠ none | .synErr e _ => (∀ i, e.bad = some i → i < toks.length) ∧ (e.bad = none → bad = false) | _ => True'))
    return chk.finish(assumptions=ASSUME)


def replay(path):
    data = json.load(open(path))
    f = data.get('failure')
    if not f:
        print(json.dumps(data, indent=1)[:3000])
        return 1
    if f.get('stream') == 'slylex':
        line, kind = slylex.real(f['dialect'], ''.join(chr(c) for c in f['cps']))
        bad = kind in ('hang', 'exc')
        print('REPRODUCED' if bad else 'not reproduced', line[:300])
        return 1 if bad else 0
    r = c02_lexprobe.replay_failure(f) if f.get('probe') in ('lex-codepoint', 'lex-blowup') else probe_case(f['dialect'], f['text'])
    print('REPRODUCED' if r else 'not reproduced', json.dumps(r or f)[:600])
    return 1 if r else 0
