"""C02 probes on the lexer side (everything in front of / around the LR model: the token regexes, `Lexer.error`, the
illegal-character message, the line bookkeeping, the actions that receive the raw token text).

1. `codepoint_probe`: one character of every Unicode general category (30, read from `unicodedata` on every run) and of
   every *special class* (C0 / C1 controls, DEL, private use, non-characters, unassigned, lone surrogates, characters
   without a name, Unicode white space, `str.splitlines` boundaries, zero-width / bidi controls, look-alike quotes and
   dashes, non-ASCII digits, `isdigit`-only digits, characters whose case mapping changes the length or lands in ASCII,
   full-width ASCII, astral planes ...) is put
     * where it is the FIRST character no lexer rule accepts: start of text, after a token, glued into a word / number /
       variable, after one or several newlines (LF and CRLF), after a token that spans lines, at the end of the text
       (also in front of the trailing blanks / semicolons that parse_sql strips), doubled, followed by another odd one;
     * LATER than an ASCII illegal character, or before it inside a literal / comment / on the previous line (the lines
       the illegal-character message prints);
     * INSIDE tokens (string literals, quoted names, variables, comments) of statements that parse and of statements with
       a syntax error behind them (the text the ParsingException message re-assembles from the tokens),
   for all three dialects.  Oracle (the property's own): `parse_sql` ends with an `ASTNode`, `ParsingException` or
   `sly.lex.LexError` whose `str()` is a non-empty string; for a LexError `error_index` / `text` (the documented attributes
   of the class) point into the stripped text.  The same texts go through `lexer.tokenize` directly (unstripped: the
   end-of-text positions of the white-space classes): tokens or LexError, nothing else.  Every other exception type is a
   failure; the replay is the (dialect, text) pair.
2. `blowup_probe`: catastrophic regex backtracking.  Python's `re` always terminates, but a pattern with overlapping
   alternatives needs time exponential in the input; "parse_sql terminates" is read as "in time polynomial in the size
   of the input".  The verdict is a GROWTH RATIO, not an absolute time: a family `opener + unit * k` is measured at
   growing k (minimum of several repeats, in a child process); it is reported when from one size to the next the time
   grows by more than `RATIO` (>= 4 and far above cubic growth for the step) on two consecutive steps, or on the last
   step measured, while being at least `FLOOR` times the time the same lexer needs for a harmless text of the same
   length in the same process at the same moment (so a loaded machine scales both sides).  A running `re` match cannot
   be interrupted from Python: the child announces every measurement before it starts, the parent kills it when nothing
   arrives for `BACKSTOP_S` (the previous size of that family took < `STOP_S`, i.e. the step grew by > BACKSTOP_S/STOP_S)
   and names the case.
"""
import json, os, re, selectors, subprocess, sys, time, unicodedata

# ------------------------------------------------------------------------------------------------ code point classes
CATEGORIES = ['Lu', 'Ll', 'Lt', 'Lm', 'Lo', 'Mn', 'Mc', 'Me', 'Nd', 'Nl', 'No', 'Pc', 'Pd', 'Ps', 'Pe', 'Pi', 'Pf', 'Po',
              'Sm', 'Sc', 'Sk', 'So', 'Zs', 'Zl', 'Zp', 'Cc', 'Cf', 'Cs', 'Co', 'Cn']


def _r(a, b=None):
    return (a, a if b is None else b)


NONCHAR = [_r(0xFDD0, 0xFDEF)] + [_r(p * 0x10000 + 0xFFFE, p * 0x10000 + 0xFFFF) for p in range(17)]

# special classes: name -> list of inclusive code point ranges
SPECIAL = {
    'c0-control': [_r(0x00, 0x08), _r(0x0B, 0x0C), _r(0x0E, 0x1F)],
    'del': [_r(0x7F)],
    'c1-control': [_r(0x80, 0x9F)],
    'cp1252-quote-read-as-latin1': [_r(0x91, 0x94), _r(0x96, 0x97), _r(0x85)],
    'private-use-bmp': [_r(0xE000, 0xF8FF)],
    'private-use-astral': [_r(0xF0000, 0xFFFFD), _r(0x100000, 0x10FFFD)],
    'non-character': NONCHAR,
    'surrogate-high': [_r(0xD800, 0xDBFF)],
    'surrogate-low': [_r(0xDC00, 0xDFFF)],
    'surrogateescape-byte': [_r(0xDC80, 0xDCFF)],
    'unicode-space': [_r(0x1C, 0x1F), _r(0x85), _r(0xA0), _r(0x1680), _r(0x2000, 0x200A), _r(0x2028, 0x2029), _r(0x202F),
                      _r(0x205F), _r(0x3000)],
    'splitlines-boundary': [_r(0x0B, 0x0C), _r(0x1C, 0x1E), _r(0x85), _r(0x2028, 0x2029)],
    'zero-width-bidi-bom': [_r(0xAD), _r(0x61C), _r(0x180E), _r(0x200B, 0x200F), _r(0x202A, 0x202E), _r(0x2060, 0x2064),
                            _r(0x2066, 0x2069), _r(0xFEFF), _r(0xFFF9, 0xFFFB)],
    'look-alike-quote': [_r(0xB4), _r(0x2B9, 0x2BC), _r(0x2018, 0x201F), _r(0x2032, 0x2036), _r(0x275B, 0x275E), _r(0xFF02),
                         _r(0xFF07), _r(0xFF40), _r(0x60), _r(0xAB), _r(0xBB)],
    'look-alike-dash-operator': [_r(0x2010, 0x2015), _r(0x2212), _r(0xFF0D), _r(0xD7), _r(0xF7), _r(0x2260), _r(0x2264, 0x2265),
                                 _r(0xFF1D), _r(0x2217), _r(0xFF0C), _r(0xFF1B), _r(0x37E)],
    'non-ascii-decimal-digit': [_r(0x660, 0x669), _r(0x6F0, 0x6F9), _r(0x966, 0x96F), _r(0xFF10, 0xFF19), _r(0x1D7CE, 0x1D7FF)],
    'isdigit-not-decimal': [_r(0xB2, 0xB3), _r(0xB9), _r(0x2070), _r(0x2074, 0x2079), _r(0x2080, 0x2089), _r(0x2460, 0x2468),
                            _r(0x1369, 0x1371)],
    'numeric-not-digit': [_r(0xBC, 0xBE), _r(0x2150, 0x215F), _r(0x2160, 0x2188), _r(0x3007), _r(0x3021, 0x3029), _r(0x4E00),
                          _r(0x10107, 0x10133)],
    'case-map-changes-length': [_r(0xDF), _r(0x130), _r(0x149), _r(0x1F0), _r(0x390), _r(0x3B0), _r(0x587), _r(0x1E96, 0x1E9A),
                                _r(0x1E9E), _r(0xFB00, 0xFB06), _r(0xFB13, 0xFB17)],
    'case-folds-into-ascii': [_r(0x17F), _r(0x212A), _r(0x130, 0x131)],
    'fullwidth-ascii': [_r(0xFF01, 0xFF5E)],
    'combining-variation': [_r(0x300, 0x36F), _r(0x20D0, 0x20F0), _r(0xFE00, 0xFE0F), _r(0xE0100, 0xE01EF), _r(0x1F3FB, 0x1F3FF)],
    'astral-letter-symbol': [_r(0x1F600, 0x1F64F), _r(0x20000, 0x2A6DF), _r(0x1D400, 0x1D7CB), _r(0x10000, 0x1005D),
                             _r(0x1F1E6, 0x1F1FF), _r(0xE0001), _r(0xE0020, 0xE007F)],
    'last-code-points': [_r(0x10FFFD, 0x10FFFF), _r(0xFFFC, 0xFFFF), _r(0xFF), _r(0x100), _r(0xFFFF, 0x10000), _r(0x7FF, 0x800)],
    'ascii-unknown-to-the-grammars': [_r(ord(c)) for c in '#!^~$\\{}[]|&:'],
}

_TABLE = {}


def category_table():
    """general category -> list of inclusive ranges, from the interpreter's Unicode database"""
    if not _TABLE:
        start, cur = 0, unicodedata.category(chr(0))
        for cp in range(1, 0x110001):
            c = unicodedata.category(chr(cp)) if cp < 0x110000 else None
            if c != cur:
                _TABLE.setdefault(cur, []).append((start, cp - 1))
                start, cur = cp, c
        nc = set(cp for a, b in NONCHAR for cp in range(a, b + 1))
        un = []
        for a, b in _TABLE['Cn']:
            s = None
            for cp in range(a, b + 1):
                if cp in nc:
                    if s is not None:
                        un.append((s, cp - 1))
                        s = None
                elif s is None:
                    s = cp
            if s is not None:
                un.append((s, b))
        SPECIAL['unassigned-bmp'] = [r for r in un if r[1] < 0x10000]
        SPECIAL['unassigned-astral'] = [r for r in un if r[0] >= 0x10000]
    return _TABLE


def _pick(rng, ranges):
    a, b = rng.choice(ranges)
    return rng.randint(a, b)


def _restrict(ranges, lo, hi):
    return [(max(a, lo), min(b, hi)) for a, b in ranges if max(a, lo) <= min(b, hi)]


def class_samples(rng, extra):
    """yields (class name, lead character, [further characters]); the lead of a category is its first non-ASCII member
    (the same on every run), the lead of a special class and the further characters are drawn per run"""
    tab = category_table()
    for cat in CATEGORIES:
        ranges = tab.get(cat, [])
        non_ascii = _restrict(ranges, 0x80, 0x10FFFF)
        if not non_ascii:
            continue
        more = [_pick(rng, non_ascii) for _ in range(extra)]
        astral = _restrict(ranges, 0x10000, 0x10FFFF)
        if astral:
            more.append(_pick(rng, astral))
        yield 'category-' + cat, chr(non_ascii[0][0]), [chr(c) for c in more]
    for name in sorted(SPECIAL):
        ranges = SPECIAL[name]
        if not ranges:
            continue
        yield name, chr(_pick(rng, ranges)), [chr(_pick(rng, ranges)) for _ in range(extra)]
    # characters without a name, whatever their category
    un = []
    while len(un) < extra + 1:
        cp = rng.randrange(0x80, 0x110000)
        if unicodedata.name(chr(cp), None) is None:
            un.append(chr(cp))
    yield 'unnamed', un[0], un[1:]


# ------------------------------------------------------------------------------------------------ positions
C = '\x00C\x00'   # placeholder

FIRST = [   # the character is the first one no rule accepts (when it is not accepted itself)
    ('start', C), ('start', C + ' select 1'), ('start', C + 'select 1'), ('start', '\t \r' + C), ('start', '  ' + C + C),
    ('after-token', 'select 1 ' + C), ('after-token', 'select a ' + C + ' b from t'),
    ('after-token', 'SELECT name FROM people WHERE name = ' + C + 'Ann' + C), ('after-token', 'select (' + C + ')'),
    ('after-token', 'select a from t where b in (1, ' + C + ')'), ('after-token', 'select a from t order by ' + C),
    ('glued', 'select a' + C + 'b from t'), ('glued', 'select 1' + C), ('glued', 'select 1.' + C + '5'),
    ('glued', 'select @' + C), ('glued', 'select @a' + C), ("glued", "select 'a'" + C + "'b'"), ('glued', 'select a.' + C),
    ('glued', 'select `a`' + C + ' from t'), ('glued', 'sel' + C + 'ect 1'), ('glued', 'select 1 /* c */' + C),
    ('after-newline', 'select 1\n' + C), ('after-newline', 'select a,\n  ' + C + ' from t'),
    ('after-newline', 'SELECT 1;\n\nSELECT ' + C + ' FROM t'), ('after-newline', 'select a\r\nfrom t\r\nwhere ' + C + ' = 1'),
    ('after-newline', '\n\n' + C), ('after-newline', 'select a\nfrom t\nwhere a = 1\nand b = 2\nand ' + C + ' = 3\norder by a'),
    ('after-newline', 'select a\n\n\n\n' + C + '\n\n\nfrom t'),
    ('after-multiline-token', "select 'x\ny' , " + C), ('after-multiline-token', 'select /* x\ny\n */ ' + C),
    ('after-multiline-token', 'select 1 -- note\n' + C), ('after-multiline-token', 'select `a\nb` ' + C),
    ('after-multiline-token', 'select a is\nnot null, ' + C), ('after-multiline-token', "select @'a\nb', \"c\n\nd\"\n, " + C),
    ('end-of-text', 'select 1 ' + C + ';'), ('end-of-text', 'select 1 ' + C + ' \n'), ('end-of-text', 'select 1\n' + C + '\n'),
    ('end-of-text', 'select 1 from t where a = 1 and' + C), ('end-of-text', 'select 1 ' + C + ' ; ;\t\n;'),
    ('end-of-text', "CREATE MODEL m FROM db (SELECT * FROM t) PREDICT y USING note = 'ok' " + C),
    ('repeated', 'select ' + C + C), ('repeated', 'select ' + C + ' ' + C), ('repeated', C + '\n' + C),
    ('repeated', 'select ' + C + '\x92'), ('repeated', 'select ' + C + ' from t'), ('repeated', 'select ' + C + '#'),
]
LATER = [   # an ASCII illegal character comes first; the character is in the text around it (the lines the message prints)
    ('after-illegal', 'select # ' + C), ('after-illegal', 'select #' + C), ('after-illegal', 'select 1 #\n' + C),
    ('after-illegal', 'select \x00' + C + ' from t'),
    ('same-line-before', "select 'x" + C + "y' #"), ('same-line-before', 'select "x' + C + 'y" #'),
    ('same-line-before', 'select `x' + C + 'y` #'), ('same-line-before', 'select /* ' + C + ' */ 1 #'),
    ('same-line-before', "select @'a" + C + "' #"), ('same-line-before', "select '" + C + "' as `" + C + "` from t where # = 1"),
    ('previous-line', 'select 1 -- ' + C + '\n#'), ('previous-line', "select 'x" + C + "y',\n #"),
    ('previous-line', "select '" + C + "\n" + C + "' #"), ('previous-line', 'select /* ' + C + '\n' + C + ' */\n 1,\n # from t'),
    ('previous-line', 'select `' + C + '`\r\n, #'),
]
INSIDE = [   # the character is inside a token: statement parses or a syntax error follows (ParsingException text)
    ('in-literal', "select 'x" + C + "y'"), ('in-literal', 'select "x' + C + 'y"'), ('in-literal', "select '" + C + "'"),
    ('in-literal', "select * from t where a = '" + C + "' and b = \"" + C + '"'), ('in-literal', "select '" + C + "' 'b'"),
    ('in-literal', "select '\\" + C + "'"), ('in-literal', "select 'a''" + C + "'"), ('in-literal', "insert into t values ('" + C + "')"),
    ('in-literal', "select * from t limit '" + C + "'"), ('in-literal', "set names '" + C + "'"),
    ('in-literal', "create model m predict y using k = '" + C + "'"), ('in-literal', "select a from t where a like '%" + C + "%'"),
    ('in-name', 'select `x' + C + 'y` from t'), ('in-name', 'select 1 as `' + C + '`'), ('in-name', 'use `' + C + '`'),
    ('in-name', 'select * from `' + C + '`.`' + C + '`'), ('in-name', 'select cast(a as `' + C + '`)'),
    ('in-name', 'select `' + C + '`(1)'), ('in-name', 'select "' + C + '".* from t'),
    ('in-variable', "select @'a" + C + "'"), ('in-variable', 'select @`a' + C + '`'), ('in-variable', 'select @@"a' + C + '"'),
    ('in-comment', 'select 1 /* ' + C + ' */'), ('in-comment', 'select 1 -- ' + C), ('in-comment', 'select 1 -- ' + C + '\n'),
    ('in-comment', '/* ' + C + ' */'), ('in-comment', '-- ' + C + '\nselect 1'),
    ('before-syntax-error', "select 'x" + C + "y' from from"), ('before-syntax-error', "select 'x" + C + "y',\n 1 from from t"),
    ('before-syntax-error', 'select `x' + C + 'y` `z` `w`'), ('before-syntax-error', "select '" + C + "\n" + C + "' from"),
    ('before-syntax-error', "select '" + C + "' from t where"), ('before-syntax-error', 'select /* ' + C + ' */ from'),
    ('before-syntax-error', "select @'a" + C + "' @'b" + C + "'"), ('before-syntax-error', '`' + C + '`'),
    ('before-syntax-error', "select a from t where a = '" + C + "'\n\nand and"),
]
SHAPES = [('first', k, s) for k, s in FIRST] + [('later', k, s) for k, s in LATER] + [('inside', k, s) for k, s in INSIDE]


def safe(s):
    """text that can be written as UTF-8 (lone surrogates as \\udXXX escapes)"""
    return s.encode('utf-8', 'backslashreplace').decode('utf-8') if isinstance(s, str) else s


def _describe(ch):
    return 'U+%04X %s %s' % (ord(ch), unicodedata.category(ch), unicodedata.name(ch, '<unnamed>'))


_LEX = {}


def _lexer(dialect):
    if dialect not in _LEX:
        from mindsdb_sql import get_lexer_parser
        _LEX[dialect] = get_lexer_parser(dialect)[0]
    return _LEX[dialect]


def _shape_of(msg):
    """message with the character / position specific parts blanked (one class per defect, not per character)"""
    return re.sub(r'N+', 'N', re.sub(r"\\[uUx][0-9a-fA-F]+|\d+|[^\x20-\x7e]", 'N', msg))


def _crash(e, dialect, text, stage):
    from tools.props import c02
    s = c02.site_of(e)
    try:
        m = c02.msg_of(e)
    except Exception as e2:
        m = '<str() of the exception raised %s>' % type(e2).__name__
    return dict(desc='%s raised %s (%s) in %s:%s' % (stage, s['exc'], m[:80], s['file'], s['func']), site=s, msg=m,
                **{'class': '%s/%s/%s/%s' % (s['exc'], s['file'], s['func'], _shape_of(m)[:60])})


def _bad_error(e, stripped):
    """the documented shape of the two error types: a non-empty message; LexError.error_index / .text locate the character"""
    from sly.lex import LexError
    try:
        m = str(e)
    except Exception as e2:
        return 'str() of the %s raised %s: %s' % (type(e).__name__, type(e2).__name__, e2)
    if not isinstance(m, str) or m == '':
        return 'the %s has an empty message' % type(e).__name__
    if isinstance(e, LexError) and stripped is not None:
        i, t = getattr(e, 'error_index', None), getattr(e, 'text', None)
        if not isinstance(i, int) or isinstance(i, bool) or not 0 <= i < len(stripped) or t != stripped[i:]:
            return 'LexError.error_index=%r / .text=%r do not locate a character of the text (length %d)' % (
                i, t if t is None else t[:20], len(stripped))
    return None


def probe_text(dialect, text):
    """the oracle of this module on one (dialect, text); returns a failure dict or None"""
    from mindsdb_sql import parse_sql
    from mindsdb_sql.exceptions import ParsingException
    from mindsdb_sql.parser.ast.base import ASTNode
    from sly.lex import LexError
    f, stripped, drained = None, re.sub(r'[\s;]+$', '', text), True
    try:
        r = parse_sql(text, dialect)
        if not isinstance(r, ASTNode):
            f = dict(desc='parse_sql returned a non-tree value %r' % type(r).__name__, site=dict(exc='non-tree', file='', func=''),
                     **{'class': 'non-tree'})
    except (ParsingException, LexError) as e:
        drained = isinstance(e, LexError)
        why = _bad_error(e, stripped)
        if why:
            f = dict(desc='parse_sql: ' + why, site=dict(exc='bad-error-object', file='', func=type(e).__name__), msg=why,
                     **{'class': 'bad-error-object/%s/%s' % (type(e).__name__, _shape_of(re.sub(r"=.*? (?=/|do )", '=N ', why))[:50])})
    except Exception as e:
        f = _crash(e, dialect, text, 'parse_sql')
    if f is None and (stripped != text or not drained):
        # the lexer alone on the unstripped text: the end-of-text positions of the classes parse_sql strips, and the rest of a
        # text whose parse stopped at a syntax error (when the parse ended with a tree or a LexError the lexer has already
        # been driven over exactly this text)
        try:
            for tok in _lexer(dialect).tokenize(text):
                if not (isinstance(tok.type, str) and isinstance(tok.value, str) and isinstance(tok.index, int)
                        and isinstance(tok.lineno, int)):
                    f = dict(desc='lexer.tokenize yielded a malformed token %r' % (tok,), site=dict(exc='bad-token', file='', func=''),
                             **{'class': 'bad-token'})
                    break
        except LexError as e:
            why = _bad_error(e, text)
            if why:
                f = dict(desc='lexer.tokenize: ' + why, site=dict(exc='bad-error-object', file='', func='LexError'), msg=why,
                         **{'class': 'bad-error-object/tokenize/%s' % _shape_of(re.sub(r"=.*? (?=/|do )", '=N ', why))[:50]})
        except Exception as e:
            f = _crash(e, dialect, text, 'lexer.tokenize')
            f['class'] = 'tokenize/' + f['class']
    if f is None:
        return None
    f = {k: safe(v) for k, v in f.items()}
    f.update(dialect=dialect, probe='lex-codepoint', text=safe(text), text_json=json.dumps(text))
    return f


def codepoint_probe(chk, dialects, quick, kf_match):
    from tools.harness import common
    rng = common.rng_for(chk.seed, 'C02/codepoints')
    dist, n, nfail = {}, 0, 0
    for cname, lead, more in class_samples(rng, 2 if quick else 12):
        plan = [(lead, SHAPES)]
        for ch in more:
            if quick:
                plan.append((ch, rng.sample(FIRST_SHAPES, 5) + rng.sample(OTHER_SHAPES, 4)))
            else:
                plan.append((ch, SHAPES))
        for ch, shapes in plan:
            for pos, kind, shape in shapes:
                text = shape.replace(C, ch)
                for d in dialects:
                    chk.count((d, 'cp', text))
                    n += 1
                    try:
                        with common.time_limit(60):
                            f = probe_text(d, text)
                    except common.HangDetected:
                        f = dict(desc='parse_sql / lexer.tokenize did not return within 60 s (hang)', dialect=d, probe='lex-codepoint',
                                 text=safe(text), text_json=json.dumps(text), site=dict(exc='hang', file='', func='tokenize'),
                                 msg='hang', **{'class': 'hang/lexer'})
                    key = '%s/%s/%s' % (d, pos, 'crash' if f else 'ok')
                    dist[key] = dist.get(key, 0) + 1
                    if f:
                        nfail += 1
                        f.update(char=_describe(ch), char_class=cname, position='%s/%s' % (pos, kind))
                        chk.classify(f, kf_match)
                        chk.fail(f)
    return dict(cases=n, failures=nfail, classes=len(CATEGORIES) + len(SPECIAL) + 1, shapes=len(SHAPES), distribution=dist)


FIRST_SHAPES = [s for s in SHAPES if s[0] == 'first']
OTHER_SHAPES = [s for s in SHAPES if s[0] != 'first']


# ------------------------------------------------------------------------------------------------ regex blow-up
OPENERS = ["'", '"', '`', "@'", '@"', '@`', '', '/*', '--', "select '", 'select "', "select 'a''", "x'", '0', '1.', 'a', 'is', 'not',
           'partition']
UNITS = ['\\\\', '\\', "''", '""', "\\'", '\\"', '``', "'\\", 'a', '1', '1.', '.1', '$', '_', '@', '*/', '/*', '-', '\\a', "\\''", ' ',
         '\n', '\\\n', 'e', '1e', '0x', '\xa0', 'é', '\t ', ' \n']
SIZES = (12, 16, 20, 24, 28, 32, 40, 48, 64)
QUICK_SIZES = (12, 16, 20, 24, 28, 32)   # steps of 4 units: a 2^k family grows 16x per step, never from < STOP_S to > BACKSTOP_S
RATIO = 4.0          # growth of the time from one size to the next that counts as a blow-up (sizes grow by <= 1.5x)
FLOOR = 100.0        # ... when the time is also this many times the time for a harmless text of the same length
STOP_S = 0.3         # a family is not measured at larger sizes once one measurement took this long
BACKSTOP_S = 40.0    # silence after which the child is killed

CHILD = r'''
import sys, time, json
sys.path.insert(0, %(repo)r)
from mindsdb_sql import get_lexer_parser
job = json.load(open(%(cases)r))
lexers, ref = {}, {}
def lex(d, text):
    t = time.perf_counter()
    try:
        for _ in lexers[d].tokenize(text):
            pass
    except Exception:
        pass
    return time.perf_counter() - t
def best(d, text, always=False, floor=0.0):
    # noise only ever adds time: one low measurement is conclusive, a high one is repeated and the minimum kept
    t = lex(d, text)
    n = 1
    while n < 3 and t < 0.05 and (always or t >= floor):
        t = min(t, lex(d, text))
        n += 1
    return t
for d, o, u in job['families']:
    if d not in lexers:
        lexers[d] = get_lexer_parser(d)[0]
        lex(d, 'select a from t')
    for k in job['sizes']:
        text = o + u * k
        if len(text) > 400:
            break
        if (d, len(text)) not in ref:
            ref[d, len(text)] = best(d, ('ab ' * len(text))[:len(text)], always=True)
        r = ref[d, len(text)]
        print('START ' + json.dumps([d, o, u, k]), flush=True)
        t = best(d, text, floor=5 * r)
        print('DONE %%.7f %%.7f' %% (t, r), flush=True)
        if t > job['stop']:
            break
print('END', flush=True)
'''


def step_limit(len1, len2):
    return max(RATIO, 1.5 * (float(len2) / max(len1, 1)) ** 3)


def verdict(points):
    """points: [(k, length, seconds or None when killed, harmless seconds)] of one family, growing k.
    Returns (k1, k2, ratio, floor ratio) of the step that shows the blow-up, or None"""
    hits = []
    for (k1, l1, t1, r1), (k2, l2, t2, r2) in zip(points, points[1:]):
        if t2 is None:
            hits.append((k1, k2, float('inf'), float('inf')))
            continue
        ratio = t2 / max(t1, 1e-7)
        if ratio >= step_limit(l1, l2) and t2 >= FLOOR * max(r2, 1e-6):
            hits.append((k1, k2, round(ratio, 1), round(t2 / max(r2, 1e-6), 1)))
    for h in hits:
        later = [x for x in hits if x[0] == h[1]]
        if later or h[1] == points[-1][0]:
            return h
    return None


def measure(families, sizes, stop_after=None):
    """runs the child over the families; returns {(d, o, u): points} and the number of measurements.
    stop_after: give up once that many families show a blow-up (keeps a failing run short)"""
    from tools import framework
    tmp = os.path.join(framework.LEAN, '.lake', 'c02_blowup_cases_%d.json' % os.getpid())
    os.makedirs(os.path.dirname(tmp), exist_ok=True)
    out, measured, rest, hits, last, kills = {}, 0, list(families), 0, None, 0
    try:
        while rest:
            json.dump(dict(families=rest, sizes=list(sizes), stop=STOP_S), open(tmp, 'w'))
            p = subprocess.Popen([sys.executable, '-c', CHILD % dict(repo=framework.REPO, cases=tmp)], stdout=subprocess.PIPE,
                                 stderr=subprocess.DEVNULL, bufsize=0, env=dict(os.environ, PYTHONHASHSEED='0'))
            sel = selectors.DefaultSelector()
            sel.register(p.stdout, selectors.EVENT_READ)
            cur, killed, buf, eof, ended = None, False, b'', False, False
            while not eof and not killed and not ended:
                # own line buffer: select() must never be asked while complete lines are still waiting in a Python-side buffer
                while b'\n' not in buf:
                    if not sel.select(BACKSTOP_S if cur is not None else 4 * BACKSTOP_S):
                        p.kill()
                        killed = True
                        break
                    chunk = os.read(p.stdout.fileno(), 65536)
                    if not chunk:
                        eof = True
                        break
                    buf += chunk
                if killed or (eof and b'\n' not in buf):
                    break
                line, buf = buf.split(b'\n', 1)
                line = line.decode('utf-8', 'replace')
                if line.startswith('START '):
                    cur = json.loads(line[6:])
                    if last is not None and last != tuple(cur[:3]) and verdict(out.get(last, [])):
                        hits += 1
                        if stop_after is not None and hits >= stop_after:
                            p.kill()
                            p.wait()
                            sel.close()
                            return out, measured
                    last = tuple(cur[:3])
                elif line.startswith('DONE ') and cur is not None:
                    t_, r_ = line[5:].split()
                    d, o, u, k = cur
                    out.setdefault((d, o, u), []).append((k, len(o + u * k), float(t_), float(r_)))
                    measured += 1
                    cur = None
                elif line == 'END':
                    ended = True
            p.wait()
            sel.close()
            if killed and cur is not None:
                d, o, u, k = cur
                out.setdefault((d, o, u), []).append((k, len(o + u * k), None, 0.0))
                hits, last, kills = hits + 1, None, kills + 1
                # a child that had to be killed costs BACKSTOP_S: whatever the tier, six of them settle the verdict
                if (stop_after is not None and hits >= stop_after) or kills >= 6:
                    return out, measured
                i = rest.index([d, o, u]) if [d, o, u] in rest else rest.index((d, o, u))
                rest = rest[i + 1:]
            elif ended:
                rest = []
            else:
                raise RuntimeError('blow-up child ended unexpectedly (killed=%s eof=%s)' % (killed, eof))
    finally:
        if os.path.exists(tmp):
            os.remove(tmp)
    return out, measured


def _blow_failure(d, o, u, points, hit):
    k1, k2, ratio, fl = hit
    text = o + u * k2
    tab = ', '.join('k=%d: %s' % (k, 'killed after %ds' % BACKSTOP_S if t is None else '%.4fs (harmless text of that length %.5fs)' % (t, r))
                    for k, l, t, r in points)
    why = ('lexing time of %r + %r * k grows by a factor %s from k=%d to k=%d (%s times a harmless text of the same length): '
           'exponential regex backtracking; %s' % (o, u, ratio, k1, k2, fl, tab))
    return dict(desc=safe(why), dialect=d, text=safe(text), text_json=json.dumps(text), probe='lex-blowup', family=[d, o, u],
                site=dict(exc='regex-blowup', file='', func=''), msg=safe(why), points=points,
                **{'class': 'regex-blowup/%s' % json.dumps([o, u])})


def blowup_probe(chk, dialects, quick, kf_match, max_fail=6):
    fams = [[d, o, u] for d in dialects for o in OPENERS for u in UNITS]
    out, measured = measure(fams, QUICK_SIZES if quick else SIZES, stop_after=max_fail if quick else None)
    nfail, worst = 0, (0.0, None)
    for (d, o, u), points in out.items():
        chk.count((d, 'blowup', o, u))
        for k, l, t, r in points:
            if t is not None and r > 0 and t / r > worst[0]:
                worst = (round(t / r, 1), [d, o, u, k, round(t, 5)])
        hit = verdict(points)
        if hit:
            nfail += 1
            if nfail <= max_fail:
                f = _blow_failure(d, o, u, points, hit)
                chk.classify(f, kf_match)
                chk.fail(f)
    return dict(families=len(fams), measurements=measured, failures=nfail, worst_vs_harmless=worst, ratio=RATIO, floor=FLOOR)


# ------------------------------------------------------------------------------------------------ entry points
def run(chk, dialects, kf_match):
    """both probes; called by tools/props/c02.py.  A probe that cannot run at all is a broken obligation (never silently skipped)"""
    quick = chk.tier == 'quick' and not chk.broken()
    t0 = time.time()
    try:
        cp = codepoint_probe(chk, dialects, quick, kf_match)
        cp['wall_s'] = round(time.time() - t0, 1)
    except Exception as e:
        import traceback
        cp = dict(error=traceback.format_exc()[-800:])
        chk.oblige('probe:lex-codepoints', 'probe', False, 'probe failed to run: %s' % cp['error'])
    t1 = time.time()
    try:
        bl = blowup_probe(chk, dialects, quick, kf_match)
        bl['wall_s'] = round(time.time() - t1, 1)
    except Exception as e:
        import traceback
        bl = dict(error=traceback.format_exc()[-800:])
        chk.oblige('probe:lex-blowup', 'probe', False, 'probe failed to run: %s' % bl['error'])
    chk.samples.append(dict(lex_codepoint_probe=cp, lex_blowup_probe=bl))
    return cp, bl


def replay_failure(f):
    """re-run one failure of this module; returns the failure dict again or None"""
    text = json.loads(f['text_json']) if 'text_json' in f else f['text']
    if f.get('probe') == 'lex-blowup':
        d, o, u = f['family']
        out, _ = measure([[d, o, u]], SIZES)
        points = out.get((d, o, u), [])
        hit = verdict(points)
        print('growth of the lexing time for %r + %r * k (%s): %s' % (o, u, d, [(k, t) for k, l, t, r in points]))
        return _blow_failure(d, o, u, points, hit) if hit else None
    return probe_text(f['dialect'], text)
