"""C02 probes on the lexer side (outside the LR model):

* `codepoint_cases`: texts holding one character of every code-point class (C0 / C1 controls, DEL, no-break space, line / paragraph
  separators, combining marks, private use, non-characters, unassigned, lone surrogates, astral planes, look-alike quotes ...)
  at the start, after a token, inside a literal, inside a comment, on a later line - the characters the lexers cannot
  tokenise must give `LexError`, never an internal error while the message is built.
* `blowup_probe`: catastrophic regex backtracking.  Python's `re` always terminates, but a pattern with overlapping
  alternatives needs time exponential in the input; "parse_sql terminates" is read as "within a time that is reasonable
  for the size of the input": a text of at most a few hundred characters that keeps the lexer busy for more than
  `LIMIT_S` seconds is reported.  A running `re` match cannot be interrupted from Python, so the measurements run in a
  child process that announces each case before it starts; the parent kills it on timeout and names the last case.
"""
import json, os, subprocess, sys, time, unicodedata

LIMIT_S = 8.0

CODEPOINTS = [
    '\x00', '\x01', '\x08', '\x0b', '\x0c', '\x1b', '\x1f', '\x7f',                  # C0 controls, DEL
    '\x80', '\x85', '\x8d', '\x91', '\x92', '\x9f',                                     # C1 controls (cp1252 quotes read as latin-1)
    '\xa0', '\xad', ' ', ' ', '​', '‍', '﻿', '‮',       # nbsp, soft hyphen, separators, zero width, BOM, RLO
    '́', '⃣',                                                                # combining marks
    '‘', '’', '“', '”', '´', '＇', '＂',             # typographic / full-width quotes
    '', '', '\U000f0000', '\U0010fffd',                                    # private use
    '﷐', '￾', '￿', '\U0001fffe', '\U0010ffff',                          # non-characters
    '͸', '԰', '\U000e0080', '\U0003fffd',                                    # unassigned
    '\ud800', '\udbff', '\udc00', '\udfff',                                            # lone surrogates
    '\U0001f600', '\U00020000', '中', 'é', 'ß', 'ﬁ',                # astral, CJK, letters with odd case maps
    '#', '!', '^', '~', '$', '\\', '{', '}', '[', ']', '|', '&', ':',                   # ASCII the grammars may not know
]

SHAPES = [
    '%s', 'select %s', 'select 1 %s', 'select a%sb from t', "select 'x%sy'", 'select "x%sy"', 'select `x%sy` from t',
    'select 1 -- c %s\n', 'select 1 /* %s */', 'select 1\n\n  , %s from t', 'select 1;%s', '%sselect 1', 'select @%s',
    "select 'a' %s 'b'", 'create model m from db (select %s) predict y', 'select 1 from t where a = %s and b = 2',
    'select a\r\nfrom t\r\nwhere %s = 1',
]


def codepoint_cases(rng, quick):
    cps = CODEPOINTS if not quick else rng.sample(CODEPOINTS, 28)
    shapes = SHAPES if not quick else rng.sample(SHAPES, 9)
    for c in cps:
        for s in shapes:
            yield s % c
    # a few random unassigned / unnamed code points per run
    n = 0
    while n < (40 if quick else 400):
        cp = rng.randrange(0x80, 0x110000)
        ch = chr(cp)
        if unicodedata.name(ch, None) is None:
            n += 1
            yield rng.choice(SHAPES) % ch


OPENERS = ["'", '"', '`', "@'", '@"', '@`', '', '/*', '--', "select '", 'select "', "select 'a''", "x'", '0', '1.', 'a']
UNITS = ['\\\\', '\\', "''", '""', "\\'", '\\"', '``', "'\\", 'a', '1', '1.', '.1', '$', '_', '@', '*/', '/*', '-', '\\a', "\\''", ' ',
         '\n', '\\\n', 'e', '1e', '0x']
SIZES = (14, 20, 26, 32)

CHILD = r'''
import sys, time, json
sys.path.insert(0, %(repo)r)
from mindsdb_sql import get_lexer_parser
cases = json.load(open(%(cases)r))
lexers = {}
for d, text in cases:
    if d not in lexers:
        lexers[d] = get_lexer_parser(d)[0]
    print('START ' + json.dumps([d, text]), flush=True)
    t = time.time()
    try:
        for _ in lexers[d].tokenize(text):
            pass
    except Exception:
        pass
    print('DONE %%.4f' %% (time.time() - t), flush=True)
'''


def blowup_probe(chk, dialects, quick, max_fail=3):
    """returns list of failures (dialect, text, seconds or None for killed)"""
    from tools import framework
    cases = []
    for d in dialects:
        for o in OPENERS:
            for u in UNITS:
                for k in (SIZES if not quick else SIZES[1::2]):
                    text = o + u * k
                    if len(text) <= 400:
                        cases.append((d, text))
    tmp = os.path.join(framework.LEAN, '.lake', 'c02_blowup_cases.json')
    os.makedirs(os.path.dirname(tmp), exist_ok=True)
    failures, measured, slowest = [], 0, (0.0, None)
    rest = cases
    while rest and len(failures) < max_fail:
        json.dump(rest, open(tmp, 'w'))
        p = subprocess.Popen([sys.executable, '-c', CHILD % dict(repo=framework.REPO, cases=tmp)], stdout=subprocess.PIPE,
                             stderr=subprocess.DEVNULL, bufsize=0, env=dict(os.environ, PYTHONHASHSEED='0'))
        import selectors
        sel = selectors.DefaultSelector()
        sel.register(p.stdout, selectors.EVENT_READ)
        cur, started, idx, killed, buf, eof = None, None, 0, False, b'', False
        while not eof and not killed:
            # own line buffer: select() must never be asked while complete lines are still waiting in a Python-side buffer
            while b'\n' not in buf:
                timeout = 120 if cur is None else max(0.1, LIMIT_S - (time.time() - started))
                if not sel.select(timeout):
                    if cur is not None:
                        p.kill()
                        failures.append(dict(dialect=cur[0], text=cur[1], seconds=None))
                        killed = True
                    else:
                        p.kill()
                        eof = True
                    break
                chunk = os.read(p.stdout.fileno(), 65536)
                if not chunk:
                    eof = True
                    break
                buf += chunk
            if killed or (eof and b'\n' not in buf):
                break
            line, buf = buf.split(b'\n', 1)
            line = line.decode('utf-8', 'replace')
            if line.startswith('START '):
                cur, started = json.loads(line[6:]), time.time()
            elif line.startswith('DONE '):
                s_ = float(line[5:])
                measured += 1
                idx += 1
                if s_ > slowest[0]:
                    slowest = (s_, cur)
                if s_ > LIMIT_S / 2:
                    failures.append(dict(dialect=cur[0], text=cur[1], seconds=s_))
                cur = None
        p.wait()
        if killed:
            # skip every remaining case with the same opener + unit (they only get worse), continue with the others
            d0, t0 = failures[-1]['dialect'], failures[-1]['text']
            rest = [c for c in rest[idx + 1:] if not (c[0] == d0 and _family(c[1]) == _family(t0))]
        else:
            rest = []
    return failures, measured, slowest


def _family(text):
    for o in sorted(OPENERS, key=len, reverse=True):
        if text.startswith(o):
            body = text[len(o):]
            for u in sorted(UNITS, key=len, reverse=True):
                if body and body == u * (len(body) // len(u)) and len(body) % len(u) == 0:
                    return (o, u)
    return text[:6]
