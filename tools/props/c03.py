"""C03 — operators group by standard SQL precedence and associativity in every dialect."""
import itertools, json, re, sqlite3, sys
from tools.harness import common
from tools.harness.common import DIALECTS

ID = 'C03'
TARGETS = ['MindsVerif.Props.C03', 'MindsVerif.Props.C03B']
THEOREMS = ['MindsVerif.Props.C03.' + n for n in (
    'C03_sqlite', 'C03_mysql', 'C03_mindsdb', 'C03_generic', 'phi3a_sqlite', 'phi3a_mysql', 'phi3a_mindsdb',
    'phi3b_sqlite', 'phi3b_mysql', 'phi3b_mindsdb', 'ops_present',
    'roundtrip_sqlite', 'roundtrip_mysql', 'roundtrip_mindsdb')] + ['MindsVerif.Props.C03B.' + n for n in (
    # Level B: simulation of OPM by the real LR driver over the real tables (certificate checked by the kernel)
    'C03B_generic', 'C03B_canon_generic', 'C03B_sqlite', 'C03B_mysql', 'C03B_mindsdb',
    'C03B_canon_sqlite', 'C03B_canon_mysql', 'C03B_canon_mindsdb',
    'C03B_select_sqlite', 'C03B_select_mysql', 'C03B_select_mindsdb',
    'phi3a_B_sqlite', 'phi3a_B_mysql', 'phi3a_B_mindsdb',
    'preCompat_sqlite', 'preCompat_mysql', 'preCompat_mindsdb')] + [
    'MindsVerif.Gen.ExprSim_%s.cert_ok' % d for d in ('sqlite', 'mysql', 'mindsdb')]
ASSUME = [
    'reference grouping = the stratified SQL grammar written out in OPM.addParens (DESIGN.md §C03); validated against sqlite3 by evaluation in this run',
    'OPM.parse models the grouping of an LALR parser whose decisions are SLY resolve; tied to the real tables by the kernel-checked '
    'conformance obligation phi3b (every expr state x every fragment operator) and to the real parser by the expression stream (6 contexts)',
    'Level B (Props/C03B.lean): the simulation between the OPM and the LR driver over the real tables is proved for atoms = ID tokens, '
    'parentheses, binary and prefix operators, BETWEEN and the two-token NOT IN, from every statement / parenthesis context listed in '
    'Gen/ExprSim_<d>.lean; operands other than identifiers (constants, functions, CASE) stay covered by the correspondence stream only',
]

LEX = {'OR': 'OR', 'AND': 'AND', 'EQUALS': '=', 'NEQUALS': '<>', 'LESS': '<', 'LEQ': '<=', 'GREATER': '>', 'GEQ': '>=',
       'IN': 'IN', 'NOT_IN': 'NOT IN', 'NOT IN': 'NOT IN', 'LIKE': 'LIKE', 'NOT_LIKE': 'NOT LIKE', 'IS': 'IS', 'IS_NOT': 'IS NOT',
       'PLUS': '+', 'MINUS': '-', 'STAR': '*', 'DIVIDE': '/', 'MODULO': '%', 'NOT': 'NOT', 'BETWEEN': 'BETWEEN'}
STRAT = {'OR': 0, 'AND': 1, 'EQUALS': 3, 'NEQUALS': 3, 'LESS': 3, 'LEQ': 3, 'GREATER': 3, 'GEQ': 3, 'IN': 3, 'NOT_IN': 3,
         'NOT IN': 3, 'LIKE': 3, 'NOT_LIKE': 3, 'IS': 3, 'IS_NOT': 3, 'PLUS': 4, 'MINUS': 4, 'STAR': 5, 'DIVIDE': 5, 'MODULO': 5}
CONTEXTS = {
    'select': ('SELECT %s FROM t', lambda a: a.targets[0]),
    'where': ('SELECT * FROM t WHERE %s', lambda a: a.where),
    'on': ('SELECT * FROM t1 JOIN t2 ON %s', lambda a: a.from_table.condition),
    'having': ('SELECT c0 FROM t GROUP BY c0 HAVING %s', lambda a: a.having),
    'funcarg': ('SELECT f(%s) FROM t', lambda a: a.targets[0].args[0]),
    'case': ('SELECT CASE WHEN c0 THEN %s ELSE 1 END FROM t', lambda a: a.targets[0].rules[0][1]),
}


class Ops:
    def __init__(self, dialect):
        s = json.load(open('%s/gen/prec_%s.json' % (common.ROOT, dialect)))
        self.names = {int(k): v for k, v in s['names'].items()}
        self.bins = s['bins']
        self.pres = s['pres']
        self.btw = s['btw']
        self.and_ = s['and_']
        self.by_lex = {}
        for o in self.bins:
            self.by_lex[LEX[self.names[o]]] = o
        self.pre_by_lex = {LEX[self.names[o]]: o for o in self.pres}

    def strat(self, t):
        k = t[0]
        if k in ('a', 'q'):
            return 7
        if k == 'p':
            return 2 if self.names[t[1]] == 'NOT' else 6
        if k == 'w':
            return 3
        return STRAT[self.names[t[1]]]


def show(t):
    k = t[0]
    if k == 'a':
        return 'a%d' % t[1]
    if k == 'k':
        return 'k%s' % (t[1],)
    if k == 'b':
        return '(b %d %s %s)' % (t[1], show(t[2]), show(t[3]))
    if k == 'p':
        return '(p %d %s)' % (t[1], show(t[2]))
    if k == 'w':
        return '(w %s %s %s)' % (show(t[1]), show(t[2]), show(t[3]))
    return '(q %s)' % show(t[1])


def add_parens(ops, t):
    """Python mirror of OPM.addParens (used only when the Lean driver is unavailable and for search)"""
    k = t[0]
    wrap = lambda c, e: ('q', e) if c else e
    if k == 'a':
        return t
    if k == 'q':
        return ('q', add_parens(ops, t[1]))
    if k == 'p':
        s = ops.strat(t)
        return ('p', t[1], wrap(ops.strat(t[2]) < s, add_parens(ops, t[2])))
    if k == 'b':
        s = ops.strat(t)
        l, r = t[2], t[3]
        cl = ops.strat(l) <= s if s == 3 else ops.strat(l) < s
        return ('b', t[1], wrap(cl, add_parens(ops, l)), wrap(ops.strat(r) <= s, add_parens(ops, r)))
    return ('w',) + tuple(wrap(ops.strat(x) < 4, add_parens(ops, x)) for x in t[1:])


def to_sql(ops, t, atom):
    k = t[0]
    if k == 'a':
        return atom(t[1])
    if k == 'q':
        return '(' + to_sql(ops, t[1], atom) + ')'
    if k == 'p':
        return LEX[ops.names[t[1]]] + ' ' + to_sql(ops, t[2], atom)
    if k == 'b':
        return to_sql(ops, t[2], atom) + ' ' + LEX[ops.names[t[1]]] + ' ' + to_sql(ops, t[3], atom)
    return '%s BETWEEN %s AND %s' % tuple(to_sql(ops, x, atom) for x in t[1:])


def from_ast(ops, n):
    """real AST -> tree (None when a node kind outside the fragment shows up)"""
    from mindsdb_sql.parser import ast as A
    cls = type(n).__name__
    if cls == 'Identifier':
        m = re.fullmatch(r'c(\d+)', str(n.parts[-1]))
        t = ('a', int(m.group(1))) if m and len(n.parts) == 1 else None
    elif cls in ('Constant', 'NullConstant'):
        # literal atoms: 100+n stands for atom n (grouping check); any other literal carries its own value (evaluation check)
        v = getattr(n, 'value', None)
        if cls == 'NullConstant' or v is None:
            t = ('k', None)
        elif isinstance(v, bool):
            t = ('k', int(v))
        elif isinstance(v, int):
            if v >= 100:
                t = ('a', v - 100)
            elif v <= -100 and ops.pre_by_lex.get('-') is not None:
                # the grammars fold `- <number>` into a negative constant: the same grouping (unary minus binds tightest)
                t = ('p', ops.pre_by_lex['-'], ('a', -v - 100))
            else:
                t = ('k', v)
        else:
            t = None
    elif cls == 'BinaryOperation':
        op = re.sub(r'\s+', ' ', str(n.op).upper())
        o = ops.by_lex.get(op)
        l, r = from_ast(ops, n.args[0]), from_ast(ops, n.args[1])
        t = ('b', o, l, r) if o is not None and l and r else None
    elif cls == 'UnaryOperation':
        o = ops.pre_by_lex.get(str(n.op).upper())
        e = from_ast(ops, n.args[0])
        t = ('p', o, e) if o is not None and e else None
    elif cls == 'BetweenOperation':
        xs = [from_ast(ops, a) for a in n.args]
        t = ('w',) + tuple(xs) if all(xs) else None
    else:
        t = None
    if t is not None and getattr(n, 'parentheses', False):
        t = ('q', t)
    return t


def gen_tree(ops, rng, size, allow_paren=True):
    if size <= 0:
        return ('a', rng.randrange(4))
    r = rng.random()
    if allow_paren and r < 0.06:
        return ('q', gen_tree(ops, rng, size, False))
    if r < 0.16:
        return ('p', rng.choice(ops.pres), gen_tree(ops, rng, size - 1))
    if r < 0.26 and size >= 2:
        a = rng.randrange(size - 1)
        b = rng.randrange(size - 1 - a) if size - 1 - a > 0 else 0
        return ('w', gen_tree(ops, rng, a), gen_tree(ops, rng, b), gen_tree(ops, rng, size - 2 - a - b if size - 2 - a - b > 0 else 0))
    ls = rng.randrange(size)
    return ('b', rng.choice(ops.bins), gen_tree(ops, rng, ls), gen_tree(ops, rng, size - 1 - ls))


def all_trees(ops, size, bins, pres):
    """every paren-free tree with exactly `size` operators over the given operator lists"""
    if size == 0:
        yield ('a', 0)
        return
    for o in pres:
        for e in all_trees(ops, size - 1, bins, pres):
            yield ('p', o, e)
    for ls in range(size):
        for o in bins:
            for l in all_trees(ops, ls, bins, pres):
                for r in all_trees(ops, size - 1 - ls, bins, pres):
                    yield ('b', o, l, r)
    if size >= 2:
        for a in range(size - 1):
            for b in range(size - 1 - a):
                for x in all_trees(ops, a, bins, pres):
                    for y in all_trees(ops, b, bins, pres):
                        for z in all_trees(ops, size - 2 - a - b, bins, pres):
                            yield ('w', x, y, z)


def relabel(t, counter):
    k = t[0]
    if k == 'a':
        counter[0] += 1
        return ('a', (counter[0] - 1) % 4)
    if k in ('b',):
        l = relabel(t[2], counter)
        return ('b', t[1], l, relabel(t[3], counter))
    if k == 'p':
        return ('p', t[1], relabel(t[2], counter))
    if k == 'q':
        return ('q', relabel(t[1], counter))
    return ('w',) + tuple(relabel(x, counter) for x in t[1:])


# ---- evaluation (sqlite3 as reference engine) -----------------------------------------------
EVAL_OPS = {'OR', 'AND', 'EQUALS', 'NEQUALS', 'LESS', 'LEQ', 'GREATER', 'GEQ', 'PLUS', 'MINUS', 'STAR', 'DIVIDE',
            'MODULO', 'IS', 'IS_NOT', 'NOT'}


def tri(v):
    return None if v is None else (1 if v != 0 else 0)


def evaluate(ops, t, env):
    k = t[0]
    if k == 'a':
        return env[t[1]]
    if k == 'k':
        return t[1]
    if k == 'q':
        return evaluate(ops, t[1], env)
    if k == 'p':
        v = evaluate(ops, t[2], env)
        if ops.names[t[1]] == 'NOT':
            return None if v is None else (0 if v != 0 else 1)
        return None if v is None else -v
    if k == 'w':
        x, y, z = (evaluate(ops, a, env) for a in t[1:])
        a = None if x is None or y is None else int(x >= y)
        b = None if x is None or z is None else int(x <= z)
        if a == 0 or b == 0:
            return 0
        if a is None or b is None:
            return None
        return 1
    nm = ops.names[t[1]]
    l, r = evaluate(ops, t[2], env), evaluate(ops, t[3], env)
    if nm == 'AND':
        l, r = tri(l), tri(r)
        if l == 0 or r == 0:
            return 0
        return None if l is None or r is None else 1
    if nm == 'OR':
        l, r = tri(l), tri(r)
        if l == 1 or r == 1:
            return 1
        return None if l is None or r is None else 0
    if nm == 'IS':
        return int(l == r)
    if nm == 'IS_NOT':
        return int(l != r)
    if l is None or r is None:
        return None
    if nm == 'PLUS':
        return l + r
    if nm == 'MINUS':
        return l - r
    if nm == 'STAR':
        return l * r
    if nm in ('DIVIDE', 'MODULO'):
        if r == 0:
            return None
        q = abs(l) // abs(r)
        q = q if (l >= 0) == (r >= 0) else -q
        return q if nm == 'DIVIDE' else l - q * r
    return int({'EQUALS': l == r, 'NEQUALS': l != r, 'LESS': l < r, 'LEQ': l <= r, 'GREATER': l > r, 'GEQ': l >= r}[nm])


def evaluable(ops, t):
    k = t[0]
    if k == 'a':
        return True
    if k in ('q',):
        return evaluable(ops, t[1])
    if k == 'p':
        return evaluable(ops, t[2])
    if k == 'w':
        return all(evaluable(ops, x) for x in t[1:])
    return ops.names[t[1]] in EVAL_OPS and evaluable(ops, t[2]) and evaluable(ops, t[3])


ENVS = [(1, 2, 3, 0), (0, 0, 1, 2), (None, 1, 0, 2), (2, None, 1, 1), (3, 1, None, 0), (-1, 2, -2, None), (5, 3, 2, 7)]


def fold_minus(ops, t):
    """literal mode only: the grammars fold `- <number>` into one constant, so `- - 100` is the constant 100: collapse a double
    unary minus directly over an atom (value preserving; nothing else is folded)"""
    k = t[0]
    if k in ('a', 'k'):
        return t
    if k == 'q':
        return ('q', fold_minus(ops, t[1]))
    if k == 'p':
        u = fold_minus(ops, t[2])
        m = ops.pre_by_lex.get('-')
        if t[1] == m and u[0] == 'p' and u[1] == m and u[2][0] == 'a':
            return u[2]
        return ('p', t[1], u)
    if k == 'w':
        return ('w',) + tuple(fold_minus(ops, x) for x in t[1:])
    return ('b', t[1], fold_minus(ops, t[2]), fold_minus(ops, t[3]))


def lit(v):
    return 'NULL' if v is None else str(v)


def parse_real(dialect, ops, text_expr, ctx):
    from mindsdb_sql import parse_sql
    tmpl, getter = CONTEXTS[ctx]
    try:
        ast = parse_sql(tmpl % text_expr, dialect)
        return from_ast(ops, getter(ast)), None
    except Exception as e:
        return None, '%s: %s' % (type(e).__name__, str(e)[:100])


def run(chk):
    quick = chk.tier == 'quick'
    broken = bool(chk.broken())
    deep = not quick
    seen_ob = set()

    def oblige_once(name, kind, detail):
        if name not in seen_ob:
            seen_ob.add(name)
            chk.oblige(name, kind, False, detail)
    conn = sqlite3.connect(':memory:')
    lines, metas = [], []
    dist = {}
    for d in DIALECTS:
        ops = Ops(d)
        rng = common.rng_for(chk.seed, 'C03/' + d)
        trees = []
        # exhaustive small trees over one representative operator per stratum (+ all operators at size 1..2)
        reps = {}
        for o in ops.bins:
            reps.setdefault(STRAT[ops.names[o]], o)
        rep_bins = sorted(reps.values())
        for size in (1, 2, 3) if not deep else (1, 2, 3, 4):
            bins = ops.bins if size <= (2 if deep else 1) else rep_bins
            for t in all_trees(ops, size, bins, ops.pres):
                trees.append(('exh%d' % size, relabel(t, [0])))
        for i in range(60000 if deep else (8000 if broken else 1500)):
            trees.append(('rnd', gen_tree(ops, rng, rng.randint(2, 9))))
        for src, t in trees:
            lines.append('%s %s' % (d, show(t)))
            metas.append((d, ops, src, t))
    # the model side
    outs = None
    try:
        outs = common.lean_run('OPM', lines)
    except Exception as e:
        chk.oblige('corr:opm', 'correspondence', False, 'driver failed: %s' % e)
    diverged, first, n_ctx = 0, None, 0
    ctx_names = sorted(CONTEXTS)
    # a context that the dialect's grammar does not have at all (sqlite: CASE) is not a C03 matter
    ctx_ok = {}
    for d in DIALECTS:
        o = Ops(d)
        ctx_ok[d] = [c for c in ctx_names if parse_real(d, o, 'c1', c)[0] == ('a', 1)
                     or parse_real(d, o, 'c1 = c2', c)[0] is not None]
        dist['%s/contexts' % d] = ','.join(ctx_ok[d])
    for i, (d, ops, src, t) in enumerate(metas):
        ref = add_parens(ops, t)
        if outs is not None:
            parts = [x.strip() for x in outs[i].split('|')]
            model_res, model_ref = parts[1], parts[2]
            if model_ref != show(ref):
                oblige_once('mirror:addParens', 'harness', 'python mirror of addParens differs on %s' % show(t))
            if 'frag=1' in parts[3] and model_res != model_ref:
                oblige_once('model:roundtrip-instance', 'theorem-instance', outs[i][:300])
        text = to_sql(ops, ref, lambda n: 'c%d' % n)
        if i % 4 == 1:
            # multi-word operators are one operator whatever blanks separate the words
            wsp = ['  ', '\t', '\n', ' \n  '][(i // 4) % 4]
            text = re.sub(r'\b(IS|NOT) (NOT|IN|LIKE)\b', lambda m_: m_.group(1) + wsp + m_.group(2), text)
        cn = ctx_ok[d]
        ctx = cn[i % len(cn)] if src == 'rnd' or not deep else None
        for c in ([ctx] if ctx else cn):
            n_ctx += 1
            got, err = parse_real(d, ops, text, c)
            chk.count((d, c, text))
            key = '%s/%s/%s' % (d, src, 'ok' if got == ref else ('reject' if got is None else 'regrouped'))
            dist[key] = dist.get(key, 0) + 1
            if got != ref:
                f = dict(desc='parser groups %r differently from SQL (or rejects it)' % text, dialect=d, context=c,
                         text=text, expected=show(ref), got=show(got) if got else None, error=err,
                         **{'class': 'grouping'})
                chk.classify(f, lambda k, f: False)
                chk.fail(f)
                if outs is not None and model_res == show(ref):
                    diverged += 1
                    first = first or dict(dialect=d, context=c, text=text, model=model_res, impl=show(got) if got else err)
            elif outs is not None and model_res != show(got):
                diverged += 1
                first = first or dict(dialect=d, context=c, text=text, model=model_res, impl=show(got))
        # evaluation against sqlite3 (reference engine) for the evaluable operators
        if evaluable(ops, ref) and (i % 3 == 0 or deep):
            got, err = parse_real(d, ops, text, 'select')
            if got is not None:
                for env in ENVS[:3] if not deep else ENVS:
                    sql = 'SELECT ' + to_sql(ops, ref, lambda n: lit(env[n]))
                    try:
                        want = conn.execute(sql).fetchone()[0]
                    except sqlite3.Error:
                        continue
                    if isinstance(want, float):
                        continue
                    val = evaluate(ops, got, env)
                    chk.count(('eval', d, sql))
                    if val != want:
                        f = dict(desc='value of the parsed tree differs from sqlite3 on %r' % sql, dialect=d, text=text,
                                 sql=sql, sqlite=want, tree_value=val, tree=show(got), **{'class': 'eval'})
                        chk.classify(f, lambda k, f: False)
                        chk.fail(f)
        # the same expression with LITERAL atoms (constants take other grammar rules than identifiers: folding rules such as
        # `MINUS constant`, constructors that look at literal arguments): grouping with the distinct integers 100+n ...
        if i % 3 == 2 or deep:
            tl = to_sql(ops, ref, lambda n: str(100 + n))
            cn = ctx_ok[d]
            c = cn[(i // 3) % len(cn)]
            got, err = parse_real(d, ops, tl, c)
            chk.count((d, c, tl))
            dist['%s/lit/%s' % (d, 'ok' if got == ref else 'differs')] = dist.get('%s/lit/%s' % (d, 'ok' if got == ref else 'differs'), 0) + 1
            if got is None or fold_minus(ops, got) != fold_minus(ops, ref):
                f = dict(desc='parser groups %r (literal operands) differently from SQL (or rejects it)' % tl, dialect=d, context=c,
                         text=tl, expected=show(ref), got=show(got) if got else None, error=err, **{'class': 'grouping:literal-atoms'})
                chk.classify(f, lambda k, f: False)
                chk.fail(f)
            # ... and evaluation of the tree parsed from the text with the VALUES written in (non-negative values only: a
            # leading minus is a different token sequence)
            if evaluable(ops, ref):
                for env in [e for e in ENVS if all(v is None or v >= 0 for v in e)][:3 if not deep else 9]:
                    sql_e = to_sql(ops, ref, lambda n: lit(env[n]))
                    try:
                        want = conn.execute('SELECT ' + sql_e).fetchone()[0]
                    except sqlite3.Error:
                        continue
                    if isinstance(want, float):
                        continue
                    got, err = parse_real(d, ops, sql_e, 'select')
                    chk.count(('eval-lit', d, sql_e))
                    if got is None and err and "Unary minus can't be applied" in err:
                        continue      # a deliberate, typed rejection of `- NULL` / `- 'text'`: not a grouping matter
                    if got is None:
                        f = dict(desc='expression with literal operands %r is rejected or leaves the fragment' % sql_e, dialect=d,
                                 text=sql_e, error=err, **{'class': 'grouping:literal-values'})
                        chk.classify(f, lambda k, f: False); chk.fail(f)
                        continue
                    val = evaluate(ops, got, env)
                    if val != want:
                        f = dict(desc='value of the tree parsed from %r differs from sqlite3' % sql_e, dialect=d, text=sql_e,
                                 sql='SELECT ' + sql_e, sqlite=want, tree_value=val, tree=show(got), **{'class': 'eval:literal'})
                        chk.classify(f, lambda k, f: False); chk.fail(f)
    if outs is not None:
        chk.corr_result('opm', n_ctx, diverged, first, dist)
    for (d, ops, src, t) in metas[:2] + metas[-2:]:
        chk.samples.append(dict(dialect=d, src=src, tree=show(t), text=to_sql(ops, add_parens(ops, t), lambda n: 'c%d' % n)))
    chk.samples.append(dict(theorem='C03_full P S F := ∀ e, inFragment F e = true → parse P (print P (addParens S e)) [] none = some (addParens S e) ∧ strip (addParens S e) = strip e'))
    return chk.finish(assumptions=ASSUME)


def replay(path):
    data = json.load(open(path))
    f = data.get('failure')
    if not f:
        print(json.dumps(data, indent=1)[:3000])
        return 1
    ops = Ops(f['dialect'])
    got, err = parse_real(f['dialect'], ops, f['text'], f.get('context', 'select'))
    bad = (show(got) if got else None) != f['expected']
    print('REPRODUCED' if bad else 'not reproduced', f['text'], 'expected', f['expected'], 'got', show(got) if got else err)
    return 1 if bad else 0
