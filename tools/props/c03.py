"""C03 — operators group by standard SQL precedence and associativity in every dialect."""
import itertools, json, re, sqlite3, sys
from tools.harness import common
from tools.harness.common import DIALECTS

ID = 'C03'
TARGETS = ['MindsVerif.Props.C03', 'MindsVerif.Props.C03B']
THEOREMS = ['MindsVerif.Props.C03.' + n for n in (
    'C03_sqlite', 'C03_mysql', 'C03_mindsdb', 'C03_generic', 'phi3a_sqlite', 'phi3a_mysql', 'phi3a_mindsdb',
    'phi3b_sqlite', 'phi3b_mysql', 'phi3b_mindsdb', 'ops_present',
    # round 6: reduce/reduce conflicts among operator rules go to the longest rule (independent of rule order); the value the
    # actions build, for every faithful constructor; the pin on the live constructors
    'phi3c_sqlite', 'phi3c_mysql', 'phi3c_mindsdb', 'C03_value', 'C03_value_sqlite', 'C03_value_mysql', 'C03_value_mindsdb',
    'C03_value_witness', 'ctor_pin',
    'roundtrip_sqlite', 'roundtrip_mysql', 'roundtrip_mindsdb')] + ['MindsVerif.Props.C03B.' + n for n in (
    # Level B: simulation of OPM by the real LR driver over the real tables (certificate checked by the kernel)
    'C03B_generic', 'C03B_canon_generic', 'C03B_sqlite', 'C03B_mysql', 'C03B_mindsdb',
    'C03B_canon_sqlite', 'C03B_canon_mysql', 'C03B_canon_mindsdb',
    'C03B_select_sqlite', 'C03B_select_mysql', 'C03B_select_mindsdb',
    'phi3a_B_sqlite', 'phi3a_B_mysql', 'phi3a_B_mindsdb',
    'preCompat_sqlite', 'preCompat_mysql', 'preCompat_mindsdb')] + [
    'MindsVerif.Gen.ExprSim_%s.cert_ok' % d for d in ('sqlite', 'mysql', 'mindsdb')]
ASSUME = [
    'reference grouping = the stratified SQL grammar written out in OPM.addParens (DESIGN.md §C03); validated against sqlite3 by evaluation in this run',
    'OPM.parse models the grouping of an LALR parser whose decisions are SLY resolve; tied to the real tables by the kernel-checked '
    'conformance obligation phi3b (every expr state x every fragment operator) and to the real parser by the expression stream (6 contexts)',
    'Level B (Props/C03B.lean): the simulation between the OPM and the LR driver over the real tables is proved for atoms = ID tokens, '
    'parentheses, binary and prefix operators, BETWEEN and the two-token spellings the live grammar has (NOT IN; IS NOT), from every statement / parenthesis context listed in '
    'Gen/ExprSim_<d>.lean; operands other than identifiers (constants, functions, CASE) stay covered by the correspondence stream only',
    'Model/AstBuild.lean is a hand model of the operator rules\' actions (tied by stream opm, which reads the real value) and ASSUMES '
    'the node constructors are faithful; pinned by Gen/CtorPin.lean (live constructors called on chains up to depth 6000, observed by '
    'object identity) + the kernel-decided ctor_pin, and watched by the long-chain stream (130 … 1100 operators through parse_sql)',
]

LEX = {'OR': 'OR', 'AND': 'AND', 'EQUALS': '=', 'NEQUALS': '<>', 'LESS': '<', 'LEQ': '<=', 'GREATER': '>', 'GEQ': '>=',
       'IN': 'IN', 'NOT_IN': 'NOT IN', 'NOT IN': 'NOT IN', 'LIKE': 'LIKE', 'NOT_LIKE': 'NOT LIKE', 'IS': 'IS', 'IS_NOT': 'IS NOT',
       'IS NOT': 'IS NOT', 'NOT LIKE': 'NOT LIKE',
       'PLUS': '+', 'MINUS': '-', 'STAR': '*', 'DIVIDE': '/', 'MODULO': '%', 'NOT': 'NOT', 'BETWEEN': 'BETWEEN'}
STRAT = {'OR': 0, 'AND': 1, 'EQUALS': 3, 'NEQUALS': 3, 'LESS': 3, 'LEQ': 3, 'GREATER': 3, 'GEQ': 3, 'IN': 3, 'NOT_IN': 3,
         'NOT IN': 3, 'LIKE': 3, 'NOT_LIKE': 3, 'IS': 3, 'IS_NOT': 3, 'IS NOT': 3, 'NOT LIKE': 3, 'PLUS': 4, 'MINUS': 4, 'STAR': 5, 'DIVIDE': 5, 'MODULO': 5}
CONTEXTS = {
    'select': ('SELECT %s FROM t', lambda a: a.targets[0]),
    'where': ('SELECT * FROM t WHERE %s', lambda a: a.where),
    'on': ('SELECT * FROM t1 JOIN t2 ON %s', lambda a: a.from_table.condition),
    'having': ('SELECT c0 FROM t GROUP BY c0 HAVING %s', lambda a: a.having),
    'funcarg': ('SELECT f(%s) FROM t', lambda a: a.targets[0].args[0]),
    'case': ('SELECT CASE WHEN c0 THEN %s ELSE 1 END FROM t', lambda a: a.targets[0].rules[0][1]),
}


class Ops:
    def __init__(self, dialect):
        s = json.load(open('%s/gen/prec_%s.json' % (common.ROOT, dialect)))
        self.names = {int(k): v for k, v in s['names'].items()}
        self.bins = s['bins']
        self.pres = s['pres']
        self.btw = s['btw']
        self.and_ = s['and_']
        # two-token spellings (`expr T1 T2 expr` rules of the live grammar) and, where the lexer also has a one-token spelling of
        # the same operator, that operator's id: the AST cannot tell the spellings apart (same `op` string), so trees are compared
        # after mapping a two-token id to the one-token id (`canon`)
        self.split = {int(k): v for k, v in s.get('split', {}).items()}
        self.canon = {int(k): v for k, v in s.get('single', {}).items()}
        # trees are generated over one id per operator (C01's expression stream shares this class): the two-token twin of
        # an operator that also has a one-token spelling is reached through the TEXT (comment between the words), not through
        # a separate operator id; `all_bins` keeps every id of Gen/Prec_<d>.F
        self.all_bins = list(self.bins)
        self.bins = [o for o in self.bins if o not in self.canon]
        self.by_lex = {}
        for o in self.all_bins:
            self.by_lex[LEX[self.names[o]]] = self.canon.get(o, o)
        # multi-word spellings for which the grammar has a rule over the separate words
        self.has_split = {LEX[self.names[o]] for o in self.split}
        self.pre_by_lex = {LEX[self.names[o]]: o for o in self.pres}

    def strat(self, t):
        k = t[0]
        if k in ('a', 'q'):
            return 7
        if k == 'p':
            return 2 if self.names[t[1]] == 'NOT' else 6
        if k == 'w':
            return 3
        return STRAT[self.names[t[1]]]


def show(t):
    k = t[0]
    if k == 'a':
        return 'a%d' % t[1]
    if k == 'k':
        return 'k%s' % (t[1],)
    if k == 'b':
        return '(b %d %s %s)' % (t[1], show(t[2]), show(t[3]))
    if k == 'p':
        return '(p %d %s)' % (t[1], show(t[2]))
    if k == 'w':
        return '(w %s %s %s)' % (show(t[1]), show(t[2]), show(t[3]))
    return '(q %s)' % show(t[1])


def canon_tree(ops, t):
    """two-token operator ids -> the id of the one-token spelling of the same operator (what `from_ast` yields)"""
    if not ops.canon:
        return t
    k = t[0]
    if k in ('a', 'k'):
        return t
    if k == 'q':
        return ('q', canon_tree(ops, t[1]))
    if k == 'p':
        return ('p', t[1], canon_tree(ops, t[2]))
    if k == 'b':
        return ('b', ops.canon.get(t[1], t[1]), canon_tree(ops, t[2]), canon_tree(ops, t[3]))
    return ('w',) + tuple(canon_tree(ops, x) for x in t[1:])


def canon_str(ops, shown):
    for a, c in ops.canon.items():
        shown = shown.replace('(b %d ' % a, '(b %d ' % c)
    return shown


def add_parens(ops, t):
    """Python mirror of OPM.addParens (used only when the Lean driver is unavailable and for search)"""
    k = t[0]
    wrap = lambda c, e: ('q', e) if c else e
    if k == 'a':
        return t
    if k == 'q':
        return ('q', add_parens(ops, t[1]))
    if k == 'p':
        s = ops.strat(t)
        return ('p', t[1], wrap(ops.strat(t[2]) < s, add_parens(ops, t[2])))
    if k == 'b':
        s = ops.strat(t)
        l, r = t[2], t[3]
        cl = ops.strat(l) <= s if s == 3 else ops.strat(l) < s
        return ('b', t[1], wrap(cl, add_parens(ops, l)), wrap(ops.strat(r) <= s, add_parens(ops, r)))
    return ('w',) + tuple(wrap(ops.strat(x) < 4, add_parens(ops, x)) for x in t[1:])


def to_sql(ops, t, atom):
    k = t[0]
    if k == 'a':
        return atom(t[1])
    if k == 'q':
        return '(' + to_sql(ops, t[1], atom) + ')'
    if k == 'p':
        return LEX[ops.names[t[1]]] + ' ' + to_sql(ops, t[2], atom)
    if k == 'b':
        return to_sql(ops, t[2], atom) + ' ' + LEX[ops.names[t[1]]] + ' ' + to_sql(ops, t[3], atom)
    return '%s BETWEEN %s AND %s' % tuple(to_sql(ops, x, atom) for x in t[1:])


def from_ast(ops, n):
    """real AST -> tree (None when a node kind outside the fragment shows up)"""
    from mindsdb_sql.parser import ast as A
    cls = type(n).__name__
    if cls == 'Identifier':
        m = re.fullmatch(r'c(\d+)', str(n.parts[-1]))
        t = ('a', int(m.group(1))) if m and len(n.parts) == 1 else None
    elif cls in ('Constant', 'NullConstant'):
        # literal atoms: 100+n stands for atom n (grouping check); any other literal carries its own value (evaluation check)
        v = getattr(n, 'value', None)
        if cls == 'NullConstant' or v is None:
            t = ('k', None)
        elif isinstance(v, bool):
            t = ('k', int(v))
        elif isinstance(v, int):
            if v >= 100:
                t = ('a', v - 100)
            elif v <= -100 and ops.pre_by_lex.get('-') is not None:
                # the grammars fold `- <number>` into a negative constant: the same grouping (unary minus binds tightest)
                t = ('p', ops.pre_by_lex['-'], ('a', -v - 100))
            else:
                t = ('k', v)
        else:
            t = None
    elif cls == 'BinaryOperation':
        op = re.sub(r'\s+', ' ', str(n.op).upper())
        o = ops.by_lex.get(op)
        l, r = from_ast(ops, n.args[0]), from_ast(ops, n.args[1])
        t = ('b', o, l, r) if o is not None and l and r else None
    elif cls == 'UnaryOperation':
        o = ops.pre_by_lex.get(str(n.op).upper())
        e = from_ast(ops, n.args[0])
        t = ('p', o, e) if o is not None and e else None
    elif cls == 'BetweenOperation':
        xs = [from_ast(ops, a) for a in n.args]
        t = ('w',) + tuple(xs) if all(xs) else None
    else:
        t = None
    if t is not None and getattr(n, 'parentheses', False):
        t = ('q', t)
    return t


def gen_tree(ops, rng, size, allow_paren=True):
    if size <= 0:
        return ('a', rng.randrange(4))
    r = rng.random()
    if allow_paren and r < 0.06:
        return ('q', gen_tree(ops, rng, size, False))
    if r < 0.16:
        return ('p', rng.choice(ops.pres), gen_tree(ops, rng, size - 1))
    if r < 0.26 and size >= 2:
        a = rng.randrange(size - 1)
        b = rng.randrange(size - 1 - a) if size - 1 - a > 0 else 0
        return ('w', gen_tree(ops, rng, a), gen_tree(ops, rng, b), gen_tree(ops, rng, size - 2 - a - b if size - 2 - a - b > 0 else 0))
    ls = rng.randrange(size)
    return ('b', rng.choice(ops.bins), gen_tree(ops, rng, ls), gen_tree(ops, rng, size - 1 - ls))


def all_trees(ops, size, bins, pres):
    """every paren-free tree with exactly `size` operators over the given operator lists"""
    if size == 0:
        yield ('a', 0)
        return
    for o in pres:
        for e in all_trees(ops, size - 1, bins, pres):
            yield ('p', o, e)
    for ls in range(size):
        for o in bins:
            for l in all_trees(ops, ls, bins, pres):
                for r in all_trees(ops, size - 1 - ls, bins, pres):
                    yield ('b', o, l, r)
    if size >= 2:
        for a in range(size - 1):
            for b in range(size - 1 - a):
                for x in all_trees(ops, a, bins, pres):
                    for y in all_trees(ops, b, bins, pres):
                        for z in all_trees(ops, size - 2 - a - b, bins, pres):
                            yield ('w', x, y, z)


def relabel(t, counter):
    k = t[0]
    if k == 'a':
        counter[0] += 1
        return ('a', (counter[0] - 1) % 4)
    if k in ('b',):
        l = relabel(t[2], counter)
        return ('b', t[1], l, relabel(t[3], counter))
    if k == 'p':
        return ('p', t[1], relabel(t[2], counter))
    if k == 'q':
        return ('q', relabel(t[1], counter))
    return ('w',) + tuple(relabel(x, counter) for x in t[1:])


# ---- evaluation (sqlite3 as reference engine) -----------------------------------------------
EVAL_OPS = {'OR', 'AND', 'EQUALS', 'NEQUALS', 'LESS', 'LEQ', 'GREATER', 'GEQ', 'PLUS', 'MINUS', 'STAR', 'DIVIDE',
            'MODULO', 'IS', 'IS_NOT', 'IS NOT', 'NOT'}


def tri(v):
    return None if v is None else (1 if v != 0 else 0)


def evaluate(ops, t, env):
    k = t[0]
    if k == 'a':
        return env[t[1]]
    if k == 'k':
        return t[1]
    if k == 'q':
        return evaluate(ops, t[1], env)
    if k == 'p':
        v = evaluate(ops, t[2], env)
        if ops.names[t[1]] == 'NOT':
            return None if v is None else (0 if v != 0 else 1)
        return None if v is None else -v
    if k == 'w':
        x, y, z = (evaluate(ops, a, env) for a in t[1:])
        a = None if x is None or y is None else int(x >= y)
        b = None if x is None or z is None else int(x <= z)
        if a == 0 or b == 0:
            return 0
        if a is None or b is None:
            return None
        return 1
    nm = ops.names[t[1]]
    l, r = evaluate(ops, t[2], env), evaluate(ops, t[3], env)
    if nm == 'AND':
        l, r = tri(l), tri(r)
        if l == 0 or r == 0:
            return 0
        return None if l is None or r is None else 1
    if nm == 'OR':
        l, r = tri(l), tri(r)
        if l == 1 or r == 1:
            return 1
        return None if l is None or r is None else 0
    if nm == 'IS':
        return int(l == r)
    if nm in ('IS_NOT', 'IS NOT'):
        return int(l != r)
    if l is None or r is None:
        return None
    if nm in ('PLUS', 'MINUS', 'STAR'):
        v = l + r if nm == 'PLUS' else (l - r if nm == 'MINUS' else l * r)
        if abs(v) >= 2 ** 62:
            raise OverflowError('beyond sqlite3 integers')     # sqlite3 would continue in floating point: not comparable
        return v
    if nm in ('DIVIDE', 'MODULO'):
        if r == 0:
            return None
        q = abs(l) // abs(r)
        q = q if (l >= 0) == (r >= 0) else -q
        return q if nm == 'DIVIDE' else l - q * r
    return int({'EQUALS': l == r, 'NEQUALS': l != r, 'LESS': l < r, 'LEQ': l <= r, 'GREATER': l > r, 'GEQ': l >= r}[nm])


def evaluable(ops, t):
    k = t[0]
    if k == 'a':
        return True
    if k in ('q',):
        return evaluable(ops, t[1])
    if k == 'p':
        return evaluable(ops, t[2])
    if k == 'w':
        return all(evaluable(ops, x) for x in t[1:])
    return ops.names[t[1]] in EVAL_OPS and evaluable(ops, t[2]) and evaluable(ops, t[3])


ENVS = [(1, 2, 3, 0), (0, 0, 1, 2), (None, 1, 0, 2), (2, None, 1, 1), (3, 1, None, 0), (-1, 2, -2, None), (5, 3, 2, 7)]


def fold_minus(ops, t):
    """literal mode only: the grammars fold `- <number>` into one constant, so `- - 100` is the constant 100: collapse a double
    unary minus directly over an atom (value preserving; nothing else is folded)"""
    k = t[0]
    if k in ('a', 'k'):
        return t
    if k == 'q':
        return ('q', fold_minus(ops, t[1]))
    if k == 'p':
        u = fold_minus(ops, t[2])
        m = ops.pre_by_lex.get('-')
        if t[1] == m and u[0] == 'p' and u[1] == m and u[2][0] == 'a':
            return u[2]
        return ('p', t[1], u)
    if k == 'w':
        return ('w',) + tuple(fold_minus(ops, x) for x in t[1:])
    return ('b', t[1], fold_minus(ops, t[2]), fold_minus(ops, t[3]))


def lit(v):
    return 'NULL' if v is None else str(v)


def parse_real(dialect, ops, text_expr, ctx):
    from mindsdb_sql import parse_sql
    tmpl, getter = CONTEXTS[ctx]
    try:
        ast = parse_sql(tmpl % text_expr, dialect)
        return from_ast(ops, getter(ast)), None
    except Exception as e:
        return None, '%s: %s' % (type(e).__name__, str(e)[:100])


# ---- spellings of multi-word operators ---------------------------------------------------------
# whatever separates the words of `IS NOT`, `NOT IN`, `NOT LIKE` it is one operator: blanks / line breaks are bridged by the
# lexers' one-token regexes, a comment is not (the words arrive as two terminals and take other grammar rules, or none)
WS_SEPS = ['  ', '\t', '\n', ' \n  ']
COMMENT_SEPS = [' /* c */ ', '/**/', ' -- c\n ', ' /* NOT */ ', '\n/* a\n b */\n', ' --\n']
MULTI_RE = re.compile(r'\b(IS|NOT) (NOT|IN|LIKE)\b')


def respell(text, seps, k):
    """re-spell every multi-word operator of `text` with separators taken from `seps` (rotating from k); returns the new text and
    the operator spellings touched"""
    touched = []

    def rep(m):
        touched.append(m.group(1) + ' ' + m.group(2))
        return m.group(1) + seps[(k + len(touched)) % len(seps)] + m.group(2)
    return MULTI_RE.sub(rep, text), touched


def has_is_of_not(ops, t):
    """the tree holds `x IS (NOT y)` written without parentheses — the reading of `x IS <comment> NOT y` by a grammar without
    the two-token rule"""
    k = t[0]
    if k in ('a', 'k'):
        return False
    if k == 'b' and ops.names.get(t[1]) == 'IS' and t[3][0] == 'p' and ops.names.get(t[3][1]) == 'NOT':
        return True
    return any(has_is_of_not(ops, x) for x in t[1:] if isinstance(x, tuple))


def kf_match(k, f):
    sig = k.get('signature', {})
    if f.get('class') not in sig.get('classes', []):
        return False
    if f.get('dialect') not in sig.get('dialects', []):
        return False
    sp = f.get('split_ops') or []
    return sorted(sp) == sorted(sig.get('split_ops', [])) and bool(f.get('plain_ok')) and bool(f.get('is_of_not'))


# ---- operators outside F ------------------------------------------------------------------------
# the property's own operator list, by spelling, with the SQL stratum.  F (Gen/Prec_<d>) holds the operators whose production has a
# shape the translator recognises (`expr OP expr`, `expr T1 T2 expr`); an operator the dialect ACCEPTS under another shape (a helper
# non-terminal, an alternative spelling of a token such as `!=`) is outside F — outside every theorem and every generated tree.
PROPERTY_OPS = {'OR': 0, 'AND': 1, '=': 3, '<>': 3, '!=': 3, '<': 3, '<=': 3, '>': 3, '>=': 3, 'IN': 3, 'NOT IN': 3, 'LIKE': 3,
                'NOT LIKE': 3, 'IS': 3, 'IS NOT': 3, '+': 4, '-': 4, '*': 5, '/': 5, '%': 5}
for _sp, _st in PROPERTY_OPS.items():
    LEX.setdefault(_sp, _sp)
    STRAT.setdefault(_sp, _st)


def lost_ops(d, ops):
    """spellings of the property's list that the dialect parses as a binary operator of that name although F has no operator
    with this spelling; each gets a synthetic id (≥ 900000) in `ops` so that the generic tree tools work on it"""
    from mindsdb_sql import parse_sql
    out = []
    for k, sp in enumerate(sorted(PROPERTY_OPS)):
        if sp in ops.by_lex:
            continue
        try:
            n = parse_sql('SELECT c0 %s c1 FROM t' % sp, d).targets[0]
        except Exception:
            continue
        if type(n).__name__ != 'BinaryOperation' or ' '.join(str(n.op).upper().split()) != sp \
                or [type(a).__name__ for a in n.args] != ['Identifier', 'Identifier']:
            continue
        sid = 900000 + k
        ops.names[sid] = sp
        ops.by_lex[sp] = sid
        out.append(sid)
    return out


def contains_op(t, o):
    return isinstance(t, tuple) and ((t[0] == 'b' and t[1] == o) or any(contains_op(x, o) for x in t[1:]))


# ---- long chains ------------------------------------------------------------------------------
def show_flat(t):
    """`show` without recursion (trees of the long-chain stream are thousands of levels deep)"""
    out, stack = [], [t]
    while stack:
        x = stack.pop()
        if isinstance(x, str):
            out.append(x)
            continue
        k = x[0]
        if k == 'a':
            out.append('a%d' % x[1])
        elif k == 'k':
            out.append('k%s' % (x[1],))
        elif k == 'b':
            stack += [')', x[3], ' ', x[2], '(b %d ' % x[1]]
        elif k == 'p':
            stack += [')', x[2], '(p %d ' % x[1]]
        elif k == 'w':
            stack += [')', x[3], ' ', x[2], ' ', x[1], '(w ']
        else:
            stack += [')', x[1], '(q ']
    return ''.join(out)


def left_depth(t):
    n = 0
    while t[0] in ('b', 'w', 'q'):
        t = t[2] if t[0] == 'b' else t[1]
        n += 1
    return n


def long_cases(ops, rng, sizes, big):
    """(name, n, tree): chains with n operators on one spine — what only size can break (constructors / actions that re-balance,
    flatten or fold operator trees from some depth on).  All are printed without any parentheses except `rnest`."""
    nm = {v: k for k, v in ops.names.items()}
    o = lambda name: ops.canon.get(nm[name], nm[name]) if name in nm else None
    AND, OR, EQ, NE, PLUS, MINUS, STAR, DIV = (o(x) for x in ('AND', 'OR', 'EQUALS', 'NEQUALS', 'PLUS', 'MINUS', 'STAR', 'DIVIDE'))
    NOT, UM = ops.pre_by_lex.get('NOT'), ops.pre_by_lex.get('-')
    A = lambda i: ('a', i % 4)

    def lchain(op, n, term=A):
        t = term(0)
        for i in range(1, n + 1):
            t = ('b', op, t, term(i))
        return t
    conj = lambda i: ('b', AND, ('b', EQ, A(i), A(i + 1)), ('b', EQ, A(i + 2), A(i + 3)))

    def flat(n):
        """a random operator sequence with no parentheses at all, grouped here by the SQL strata (shunting yard, left-assoc);
        two comparisons are always separated by AND / OR"""
        pool = [(OR, 0), (AND, 1), (EQ, 3), (NE, 3), (PLUS, 4), (MINUS, 4), (STAR, 5), (DIV, 5)]
        vals, opst, cmp_open = [A(0)], [], False
        for i in range(1, n + 1):
            while True:
                op, st = pool[rng.randrange(len(pool))]
                if not (st == 3 and cmp_open):
                    break
            cmp_open = (st == 3) or (cmp_open and st > 3)
            while opst and opst[-1][1] >= st:
                q, _ = opst.pop()
                r = vals.pop()
                l = vals.pop()
                vals.append(('b', q, l, r))
            opst.append((op, st))
            vals.append(A(i))
        while opst:
            q, _ = opst.pop()
            r = vals.pop()
            l = vals.pop()
            vals.append(('b', q, l, r))
        return vals[0]
    shapes = [
        ('and', lambda n: lchain(AND, n)), ('or', lambda n: lchain(OR, n)),
        ('dnf', lambda n: lchain(OR, n, conj)),                                        # c AND c OR c AND c OR …
        ('cnf_tail', lambda n: ('b', OR, lchain(AND, n, lambda i: ('b', NE, A(i), A(i + 1))), A(1))),   # x AND … AND x OR y
        ('or_dnf', lambda n: lchain(OR, n, lambda i: A(0) if i == 0 else conj(i))),   # y OR c AND c OR …
        ('plus', lambda n: lchain(PLUS, n)), ('minus', lambda n: lchain(MINUS, n)), ('star', lambda n: lchain(STAR, n)),
        ('div_minus', lambda n: lchain(MINUS, n, lambda i: ('b', DIV, A(i), A(i + 1)))),
        ('flat', flat),
        ('btw_and', lambda n: lchain(AND, n, lambda i: ('w', A(i), A(i + 1), A(i + 2)))),
    ]
    if NOT is not None:
        shapes.append(('not_nest', lambda n: __import__('functools').reduce(lambda t, _: ('p', NOT, t), range(n), A(0))))
    if True:
        shapes.append(('rnest', lambda n: __import__('functools').reduce(
            lambda t, i: ('b', MINUS, A(i), ('q', t)), range(n), A(0))))
    lean = len(sizes) <= 2      # quick tier: every shape at the smallest size, the chains a re-balancing would aim at beyond
    for j, (name, mk) in enumerate(shapes):
        for n in sizes + [big]:
            if lean and n == big and name not in ('dnf', 'flat'):
                continue
            if lean and n > sizes[0] and name in ('star', 'div_minus', 'rnest'):
                continue
            if not lean and n == big and name not in ('and', 'dnf', 'flat', 'minus'):
                continue
            yield '%s(%d)' % (name, n), n, mk(n)


def run(chk):
    quick = chk.tier == 'quick'
    broken = bool(chk.broken())
    deep = not quick
    seen_ob = set()
    sys.setrecursionlimit(max(sys.getrecursionlimit(), 60000))   # the long-chain stream: recursive readers over trees 3000 deep

    def oblige_once(name, kind, detail):
        if name not in seen_ob:
            seen_ob.add(name)
            chk.oblige(name, kind, False, detail)
    conn = sqlite3.connect(':memory:')
    lines, metas = [], []
    dist = {}
    for d in DIALECTS:
        ops = Ops(d)
        rng = common.rng_for(chk.seed, 'C03/' + d)
        trees = []
        # exhaustive small trees over one representative operator per stratum (+ all operators at size 1..2)
        reps = {}
        for o in ops.bins:
            reps.setdefault(STRAT[ops.names[o]], o)
        rep_bins = sorted(reps.values())
        for size in (1, 2, 3) if not deep else (1, 2, 3, 4):
            bins = ops.all_bins if size == 1 else (ops.bins if size <= (2 if deep else 1) else rep_bins)
            for t in all_trees(ops, size, bins, ops.pres):
                trees.append(('exh%d' % size, relabel(t, [0])))
        for i in range(60000 if deep else (8000 if broken else 1500)):
            trees.append(('rnd', gen_tree(ops, rng, rng.randint(2, 9))))
        for src, t in trees:
            lines.append('%s %s' % (d, show(t)))
            metas.append((d, ops, src, t))
    # long chains: sizes above every depth threshold a re-balancing / flattening change is likely to use, and one far above
    n_short = len(metas)
    longs = []
    for d in DIALECTS:
        ops = Ops(d)
        rng = common.rng_for(chk.seed, 'C03/long/' + d)
        # (a broken obligation — e.g. the constructor pin — widens the search to the thorough sizes)
        wide = deep or broken
        for name, n, t in long_cases(ops, rng, [130, 600] if not wide else [130, 260, 600, 1100], 1100 if not wide else 3000):
            longs.append((d, ops, name, n, t))
            if n <= 600 or deep:
                lines.append('%s %s' % (d, show_flat(t)))
                metas.append((d, ops, 'long:' + name, t))
    # the model side
    outs = None
    try:
        outs = common.lean_run('OPM', lines)
    except Exception as e:
        chk.oblige('corr:opm', 'correspondence', False, 'driver failed: %s' % e)
    diverged, first, n_ctx = 0, None, 0
    ctx_names = sorted(CONTEXTS)
    # a context that the dialect's grammar does not have at all (sqlite: CASE) is not a C03 matter
    ctx_ok = {}
    for d in DIALECTS:
        o = Ops(d)
        ctx_ok[d] = [c for c in ctx_names if parse_real(d, o, 'c1', c)[0] == ('a', 1)
                     or parse_real(d, o, 'c1 = c2', c)[0] is not None]
        dist['%s/contexts' % d] = ','.join(ctx_ok[d])

    def split_fields(d, ops, text0, touched, cref, c, got, k):
        """what the known-finding signature looks at, for a failure on a comment-separated spelling: the operators whose
        comment-separated spelling ALONE (all others written with a blank) already changes the tree"""
        plain, _ = parse_real(d, ops, text0, c)
        culprits = []
        for w in sorted(set(touched)):
            only = re.sub(r'\b%s\b' % w, lambda m: w.replace(' ', COMMENT_SEPS[k % len(COMMENT_SEPS)]), text0)
            g, _ = parse_real(d, ops, only, c)
            if g != cref:
                culprits.append(w)
        return dict(split_ops=culprits, plain_ok=plain == cref, is_of_not=bool(got) and has_is_of_not(ops, got),
                    plain_text=text0)
    for i, (d, ops, src, t) in enumerate(metas[:n_short]):
        ref = add_parens(ops, t)
        cref = canon_tree(ops, ref)
        if outs is not None:
            parts = [x.strip() for x in outs[i].split('|')]
            model_res, model_ref = canon_str(ops, parts[1]), parts[2]
            if model_ref != show(ref):
                oblige_once('mirror:addParens', 'harness', 'python mirror of addParens differs on %s' % show(t))
            if 'frag=1' in parts[3] and parts[1] != model_ref:
                oblige_once('model:roundtrip-instance', 'theorem-instance', outs[i][:300])
        text0 = text = to_sql(ops, ref, lambda n: 'c%d' % n)
        touched, commented = [], False
        if i % 4 == 1:
            # multi-word operators are one operator whatever blanks separate the words
            text, _ = respell(text0, WS_SEPS, i // 4)
        elif i % 4 == 3:
            # … and whatever comment: the words then arrive as separate terminals (other rules of the grammar, or none)
            text, touched = respell(text0, COMMENT_SEPS, i // 4)
            commented = bool(touched)
        cn = ctx_ok[d]
        ctx = cn[i % len(cn)] if src == 'rnd' or not deep else None
        for c in ([ctx] if ctx else cn):
            n_ctx += 1
            got, err = parse_real(d, ops, text, c)
            chk.count((d, c, text))
            if commented and got is None and err and err.startswith('ParsingException') \
                    and any(w not in ops.has_split for w in touched):
                # the dialect has no rule for the separate words of this operator: a typed rejection is not a grouping
                # (the same tree or a rejection are the two acceptable outcomes; a different tree is reported below)
                dist['%s/split-reject' % d] = dist.get('%s/split-reject' % d, 0) + 1
                continue
            key = '%s/%s/%s' % (d, 'split' if commented else src, 'ok' if got == cref else ('reject' if got is None else 'regrouped'))
            dist[key] = dist.get(key, 0) + 1
            if got != cref:
                f = dict(desc='parser groups %r differently from SQL (or rejects it)' % text, dialect=d, context=c,
                         text=text, expected=show(cref), got=show(got) if got else None, error=err,
                         **{'class': 'grouping:split-spelling' if commented else 'grouping'})
                if commented:
                    f.update(split_fields(d, ops, text0, touched, cref, c, got, i))
                chk.classify(f, kf_match)
                chk.fail(f)
                if outs is not None and model_res == show(cref) and not f.get('kf'):
                    diverged += 1
                    first = first or dict(dialect=d, context=c, text=text, model=model_res, impl=show(got) if got else err)
            elif outs is not None and model_res != show(got):
                diverged += 1
                first = first or dict(dialect=d, context=c, text=text, model=model_res, impl=show(got))
        # evaluation against sqlite3 (reference engine) for the evaluable operators
        if evaluable(ops, ref) and (i % 3 == 0 or deep):
            got, err = parse_real(d, ops, text, 'select')
            if got is not None:
                for env in ENVS[:3] if not deep else ENVS:
                    sql = 'SELECT ' + to_sql(ops, ref, lambda n: lit(env[n]))
                    try:
                        want = conn.execute(sql).fetchone()[0]
                    except sqlite3.Error:
                        continue
                    if isinstance(want, float):
                        continue
                    val = evaluate(ops, got, env)
                    chk.count(('eval', d, sql))
                    if val != want:
                        f = dict(desc='value of the parsed tree differs from sqlite3 on %r' % sql, dialect=d, text=text,
                                 sql=sql, sqlite=want, tree_value=val, tree=show(got), env=list(env),
                                 **{'class': 'eval:split-spelling' if commented else 'eval'})
                        if commented:
                            f.update(split_fields(d, ops, text0, touched, cref, 'select', got, i))
                        chk.classify(f, kf_match)
                        chk.fail(f)
        # the same expression with LITERAL atoms (constants take other grammar rules than identifiers: folding rules such as
        # `MINUS constant`, constructors that look at literal arguments): grouping with the distinct integers 100+n ...
        if i % 3 == 2 or deep:
            tl = to_sql(ops, ref, lambda n: str(100 + n))
            cn = ctx_ok[d]
            c = cn[(i // 3) % len(cn)]
            got, err = parse_real(d, ops, tl, c)
            chk.count((d, c, tl))
            dist['%s/lit/%s' % (d, 'ok' if got == cref else 'differs')] = dist.get('%s/lit/%s' % (d, 'ok' if got == cref else 'differs'), 0) + 1
            if got is None and err and 'must contain an operation that evaluates to a boolean' in err:
                # a deliberate, typed rejection of a bare constant as WHERE / HAVING condition (`WHERE - 100`): not a grouping matter
                dist['%s/lit/constant-condition' % d] = dist.get('%s/lit/constant-condition' % d, 0) + 1
            elif got is None or fold_minus(ops, got) != fold_minus(ops, cref):
                f = dict(desc='parser groups %r (literal operands) differently from SQL (or rejects it)' % tl, dialect=d, context=c,
                         text=tl, expected=show(cref), got=show(got) if got else None, error=err, **{'class': 'grouping:literal-atoms'})
                chk.classify(f, kf_match)
                chk.fail(f)
            # ... and evaluation of the tree parsed from the text with the VALUES written in (non-negative values only: a
            # leading minus is a different token sequence)
            if evaluable(ops, ref):
                for env in [e for e in ENVS if all(v is None or v >= 0 for v in e)][:3 if not deep else 9]:
                    sql_e = to_sql(ops, ref, lambda n: lit(env[n]))
                    try:
                        want = conn.execute('SELECT ' + sql_e).fetchone()[0]
                    except sqlite3.Error:
                        continue
                    if isinstance(want, float):
                        continue
                    got, err = parse_real(d, ops, sql_e, 'select')
                    chk.count(('eval-lit', d, sql_e))
                    if got is None and err and "Unary minus can't be applied" in err:
                        continue      # a deliberate, typed rejection of `- NULL` / `- 'text'`: not a grouping matter
                    if got is None:
                        f = dict(desc='expression with literal operands %r is rejected or leaves the fragment' % sql_e, dialect=d,
                                 text=sql_e, error=err, **{'class': 'grouping:literal-values'})
                        chk.classify(f, kf_match); chk.fail(f)
                        continue
                    val = evaluate(ops, got, env)
                    if val != want:
                        f = dict(desc='value of the tree parsed from %r differs from sqlite3' % sql_e, dialect=d, text=sql_e,
                                 sql='SELECT ' + sql_e, sqlite=want, tree_value=val, tree=show(got), **{'class': 'eval:literal'})
                        chk.classify(f, kf_match); chk.fail(f)
    # ---- long chains: grouping against the reference, the model, and (up to sqlite's own depth limit) evaluation
    long_model = {}
    if outs is not None:
        for j, (d, ops, src, t) in enumerate(metas[n_short:]):
            long_model[(d, src)] = outs[n_short + j]
    for j, (d, ops, name, n, t) in enumerate(longs):
        ref = add_parens(ops, t)
        want_s = show_flat(canon_tree(ops, ref))
        text = to_sql(ops, ref, lambda m: 'c%d' % m)
        cn = ctx_ok[d]
        c = cn[j % len(cn)]
        n_ctx += 1
        got, err = parse_real(d, ops, text, c)
        chk.count((d, c, 'long', name))
        got_s = show_flat(got) if got else None
        key = '%s/long/%s' % (d, 'ok' if got_s == want_s else ('reject' if got is None else 'regrouped'))
        dist[key] = dist.get(key, 0) + 1
        mo = long_model.get((d, 'long:' + name))
        if mo is not None:
            parts = [x.strip() for x in mo.split('|')]
            if 'frag=1' in parts[3] and parts[1] != parts[2]:
                oblige_once('model:roundtrip-instance', 'theorem-instance', 'long chain %s/%s' % (d, name))
            if canon_str(ops, parts[1]) != (got_s if got_s is not None else want_s):
                diverged += 1
                first = first or dict(dialect=d, context=c, text=text[:300], model=parts[1][:300], impl=(got_s or err)[:300])
        if got_s != want_s:
            f = dict(desc='parser groups the %d-operator chain %s (%r …) differently from SQL (or rejects it)' % (n, name, text[:80]),
                     dialect=d, context=c, text=text, expected=want_s, got=got_s, error=err, chain=name,
                     left_spine=dict(expected=left_depth(ref), got=left_depth(got) if got else None),
                     **{'class': 'grouping:long-chain'})
            chk.classify(f, kf_match)
            chk.fail(f)
            continue
        if n <= 600 and evaluable(ops, ref):
            for env in ENVS[:2] if not deep else ENVS[:4]:
                sql = 'SELECT ' + to_sql(ops, ref, lambda m: lit(env[m]))
                try:
                    want = conn.execute(sql).fetchone()[0]
                except sqlite3.Error:
                    continue
                if isinstance(want, float):
                    continue
                try:
                    val = evaluate(ops, got, env)
                except OverflowError:
                    continue
                chk.count(('eval-long', d, name, env))
                if val != want:
                    f = dict(desc='value of the tree parsed from the chain %s differs from sqlite3' % name, dialect=d, text=text,
                             sql=sql, sqlite=want, tree_value=val, env=list(env), **{'class': 'eval:long-chain'})
                    chk.classify(f, kf_match)
                    chk.fail(f)
    # ---- operators the dialect accepts outside F: small trees around them against the reference grouping (no model: the
    # machine has no precedence data for them)
    for d in DIALECTS:
        ops = Ops(d)
        lost = lost_ops(d, ops)
        dist['%s/outside-F' % d] = ','.join(ops.names[o] for o in lost)
        reps = {}
        for o in ops.bins:
            reps.setdefault(STRAT[ops.names[o]], o)
        cn = ctx_ok[d]
        for L in lost:
            j = 0
            for size in (1, 2):
                for t in all_trees(ops, size, [L] + sorted(reps.values()), ops.pres):
                    if not contains_op(t, L):
                        continue
                    t = relabel(t, [0])
                    ref = add_parens(ops, t)
                    text = to_sql(ops, ref, lambda n: 'c%d' % n)
                    c = cn[j % len(cn)]
                    j += 1
                    got, err = parse_real(d, ops, text, c)
                    chk.count((d, c, text))
                    key = '%s/outside-F/%s' % (d, 'ok' if got == ref else ('reject' if got is None else 'regrouped'))
                    dist[key] = dist.get(key, 0) + 1
                    if got != ref:
                        f = dict(desc='parser groups %r differently from SQL (or rejects it); operator %r is accepted by the dialect '
                                      'but has no production of a shape the translator knows (outside F)' % (text, ops.names[L]),
                                 dialect=d, context=c, text=text, expected=show(ref), got=show(got) if got else None, error=err,
                                 **{'class': 'grouping:outside-F'})
                        chk.classify(f, kf_match)
                        chk.fail(f)
    if outs is not None:
        chk.corr_result('opm', n_ctx, diverged, first, dist)
    # ---- known findings still reproduce?
    for k in chk.kf:
        if k.get('status') != 'open':
            continue
        w = k.get('witness', {})
        try:
            wops = Ops(w['dialect'])
            got, err = parse_real(w['dialect'], wops, w['text'], w.get('context', 'select'))
            plain, _ = parse_real(w['dialect'], wops, w['plain_text'], w.get('context', 'select'))
            if got is not None and plain is not None and got != plain and has_is_of_not(wops, got):
                k['_reproduced'] = True
        except Exception:
            pass
    for (d, ops, src, t) in metas[:2] + metas[n_short - 2:n_short]:
        chk.samples.append(dict(dialect=d, src=src, tree=show(t), text=to_sql(ops, add_parens(ops, t), lambda n: 'c%d' % n)))
    for (d, ops, name, n, t) in longs[:2]:
        chk.samples.append(dict(dialect=d, src='long:' + name, operators=n,
                                text=to_sql(ops, add_parens(ops, t), lambda m: 'c%d' % m)[:120] + ' …'))
    chk.samples.append(dict(theorem='C03_full P S F := ∀ e, inFragment F e = true → parse P (print P (addParens S e)) [] none = some (addParens S e) ∧ strip (addParens S e) = strip e'))
    chk.samples.append(dict(theorem='C03_value: sqlOrder P S F → K.Faithful → ∀ e ∈ F, (parse P (print P (addParens S e)) [] none).map (read ∘ act K) = some (norm (addParens S e))'))
    return chk.finish(assumptions=ASSUME)


def replay(path):
    data = json.load(open(path))
    f = data.get('failure')
    if not f:
        print(json.dumps(data, indent=1)[:3000])
        return 1
    sys.setrecursionlimit(max(sys.getrecursionlimit(), 60000))
    ops = Ops(f['dialect'])
    lost_ops(f['dialect'], ops)
    got, err = parse_real(f['dialect'], ops, f['text'], f.get('context', 'select'))
    if 'expected' in f:
        got_s = show_flat(got) if got else None
        bad = got_s != f['expected']
        print('REPRODUCED' if bad else 'not reproduced', repr(f['text'][:200]), 'expected', f['expected'][:300], 'got',
              got_s[:300] if got_s else err)
        return 1 if bad else 0
    # an evaluation failure: the value of the parsed tree against sqlite3 on the recorded statement
    want = sqlite3.connect(':memory:').execute(f['sql']).fetchone()[0]
    val = evaluate(ops, got, tuple(f['env'])) if got is not None and 'env' in f else None
    bad = val != want
    print('REPRODUCED' if bad else 'not reproduced', repr(f['text'][:200]), 'sqlite', want, 'tree value', val)
    return 1 if bad else 0
