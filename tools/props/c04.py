"""C04 — string, number and identifier tokens keep exactly the value the SQL text denotes."""
import json, re, sys
from tools.harness import common, lexh, hist
from tools.harness import slots as slotsh
from tools.harness.common import DIALECTS
from tools.harness.lexh import enc, dec, dec_list

ID = 'C04'
TARGETS = ['MindsVerif.Props.C04']
THEOREMS = ['MindsVerif.Props.C04.' + n for n in (
    # theorems about the models tied to the live code (string codec Model/Codec.lean, identifier codec Model/LexBq.lean,
    # numbers, variables, keyword obligations on generated tables)
    'C04_live_models', 'C04_codec_decode', 'C04_codec_encode', 'C04_codec_roundtrip', 'C04_scan_quote', 'C04_scan_dquote',
    'C04_identifier_bq_generic', 'C04_identifier_bq_mindsdb', 'C04_identifier_bq_mysql', 'C04_identifier_bq_sqlite',
    'phi4_mindsdb', 'phi4_mysql', 'phi4_sqlite', 'phi4h_mindsdb', 'phi4h_mysql', 'phi4h_sqlite',
    'C04_review_integer_lex', 'C04_review_digit_not_idLetter', 'C04_integer', 'C04_variable', 'C04_witness_variable',
    # round 5: the text between parse_sql's argument and the lexer (Model/PreLex.lean); object histories (Model/Hist.lean)
    'C04_prelex_exact', 'C04_prelex_prefix', 'C04_prelex_literal', 'C04_history_identifier', 'C04_history_identifier_mindsdb',
    'C04_history_identifier_mysql', 'C04_history_identifier_sqlite', 'C04_history_constant', 'C04_history_obs_pure',
    'C04_memo_iff', 'C04_witness_stale_cache',
    # round 6: constant slots (every position that holds a constant; second string printer json_to_sql, Model/CodecDq.lean)
    'C04_slot_readback', 'C04_slot_readback_dq', 'C04_codec_roundtrip_dq', 'C04_witness_repr_cell',
    # history / regression theorems about the OLD variants (Model/Lex.lean: string codec before 2843e02, identifier codec
    # before the doubled back-quote); no stream drives these models while codecFixed / bqDoubled are on
    'C04_old_identifier_partial', 'C04_old_identifier_mindsdb', 'C04_old_identifier_mysql', 'C04_old_identifier_sqlite',
    'C04_old_decode_partial', 'C04_old_decode_dquote_partial', 'C04_old_decode_simple_partial', 'C04_old_encode_partial',
    'C04_old_roundtrip_mindsdb_partial', 'C04_old_roundtrip_simple_partial', 'C04_old_witness_roundtrip',
    'C04_old_witness_edge', 'C04_old_witness_escbs', 'C04_old_witness_run', 'C04_old_witness_simple',
    'C04_old_witness_encode', 'C04_old_witness_ident', 'C04_old_witness_backquote')]
ASSUME = [
    'specification reading Denote (Model/Denote.lean): which escapes a literal has and what they denote (DESIGN.md §C04); '
    'mirrored independently in tools/harness/lexh.py and compared with the Lean text on every run',
    'Python re backtracking on the pinned regexes and the one-scan decoder / printer are hand-modelled (Model/Lex.lean matchers, '
    'Model/Codec.lean; Model/Lex.lean codec = history); tie = exhaustive short-string correspondence with the real lexer and '
    'with parse_sql in the three dialects; which model is tied is decided by the live tree (codecFixed, bqDoubled)',
    'float() / repr() of floats are not modelled: decimals and negative numbers are covered by the impl-level probe only '
    '(print -> parse exact, same type); non-ASCII digits accepted by \\d / int() are probe-only',
    'the identifier theorems are about lexer + `id`/`identifier` grammar actions + path_str_to_parts on a dotted path printed by '
    'parts_to_str (print -> lex); the source -> parts direction and the LALR context (select list) are covered by the probes through parse_sql',
    'variables: Variable.get_string and the VARIABLE / SYSTEM_VARIABLE rules + decoding are hand-modelled (Model/Lex.lean), tied by the '
    'variable-print / variable-roundtrip streams (mysql, mindsdb); the quantifier domain is the names some source text denotes (VarOK)',
    'the `C04_old_*` theorems speak about the former codecs (Model/Lex.lean) and are not tied to the live code',
    'pre-lexing step of parse_sql (re.sub of the trailing [\\s;] run) is hand-modelled (Model/PreLex.lean); tie = `prelex` stream: the text the real '
    'parse_sql hands to lexer.tokenize is captured (get_lexer_parser wrapped for the call) and compared with the model, and `\\s` is compared with '
    'the live re module over all of Unicode (`pyspace`)',
    'constant slots: WHICH positions hold a constant is discovered at run time (tools/harness/slots.py: corpus of the test-suite statements + templates, '
    'every string / number of every tree probed with a sentinel); that each slot prints its value with one of the two modelled string printers '
    '(Codec.constantToString, Codec.jsonStrToSql) is the `slot-print` stream, that the text is read back at the same place is probe P8; numbers in slots are probe-only',
    'object histories: the live printers are modelled as functions of the current attributes (Hist.runLive); tie = `ident-history` stream (same '
    'list edits / observations on a real Identifier) and the history probe over every node class the templates of tools/harness/hist.py reach; '
    'Python list semantics of pop / insert / item assignment are transcribed for valid indices only',
]

KIND_Q = {"'": ('scanq', 'spec1', True), '"': ('scandq', 'spec2', False)}


# ------------------------------------------------------------------------------------------ known findings
def kf_match(k, f):
    sig = k.get('signature', {})
    if sig.get('kind') != f.get('kind'):
        return False
    if 'dialects' in sig and f.get('dialect') not in sig['dialects']:
        return False
    cls = sig.get('class')
    return cls in f.get('classes', [])


def codec_fixed():
    """docs/proposed_fixes/C04_2.diff is live in the tree under test (one-scan decoder shared by the three parsers)"""
    from mindsdb_sql.parser import utils as U
    return hasattr(U, 'unescape_string')


def bq_doubled():
    """docs/proposed_fixes/C04_4.diff is live: a back-quote inside an identifier part is written doubled"""
    from mindsdb_sql.parser.ast.select import identifier as I
    return '``' in I.path_str_parts_regex.pattern


def literal_classes(dialect, q, items):
    """KF classes (predicates on the spec reading of the source literal)"""
    out = []
    if codec_fixed():
        return out      # the repaired codec has no excluded class: every failure is new
    if dialect == 'mindsdb':
        if lexh.has_esc_backslash(items):
            out.append('escaped-backslash')
        if lexh.edge_quote(items, q):
            out.append('edge-delimiter')
        if q == "'" and lexh.esc_quote_run_exact(items, q):
            out.append('escaped-quote-run')
    else:
        if lexh.uses_escape(items):
            out.append('escape-in-escapeless-lexer')
    return out


def ident_classes(dialect, parts, kfwords):
    out = []
    if any(p.upper() in kfwords.get(dialect, []) for p in parts):
        out.append('unreserved-keyword')
    if any(p == '' or ('`' in p and not bq_doubled()) for p in parts):
        out.append('unrepresentable-part')
    return out


# ------------------------------------------------------------------------------------------ probes
def probe_literal(dialect, q, body, trail='', got=None):
    """P1: a source literal (by the spec grammar), optionally followed by white space / semicolons that end the
    statement, must be read as a constant holding the denoted value"""
    src = q + body + q
    sp = lexh.spec_scan(src, q, q == "'")
    if sp is None or sp[1] != '':
        return None, None
    items = sp[0]
    want = lexh.denote(items, q)
    if got is None:
        got = lexh.observe_select(dialect, src + trail)
    if got == ('str', want):
        return True, None
    return False, dict(kind='decode', desc='literal %r%s is read as %r, denotes %r' % (src, ' followed by %r' % trail if trail else '', got, want),
                       dialect=dialect, text=src, trail=trail, quote=q, expected=want, got=list(got),
                       classes=literal_classes(dialect, q, items),
                       **{'class': 'decode/%s/%s' % (dialect, '+'.join(literal_classes(dialect, q, items)) or 'NEW')})


def probe_print_value(dialect, v):
    """P2': Constant(v).to_string() must be one literal (spec grammar) denoting v;
       P2 : and parse_sql must read it back as v"""
    from mindsdb_sql.parser.ast import Constant
    txt = Constant(v).to_string()
    sp = lexh.spec_scan(txt, "'", True)
    fails = []
    if sp is None or sp[1] != '' or lexh.denote(sp[0], "'") != v:
        cls = ['print-backslash'] if not lexh.enc_ok(v) and not codec_fixed() else []
        fails.append(dict(kind='encode', desc='Constant(%r).to_string() = %r does not denote the value' % (v, txt),
                          dialect='-', value=v, text=txt, classes=cls,
                          **{'class': 'encode/' + ('+'.join(cls) or 'NEW')}))
        return fails
    got = lexh.observe_select(dialect, txt)
    if got != ('str', v):
        cls = literal_classes(dialect, "'", sp[0])
        fails.append(dict(kind='decode', desc='Constant(%r) prints %r which %s reads back as %r' % (v, txt, dialect, got),
                          dialect=dialect, value=v, text=txt, quote="'", expected=v, got=list(got), classes=cls,
                          **{'class': 'roundtrip/%s/%s' % (dialect, '+'.join(cls) or 'NEW')}))
    return fails


def probe_ident(dialect, parts, kfwords):
    """P3: Identifier(parts).to_string() must parse back to the same parts (case preserved, split at unquoted dots)"""
    from mindsdb_sql.parser.ast import Identifier
    try:
        txt = Identifier(parts=list(parts)).to_string()
    except Exception as e:
        txt = None
        got = ('printexc', type(e).__name__)
    if txt is not None:
        got = lexh.observe_select(dialect, txt)
        if got == ('ident', list(parts)):
            return None
    cls = ident_classes(dialect, parts, kfwords)
    return dict(kind='ident', desc='Identifier(parts=%r) prints %r, read back as %r' % (parts, txt, got), dialect=dialect,
                parts=list(parts), text=txt, got=list(got), classes=cls,
                **{'class': 'ident/%s/%s' % (dialect, '+'.join(cls) or 'NEW')})


def probe_ident_source(dialect, parts):
    """P4: a fully back-quoted path denotes its parts"""
    txt = '.'.join('`%s`' % p for p in parts)
    got = lexh.observe_select(dialect, txt)
    if got == ('ident', list(parts)):
        return None
    return dict(kind='ident-source', desc='path %r is read as %r, denotes %r' % (txt, got, parts), dialect=dialect,
                parts=list(parts), text=txt, got=list(got), classes=[], **{'class': 'ident-source/%s/NEW' % dialect})


ID_WORD = re.compile(r'[a-zA-Z_$0-9]*[a-zA-Z_$]+[a-zA-Z_$0-9]*')


def plain_source_ok(word, kwset):
    """an unquoted word that the ID rule must take as a whole: ASCII ID shape, and neither the word nor its
    prefix before the first `$` (a `\\b` boundary) is a keyword"""
    return bool(ID_WORD.fullmatch(word)) and word.upper() not in kwset and word.split('$')[0].upper() not in kwset


def probe_ident_plain(dialect, parts):
    """P4b: an unquoted dotted path denotes exactly its written parts (no part is cut, no implicit alias)"""
    txt = '.'.join(parts)
    got = lexh.observe_select(dialect, txt)
    if got == ('ident', list(parts)):
        return None
    return dict(kind='ident-plain', desc='unquoted path %r is read as %r, denotes %r' % (txt, got, parts), dialect=dialect,
                parts=list(parts), text=txt, got=list(got), classes=[], **{'class': 'ident-plain/%s/NEW' % dialect})


def probe_variable(dialect, name, system):
    """P6: Variable(name).to_string() is read back as the same variable (name, user/system, no alias)"""
    from mindsdb_sql.parser.ast import Variable
    txt = Variable(name, is_system_var=system).to_string()
    got = lexh.observe_variable(dialect, txt)
    if got == ('var', system, name):
        return None
    return dict(kind='variable', desc='Variable(%r, is_system_var=%r) prints %r, read back as %r' % (name, system, txt, got),
                dialect=dialect, name=name, system=system, text=txt, got=list(got), classes=[],
                **{'class': 'variable/%s/NEW' % dialect})


def probe_variable_source(dialect, name, system, style):
    """P6b: a variable written bare or in one of the three quote styles denotes its name"""
    txt = ('@@' if system else '@') + (name if style == '' else style + name + style)
    got = lexh.observe_variable(dialect, txt)
    if got == ('var', system, name):
        return None
    return dict(kind='variable-source', desc='variable text %r is read as %r, denotes %r' % (txt, got, name), dialect=dialect,
                name=name, system=system, style=style, text=txt, got=list(got), classes=[],
                **{'class': 'variable-source/%s/NEW' % dialect})


def probe_number(dialect, v):
    """P5: numbers print to text that reads back as exactly the same number (same type; floats bit-exact)"""
    from mindsdb_sql.parser.ast import Constant
    txt = Constant(v).to_string()
    got = lexh.observe_select(dialect, txt)
    kind = 'int' if isinstance(v, int) else 'float'
    if got[0] == kind and type(got[1]) is type(v) and got[1] == v and repr(got[1]) == repr(v):
        return None
    cls = ['float-exponent-repr'] if isinstance(v, float) and ('e' in txt or 'inf' in txt or 'nan' in txt) else []
    return dict(kind='number', desc='Constant(%r) prints %r, read back as %r' % (v, txt, got), dialect=dialect, value=v,
                text=txt, got=list(got), classes=cls, **{'class': 'number/%s' % ('+'.join(cls) or 'NEW')})


def probe_number_source(dialect, txt):
    got = lexh.observe_select(dialect, txt)
    if re.fullmatch(r'[0-9]+', txt):
        want = ('int', int(txt))
    else:
        want = ('float', float(txt))
    if got == want:
        return None
    return dict(kind='number-source', desc='numeric literal %r is read as %r' % (txt, got), dialect=dialect, text=txt,
                got=list(got), classes=[], **{'class': 'number-source/NEW'})


def probe_history(ti, edits):
    """P7: a statement tree that is looked at (str, to_string, to_tree, ==, repr, copies) between in-place edits of its
    nodes prints what an unobserved tree with the same edits prints (A) and the text denotes, at the edited place, the
    value the node holds now (B)"""
    try:
        r = hist.run_history(ti, edits)
    except Exception as e:
        r = dict(oracle='exc', step=-1, why='%s: %s' % (type(e).__name__, e))
    if r is None:
        return None
    e = edits[r['step']] if 0 <= r['step'] < len(edits) else {}
    what = '%s.%s %s' % (e.get('cls'), e.get('attr'), e.get('op'))
    return dict(kind='history', desc='%r printed / compared, then %s in place (%s): %s' % (
        hist.TEMPLATES[ti], what, json.dumps([(x['path'], x['attr'], x['op'], x['args']) for x in edits[:r['step'] + 1]], ensure_ascii=False), r['why']),
        dialect='mindsdb', template=ti, edits=edits[:r['step'] + 1], oracle=r['oracle'], classes=[],
        **{'class': 'history/%s/%s/NEW' % (r['oracle'], what)})


IDENT_HIST_WORDS = ['Int1', 'My Tab', 'select', 'a.b', 'x', 'NAME', 'Name', 't', 'a`b', '1a', 'é', 'Proj.A', 'tbl', 'a\r\nb', 'ORDER', 'c$']


def gen_ident_history(rng):
    """(initial parts, events) for a bare Identifier; events: ('P',) print, ('Q', kind) silent observation,
    ('A', parts) assign, ('O', i) pop, ('I', i, part) insert, ('X', part) append, ('S', i, part) item assignment,
    ('E', parts) extend, ('R',) reverse — indices valid, the list never becomes empty"""
    w = lambda: rng.choice(IDENT_HIST_WORDS)
    cur = [w() for _ in range(rng.randint(1, 3))]
    evs = [('A', list(cur))]
    for _ in range(rng.randint(2, 7)):
        r = rng.random()
        if r < 0.3:
            evs.append(('P',))
        elif r < 0.45:
            evs.append(('Q', rng.choice(['str', 'eq', 'tree', 'copy', 'repr', 'get_string'])))
        else:
            k = rng.choice('OISXERA')
            if k == 'O' and len(cur) > 1:
                i = rng.randrange(len(cur)); cur.pop(i); evs.append(('O', i))
            elif k == 'I':
                i = rng.randint(0, len(cur) + 1); x = w(); cur.insert(i, x); evs.append(('I', i, x))
            elif k == 'S':
                i = rng.randrange(len(cur)); x = rng.choice([w(), cur[i].upper(), cur[i].swapcase()]); cur[i] = x; evs.append(('S', i, x))
            elif k == 'X':
                x = w(); cur.append(x); evs.append(('X', x))
            elif k == 'E':
                xs = [w() for _ in range(rng.randint(1, 2))]; cur.extend(xs); evs.append(('E', xs))
            elif k == 'R':
                cur.reverse(); evs.append(('R',))
            elif k == 'A':
                cur = [w() for _ in range(rng.randint(1, 3))]; evs.append(('A', list(cur)))
    evs.append(('P',))
    return evs


def ident_history_line(d, evs):
    enc_parts = lambda ps: '|'.join(enc(p) for p in ps) if ps else '~'
    items = []
    for e in evs:
        if e[0] == 'Q':
            continue
        if e[0] in 'PR':
            items.append(e[0])
        elif e[0] in 'AE':
            items.append('%s:%s' % (e[0], enc_parts(e[1])))
        elif e[0] == 'O':
            items.append('O:%d' % e[1])
        elif e[0] == 'X':
            items.append('X:%s' % enc(e[1]))
        else:
            items.append('%s:%d:%s' % (e[0], e[1], enc(e[2])))
    return 'hist %s %s' % (d, '/'.join(items))


def run_ident_history(evs):
    """the same history on a real Identifier: [(parts held, text printed)] for every ('P',)"""
    import copy as _copy
    from mindsdb_sql.parser.ast import Identifier
    node, out = None, []
    for e in evs:
        k = e[0]
        if k == 'A':
            if node is None:
                node = Identifier(parts=list(e[1]))
            else:
                node.parts = list(e[1])
        elif k == 'P':
            out.append((list(node.parts), node.to_string()))
        elif k == 'Q':
            {'str': lambda: str(node), 'eq': lambda: node == _copy.deepcopy(node), 'tree': lambda: node.to_tree(),
             'copy': lambda: _copy.copy(node), 'repr': lambda: repr(node), 'get_string': lambda: node.get_string()}[e[1]]()
        elif k == 'O':
            node.parts.pop(e[1])
        elif k == 'I':
            node.parts.insert(e[1], e[2])
        elif k == 'S':
            node.parts[e[1]] = e[2]
        elif k == 'X':
            node.parts.append(e[1])
        elif k == 'E':
            node.parts.extend(e[1])
        elif k == 'R':
            node.parts.reverse()
    return out


def probe_ident_history(dialect, evs, kfwords):
    """P7i: whatever happened to an Identifier before, the text it prints is read back as the parts it holds now"""
    evs = [tuple(e) for e in evs]
    for held, txt in run_ident_history(evs):
        got = lexh.observe_select(dialect, txt)
        if got != ('ident', held):
            cls = ident_classes(dialect, held, kfwords)
            return dict(kind='ident-history', desc='Identifier after %s holds parts=%r, prints %r, read back as %r' % (
                json.dumps(evs, ensure_ascii=False), held, txt, got), dialect=dialect, events=[list(e) for e in evs], parts=held, text=txt,
                got=list(got), classes=cls, **{'class': 'ident-history/%s/%s' % (dialect, '+'.join(cls) or 'NEW')})
    return None


# ------------------------------------------------------------------------------------------ round 6: constant slots
SLOT_CORE = ['a' + c + 'b' for c in lexh.CTRL] + [
    '\r\n', "'", '"', '\\', "\\'", '\\"', '\\n', '\\x00', '\x00', '\xa0', '\u200b', '\ufeff', 'e\u0301', '\U0001f600', '', ' ', '%s', ':x', "it's",
    'a"b', '`', '\x7f', '\x1b', ';', '--', '/*', 'x' * 300, "''", '""', '\\\\', 'a\\', '{}', 'null', 'true', '1', "' OR '1'='1", '\xe9', '${x}', '\\u0041']
SLOT_NUMS = {'int': [0, 7, 10 ** 20, 2 ** 63], 'float': [0.5, 1.5e-07, 1e+16, 123.456]}


def slot_classes(slot, v, txt):
    """KF classes of a slot failure"""
    out = []
    if slot['kind'] == 'raw' and isinstance(v, float) and ('e' in repr(v)) and (txt is None or repr(v) in txt):
        out.append('json-float-exponent')
    return out


def slot_applies(slot, v):
    """'' in a raw ATTRIBUTE slot means "clause absent" for the printers (`SHOW TABLES LIKE ''`): no constant is placed"""
    return not (v == '' and slot['kind'] == 'raw' and isinstance(slot['path'][-1], str))


def probe_slot(slot, v, tree=None):
    """P8: the value placed in ANY position of a statement that holds a constant (VALUES cell, SET value, CASE branch,
    function argument, IN list, LIMIT, USING / PARAMETERS entry, SHOW … LIKE, …) is found again, same type, at the same
    place when the statement's own text is parsed"""
    txt = None
    try:
        _, txt = slotsh.fill(slot, v, tree)
        got = slotsh.read_back(slot, txt)
        ok = type(got) is type(v) and (got == v) and (not isinstance(v, float) or repr(got) == repr(v))
    except Exception as e:
        got, ok = '%s: %s' % (type(e).__name__, str(e)[:80]), False
    if ok:
        return None, txt
    cls = slot_classes(slot, v, txt)
    shown = txt if txt is None or len(txt) < 400 else txt[:200] + ' … ' + txt[-150:]
    return dict(kind='slot', desc='%s holding %r in the slot %s prints %r; parsed again the slot holds %r' % (
        slot['sql'] if len(slot['sql']) < 160 else slot['sql'][:160] + '…', v if not isinstance(v, str) or len(v) < 80 else v[:80] + '…', slot['sig'], shown, got),
        dialect=slot['dialect'], sig=slot['sig'], sql=slot['sql'], path=slot['path'], slotkind=slot['kind'],
        value=v if isinstance(v, str) else None, number=None if isinstance(v, str) else repr(v), classes=cls,
        **{'class': 'slot/%s/%s' % (slot['sig'], '+'.join(cls) or 'NEW')}), txt


# ------------------------------------------------------------------------------------------ streams
PLAIN_WORDS = ['t1$id', 'tbl1$x', '1a$b', 'a$', '$a', '$', 'a$$b', '1$', '$1', 'a$1', 'A_1$b2', 'x', 'Ab', '_x', '1a', 'a1', '9_', 'col$']
WORDS = PLAIN_WORDS + ['a', 'B1', '_x', '1a', '1', 'x$', 'é', 'a b', 'a.b', 'ıf', 'Ab', 'a-b', '*', '"a"', "'a'", 'a\nb', ' ',
         'KNOWLEDGE BASE', 'charset', 'ſet', 'select$x', 'İf', 'tAbLe', 'a`b', '', '\u212aey', 'a\u212a']


def keyword_words(S, d):
    out = set()
    for n, p in S[d]['rules']:
        if p.startswith('\\b'):
            out.add(n)
            m = re.fullmatch(r'\\b([A-Za-z_]+)\\b', p)
            if m:
                out.add(m.group(1))
    return sorted(out)


def run(chk):
    chk.kf[:] = list({k['id']: k for k in chk.kf}.values())   # a proposed (changed) entry replaces the committed one
    quick = chk.tier == 'quick'
    broken = bool(chk.broken())
    deep = not quick
    S = lexh.lex_side()
    kfwords = {}
    for k in chk.kf:
        if k.get('status') == 'open' and k.get('signature', {}).get('class') == 'unreserved-keyword':
            kfwords = k['signature']['words']
    FIXED = codec_fixed()               # which codec model is tied to the live code (Model/Lex vs Model/Codec)
    READ = 'read2 %s %s' if FIXED else 'read %s %s'
    BQ = bq_doubled()                   # which identifier model is tied to the live code (Model/Lex vs Model/LexBq)
    n_scan = 5 if quick else 6          # exhaustive length for scanner / spec correspondence
    n_parse = 4 if quick else 5         # exhaustive length through parse_sql
    if broken and quick:
        n_parse = 5
    n_rand = 900 if quick else 30000
    dist = {}

    def bump(k):
        dist[k] = dist.get(k, 0) + 1

    def record(f):
        chk.classify(f, kf_match)
        chk.fail(f)

    # ---------------------------------------------------------------- build the model-side lines
    lines, metas = [], []

    def ask(meta, line):
        lines.append(line)
        metas.append(meta)

    rng = common.rng_for(chk.seed, 'C04/strings')
    bodies_scan = list(lexh.strings_upto(n_scan))
    bodies_parse = list(lexh.strings_upto(n_parse))
    rand_bodies = [lexh.random_string(rng, n_parse + 1, 9, extra=rng.choice(['', 'n%', "''", '\\\\', '\\\''])) for _ in range(n_rand)]
    rand_bodies += [lexh.random_string(rng, 1, 8, alphabet=lexh.UNICODE_POOL + ["'", '\\', '"']) for _ in range(n_rand // 3)]
    # round 5: contents with every ordered pair of control / white-space characters (CR LF, LF CR, TAB, VT, FF, FS-US, NEL,
    # LS, PS) and what Unicode / blank / case normalisations, BOM / NUL stripping or quote replacement would change
    ctrl_bodies = list(dict.fromkeys(lexh.ctrl_contents() + lexh.NORMALISE_POOL))
    ctrl_words = [b for b in ctrl_bodies if b and '\x00' not in b and (b.startswith('a') or b in lexh.NORMALISE_POOL)]
    # (i) scanners vs the real lexer's first token (master regex + action); text = delimiter + string
    for b in bodies_scan + rand_bodies + ctrl_bodies:
        for q, (op, sop, dbl) in KIND_Q.items():
            for d in ('mindsdb', 'sqlite'):
                ask(('scan', d, q, q + b), '%s %s %s' % (op, 'mindsdb' if FIXED else d, enc(q + b)))
            ask(('spec', q, q + b), '%s - %s' % (sop, enc(q + b)))
    # (ii) decode model vs parse_sql, closed literals
    for b in bodies_parse + rand_bodies + ctrl_bodies:
        for q in KIND_Q:
            for d in DIALECTS:
                ask(('read', d, q, q + b + q), READ % (d, enc(q + b + q)))
    # … and literals generated from the *specification* items (adjacent escapes of every kind, up to 4 / 5 items)
    import itertools
    ITEMS = {"'": ['a', '"', "\\'", '\\"', '\\\\', '\\n', "''"], '"': ['a', "'", "\\'", '\\"', '\\\\', '\\n']}
    for q, its in ITEMS.items():
        for k in range(1, (4 if quick else 5) + 1):
            for t in itertools.product(its, repeat=k):
                b = 'x' + ''.join(t) + 'y' if k >= 3 else ''.join(t)
                for d in DIALECTS:
                    ask(('read', d, q, q + b + q), READ % (d, enc(q + b + q)))
    # (iii) encoders
    values = list(dict.fromkeys(bodies_parse + rand_bodies + ctrl_bodies + SLOT_CORE))
    for v in values:
        ask(('enc', v), '%s - %s' % ('enc2' if FIXED else 'enc', enc(v)))
    # identifiers: parts over word pools (every keyword word of every dialect included)
    rngi = common.rng_for(chk.seed, 'C04/ident')
    ident_cases = []
    for d in DIALECTS:
        pool = keyword_words(S, d) + WORDS
        for w in pool:
            for parts in ([w], [w.lower()], ['t', w], [w.capitalize(), 'c']):
                ident_cases.append((d, parts))
        for w in ctrl_words:
            ident_cases.append((d, [w]))
            ident_cases.append((d, ['t', w]))
        for _ in range(300 if quick else 5000):
            ident_cases.append((d, [rngi.choice(pool) if rngi.random() < 0.6 else
                                    lexh.random_string(rngi, 1, 4, alphabet=['a', 'B', '1', '_', '.', '$', 'é', ' ', 's', 'E'])
                                    for _ in range(rngi.randint(1, 3))]))
    for d, parts in ident_cases:
        if all(p != '' and '\x00' not in p for p in parts):
            ask(('parts', d, parts), '%s %s %s' % ('parts2' if BQ else 'parts', d, ',0,'.join(enc(p) for p in parts)))
    # raw identifier paths for the lexer-side model
    raw_paths = []
    for d in DIALECTS:
        pool = keyword_words(S, d)[:40] + ['a', 'B1', '_x', '1a', 'x', 'Tables', 'status', 'persist_only'] + ['a``b', '``', 'x``']
        for _ in range(400 if quick else 6000):
            segs = []
            for _ in range(rngi.randint(1, 3)):
                w = rngi.choice(pool) if rngi.random() < 0.7 else lexh.random_string(rngi, 1, 3, alphabet=['a', 'B', '1', '_', '.', 'é', ' '])
                segs.append('`%s`' % w if rngi.random() < 0.4 else w)
            raw_paths.append((d, '.'.join(segs)))
    for d, p in raw_paths:
        ask(('ident', d, p), '%s %s %s' % ('ident2' if BQ else 'ident', d, enc(p)))
    # path_str_to_parts alone (Identifier('a.`b.c`') built by user code): model vs the real function
    path_texts = sorted(set(p for _, p in raw_paths)) + ['a.b', '`a.b`.c', 'a..b', '.a', 'a.', '`a``b`.c', '``', '`a', 'a`b.c', '`a`b`', 'x.`y`.`z.w`', '']
    for t in path_texts:
        ask(('path', t), '%s - %s' % ('path2' if BQ else 'path', enc(t)))
    # numbers
    num_texts = ['0', '7', '007', '10', '1.5', '1.50', '00.10', '1.', '12a', '1e5', '1.5e3', '123456789012345678901234567890',
                 '3.14159', '1..2', '1.a'] + [str(rngi.randrange(10 ** rngi.randint(1, 25))) for _ in range(100)] + \
                ['%d.%s' % (rngi.randrange(1000), ''.join(rngi.choice('0123456789') for _ in range(rngi.randint(1, 6)))) for _ in range(100)]
    for t in num_texts:
        for d in DIALECTS:
            ask(('num', d, t), 'num %s %s' % (d, enc(t)))
    # variable names: printer model vs Variable.to_string, print-then-lex model vs parse_sql (mysql, mindsdb)
    VAR_NAMES = ['var1', 'utf8mb4', 'p2', 'q.2', 'a b', 'x1y', 'a1', 'A_1', '1a', 'a`b', 'a"`', 'a\'"`', 'sql_mode', 'session.auto',
                 '$x', '.x', 'a-b', 'a@b', '@a', 'a\nb', 'v9', 'x_1.y2', 'a' * 12 + '7', 'ı1', 'İx', '\u212a9', 'éa', 'aé', 'a ', ' a']
    VAR_NAMES += list(lexh.strings_upto(2 if quick else 3, alphabet=['a', 'B', '1', '_', '.', '$', ' ', '`', '"', "'", 'é', 'ı']))
    VAR_NAMES += ['a' + a + 'x' for a in lexh.CTRL] + ['a' + a + b + 'x' for a in lexh.CTRL for b in lexh.CTRL
                                                        if a == b or a in '\r\n' or b in '\r\n']
    rngv = common.rng_for(chk.seed, 'C04/var')
    VAR_NAMES += [lexh.random_string(rngv, 3, 8, alphabet=['a', 'Z', '0', '9', '_', '.', '$', ' ', '`', '"', "'", 'x']) for _ in range(150 if quick else 4000)]
    for nm in VAR_NAMES:
        for sysv in (False, True):
            ask(('varstr', nm, sysv), 'varstr %s %s' % ('sys' if sysv else '-', enc(nm)))
            ask(('varrt', nm, sysv), 'varrt %s %s' % ('sys' if sysv else '-', enc(nm)))
    # variables
    var_texts = ['@a', '@a.b', "@'a b'", '@`a b`', '@"a"', '@@x', "@@'a'", '@1', "@'1'", '@', "@'a", '@a$', "@'a''", '@ıf']
    for t in var_texts:
        ask(('var', t), 'var - %s' % enc(t))

    outs = None
    try:
        outs = common.lean_run('Lex', lines)
    except Exception as e:
        chk.oblige('corr:driver', 'correspondence', False, 'driver failed: %s' % e)

    # ---------------------------------------------------------------- compare with the real code
    corr = {k: [0, 0, None] for k in ('scan', 'spec', 'decode', 'encode', 'ident-print', 'ident-lex', 'number', 'variable',
                                         'variable-print', 'variable-roundtrip', 'path-parts')}

    def diverge(name, info):
        c = corr[name]
        c[1] += 1
        if c[2] is None:
            c[2] = info

    from mindsdb_sql.parser.ast import Constant, Identifier
    model_enc = {}
    if outs is not None:
        for meta, o in zip(metas, outs):
            kind = meta[0]
            if kind == 'scan':
                _, d, q, text = meta
                corr['scan'][0] += 1
                tok = lexh.first_token(d, text)
                want_type = 'QUOTE_STRING' if q == "'" else 'DQUOTE_STRING'
                if tok is None:
                    impl = 'none'
                elif tok[0] != want_type:
                    impl = 'type ' + tok[0]
                else:
                    impl = 'some %s %s %s' % (enc(text[:tok[2]]), enc(tok[1]), enc(text[tok[2]:]))
                bump('scan/%s/%s/%s' % (d, q, impl.split(' ')[0]))
                if impl != o:
                    diverge('scan', dict(dialect=d, text=text, model=o, impl=impl))
            elif kind == 'spec':
                _, q, text = meta
                corr['spec'][0] += 1
                sp = lexh.spec_scan(text, q, q == "'")
                if sp is None:
                    mine = 'none'
                else:
                    its = sp[0]
                    mine = 'some %s %s %s esc=%s edge=%s run=%s uses=%s' % (
                        lexh.show_items(its), enc(lexh.denote(its, q)), enc(sp[1]),
                        str(lexh.has_esc_backslash(its)).lower(), str(lexh.edge_quote(its, q)).lower(),
                        str(lexh.esc_quote_run(its, q)).lower(), str(lexh.uses_escape(its)).lower())
                if mine != o:
                    diverge('spec', dict(text=text, lean=o, python=mine))
            elif kind == 'read':
                _, d, q, text = meta
                corr['decode'][0] += 1
                chk.count(('read', d, text))
                got = lexh.observe_select(d, text)
                m = o.split(' ')
                tail = dec(m[2]).lstrip(' \t\r\n') if m[0] == 'some' else ''
                if m[0] == 'some' and tail.strip(';') == '':
                    model = ('str', dec(m[1]))
                elif m[0] == 'some' and (tail.startswith('--') or tail.startswith('/*')):
                    model = 'skip'      # a comment follows the literal: comments are not modelled here
                else:
                    model = None
                bump('decode/%s/%s/%s' % (d, q, got[0] if model is None else ('skip' if model == 'skip' else 'str')))
                if model == 'skip':
                    pass
                elif model is not None and got != model:
                    # in the MindsDB grammar a lone double-quoted string may also be reduced to an identifier
                    diverge('decode', dict(dialect=d, text=text, model=o, impl=list(got)))
                elif model is None and got[0] == 'str':
                    diverge('decode', dict(dialect=d, text=text, model=o, impl=list(got)))
                # impl-level probe P1 on the same input
                ok, f = probe_literal(d, q, text[1:-1], got=got)
                if ok is not None:
                    bump('P1/%s/%s' % (d, 'ok' if ok else 'fail'))
                if f:
                    record(f)
            elif kind == 'enc':
                v = meta[1]
                corr['encode'][0] += 1
                model_enc[v] = dec(o)
                real = Constant(v).to_string()
                if enc(real) != o:
                    diverge('encode', dict(value=v, model=dec(o), impl=real))
                for d in DIALECTS:
                    chk.count(('print', d, v))
                    for f in probe_print_value(d, v):
                        if f['kind'] == 'encode' and d != DIALECTS[0]:
                            continue
                        record(f)
            elif kind == 'parts':
                _, d, parts = meta
                corr['ident-print'][0] += 1
                real = Identifier(parts=list(parts)).to_string()
                m = o.split(' ')
                if enc(real) != m[0]:
                    diverge('ident-print', dict(dialect=d, parts=parts, model=dec(m[0]), impl=real))
                got = lexh.observe_select(d, real)
                if m[1] == 'some':
                    if got != ('ident', dec_list(m[2])):
                        diverge('ident-lex', dict(dialect=d, text=real, model=o, impl=list(got)))
                elif got[0] == 'ident' and got[1] == list(parts):
                    # the model rejects a path that the real code reads back: tolerated only outside the theorem's range
                    bump('ident-lex/model-none-impl-ident')
            elif kind == 'ident':
                _, d, text = meta
                corr['ident-lex'][0] += 1
                chk.count(('ident', d, text))
                got = lexh.observe_select(d, text)
                m = o.split(' ')
                bump('ident/%s/%s' % (d, 'model-some' if m[0] == 'some' else 'model-none:' + got[0]))
                if m[0] == 'some' and got != ('ident', dec_list(m[1])):
                    diverge('ident-lex', dict(dialect=d, text=text, model=o, impl=list(got)))
            elif kind == 'num':
                _, d, text = meta
                corr['number'][0] += 1
                tok = lexh.first_token(d, text)
                m = o.split(' ')
                if m[0] == 'none':
                    model = None
                elif m[0] == 'int':
                    model = ('INTEGER', int(m[1]), dec(m[2]))
                else:
                    model = ('FLOAT', dec(m[1]) + '.' + dec(m[2]), dec(m[3]))
                if tok is None or tok[0] not in ('INTEGER', 'FLOAT'):
                    impl = None
                elif tok[0] == 'INTEGER':
                    impl = ('INTEGER', int(tok[1]), text[tok[2]:])
                else:
                    impl = ('FLOAT', tok[1], text[tok[2]:])
                if model != impl:
                    diverge('number', dict(dialect=d, text=text, model=o, impl=impl))
            elif kind == 'path':
                from mindsdb_sql.parser.ast.select.identifier import path_str_to_parts
                corr['path-parts'][0] += 1
                real = path_str_to_parts(meta[1])
                if dec_list(o) != real:
                    diverge('path-parts', dict(text=meta[1], model=o, impl=real))
            elif kind == 'varstr':
                from mindsdb_sql.parser.ast import Variable
                _, nm, sysv = meta
                corr['variable-print'][0] += 1
                real = Variable(nm, is_system_var=sysv).to_string()
                if enc(real) != o:
                    diverge('variable-print', dict(name=nm, system=sysv, model=dec(o), impl=real))
            elif kind == 'varrt':
                from mindsdb_sql.parser.ast import Variable
                _, nm, sysv = meta
                real = Variable(nm, is_system_var=sysv).to_string()
                m = o.split(' ')
                model = ('var', m[1] == 'true', dec(m[2])) if m[0] == 'some' and dec(m[3]) == '' else None
                for vd in ('mysql', 'mindsdb'):
                    corr['variable-roundtrip'][0] += 1
                    chk.count(('varrt', vd, nm, sysv))
                    got = lexh.observe_variable(vd, real)
                    if model is not None and got != model:
                        diverge('variable-roundtrip', dict(dialect=vd, name=nm, system=sysv, text=real, model=o, impl=list(got)))
                    elif model is None and got[0] == 'var' and got[2] == nm:
                        diverge('variable-roundtrip', dict(dialect=vd, name=nm, system=sysv, text=real, model=o, impl=list(got)))
                    if lexh.var_ok(nm):
                        f = probe_variable(vd, nm, sysv)
                        bump('P6/%s/%s' % (vd, 'fail' if f else 'ok'))
                        if f:
                            record(f)
                        if len(nm) <= 4 or not quick:
                            for style in ('', "'", '`', '"'):
                                if (style == '' and re.fullmatch(r'[a-zA-Z_.$]+', nm)) or (style and style not in nm):
                                    f = probe_variable_source(vd, nm, sysv, style)
                                    if f:
                                        record(f)
            elif kind == 'var':
                text = meta[1]
                corr['variable'][0] += 1
                for vd in ('mysql', 'mindsdb'):
                    tok = lexh.first_token(vd, text)
                    if tok is None or tok[0] not in ('VARIABLE', 'SYSTEM_VARIABLE'):
                        impl = 'none'
                    else:
                        val = tok[1]
                        if vd == 'mindsdb':
                            # since /repo 5f4cdd1 the MindsDB lexer keeps the source text and the parser decodes it
                            from mindsdb_sql.parser.dialects.mindsdb.parser import MindsDBParser
                            if hasattr(MindsDBParser, 'variable_name'):
                                val = MindsDBParser.variable_name(val)
                        impl = 'some %s %s %s' % ('true' if tok[0] == 'SYSTEM_VARIABLE' else 'false', enc(val), enc(text[tok[2]:]))
                    if impl != o:
                        diverge('variable', dict(dialect=vd, text=text, model=o, impl=impl))
        for name, (cases, div, first) in corr.items():
            chk.corr_result(name, cases, div, first, dist if name == 'decode' else None)

    # ---------------------------------------------------------------- round 5: second driver (pre-lexing step, histories)
    TRAILS = ['', ';', ' ;\r\n', '\r\n', '\u2028;\x1f', '\n', '\t; ;\x0b\x0c', '\x85\xa0', '\u3000;\u2029', ';;\r']
    FRONTS = ['select ', 'select\r\n', 'SELECT 1,\r\n\t', 'select\u2028']
    lines2, metas2 = ['pyspace - 200000'], [('pyspace',)]
    for i, b in enumerate(ctrl_bodies):
        q = ("'", '"', '`')[i % 3]
        d = DIALECTS[(i // 3) % 3]
        lit = q + (b.replace('`', '') if q == '`' else b) + q
        for trail in (TRAILS[i % len(TRAILS)], TRAILS[(i // 3) % len(TRAILS)]):
            text = FRONTS[(i // 9) % len(FRONTS)] + lit + trail
            lines2.append('prelex - ' + enc(text)); metas2.append(('prelex', d, text, q, lit, trail))
    ws_pts = lexh.py_space_points()
    for t in ['', ';', ' ', '\r\n', ';\r\n;', "select 'a',\r\n  b\r\nfrom t\r\nwhere c = 'd'\r\n;\r\n", 'select 1 -- c\r\n', 'select 1 /* c */ ;',
              "select 'a;\r\n' ; ", 'select `a;` ;\n', "select 'x'\r", "select 'x'\n\r"] + \
             ["select 'v'" + chr(c) for c in ws_pts + [0x1b, 0x84, 0x86, 0x180e, 0x200b, 0x2060, 0xfeff, 0x3b, 0x37e, 0xff1b, 0]]:
        lines2.append('prelex - ' + enc(t)); metas2.append(('prelex', DIALECTS[len(lines2) % 3], t, None, None, None))
    rngh = common.rng_for(chk.seed, 'C04/history')
    for i in range(250 if quick else 5000):
        evs = gen_ident_history(rngh)
        d = DIALECTS[i % 3]
        lines2.append(ident_history_line(d, evs)); metas2.append(('hist', d, evs))
    # round 6: constant slots; contents for the slots printed by json_to_sql need the second model printer
    import time as _time
    _t0 = _time.time()
    slot_list, slot_stats = slotsh.discover()
    dist['time/slot-discovery'] = round(_time.time() - _t0, 1)
    rngs = common.rng_for(chk.seed, 'C04/slots')
    slot_extra = ctrl_bodies + rngs.sample(rand_bodies, min(len(rand_bodies), 150 if quick else 3000))
    for v in dict.fromkeys(SLOT_CORE + slot_extra):
        lines2.append('encdq - ' + enc(v)); metas2.append(('encdq', v))
    outs2 = None
    try:
        outs2 = common.lean_run('LexHist', lines2)
    except Exception as e:
        chk.oblige('corr:driver2', 'correspondence', False, 'driver failed: %s' % e)
    corr2 = {k: [0, 0, None] for k in ('pyspace', 'prelex', 'ident-history', 'slot-print')}
    model_dq = {}

    def diverge2(name, info):
        c = corr2[name]
        c[1] += 1
        if c[2] is None:
            c[2] = info
    for meta, o in zip(metas2, outs2 or [None] * len(metas2)):
        if meta[0] == 'pyspace':
            if o is not None:
                corr2['pyspace'][0] += 1
                if o != ','.join(str(c) for c in ws_pts) or any(c >= 200000 for c in ws_pts):
                    diverge2('pyspace', dict(model=o, python=ws_pts))
        elif meta[0] == 'prelex':
            _, d, text, q, lit, trail = meta
            chk.count(('prelex', d, text))
            real = lexh.lexer_input(d, text)
            if o is not None:
                corr2['prelex'][0] += 1
                if real is None or enc(real) != o:
                    diverge2('prelex', dict(dialect=d, text=text, model=dec(o), impl=real))
            if q in ("'", '"'):
                ok, f = probe_literal(d, q, lit[1:-1], trail=trail)
                if ok is not None:
                    bump('P1t/%s/%s' % (d, 'ok' if ok else 'fail'))
                if f:
                    record(f)
        elif meta[0] == 'encdq':
            if o is not None:
                model_dq[meta[1]] = dec(o)
        elif meta[0] == 'hist':
            _, d, evs = meta
            chk.count(('hist', d, repr(evs)))
            real = run_ident_history(evs)
            if o is not None:
                corr2['ident-history'][0] += 1
                model = [] if o == '-' else [x.split('>') for x in o.split(' ')]
                if [enc(t) for _, t in real] != [m[0] for m in model]:
                    diverge2('ident-history', dict(dialect=d, events=evs, model=[dec(m[0]) for m in model], impl=[t for _, t in real]))
                else:
                    for (held, txt), m in zip(real, model):
                        got = lexh.observe_select(d, txt)
                        if m[1].startswith('some') and got != ('ident', dec_list(m[1][4:])):
                            diverge2('ident-history', dict(dialect=d, events=evs, text=txt, model=m[1], impl=list(got)))
            f = probe_ident_history(d, evs, kfwords)
            bump('P7i/%s/%s' % (d, 'fail' if f else 'ok'))
            if f:
                record(f)
    # P8 / slot-print: every core content in EVERY slot, the rest of the content stream spread over the slots
    str_slots = [sl for sl in slot_list if sl['type'] == 'str']
    dist['slots/found'] = len(slot_list)
    dist['slots/string'] = len(str_slots)
    for k2, v2 in slot_stats.items():
        dist['slots/' + k2] = v2
    jobs = []
    for si, sl in enumerate(slot_list):
        if sl['type'] == 'str':
            jobs += [(sl, v) for v in SLOT_CORE]
        else:
            jobs += [(sl, v) for v in SLOT_NUMS[sl['type']]]
    for i, v in enumerate(slot_extra):
        for j in ({(i + chk.seed) % len(str_slots), (7 * i + 3 + chk.seed) % len(str_slots)} if quick else range(0, len(str_slots), 1 + i % 4)):
            jobs.append((str_slots[j], v))
    trees = {}
    _t0 = _time.time()
    for sl, v in jobs:
        if not slot_applies(sl, v):
            continue
        chk.count(('slot', sl['sig'], repr(v)))
        if sl['sig'] not in trees:
            trees[sl['sig']] = slotsh.fill(sl, slotsh.SENT if sl['type'] == 'str' else 1)[0]
        f, txt = probe_slot(sl, v, trees[sl['sig']])
        bump('P8/%s' % ('fail' if f else 'ok'))
        if f:
            chk.classify(f, kf_match)
            chk.fail(f)
            trees.pop(sl['sig'], None)
        if txt is not None and sl['type'] == 'str':
            model = (model_enc if sl['quote'] == "'" else model_dq).get(v)
            if model is not None:
                corr2['slot-print'][0] += 1
                if txt != sl['pre'] + model + sl['post']:
                    diverge2('slot-print', dict(slot=sl['sig'], sql=sl['sql'][:200], value=v[:100], model=(sl['pre'] + model + sl['post'])[-200:], impl=txt[-200:]))
    dist['time/slot-stream'] = round(_time.time() - _t0, 1)
    if outs2 is not None:
        for name, (cases, div, first) in corr2.items():
            chk.corr_result(name, cases, div, first)
    # P7: statement trees observed between in-place edits (every node class the templates reach)
    for ti in range(len(hist.TEMPLATES)):
        for _ in range(12 if quick and not broken else 60):
            edits = hist.gen_history(ti, rngh)
            chk.count(('history', ti, json.dumps(edits, sort_keys=True, default=str)))
            f = probe_history(ti, edits)
            bump('P7/%s' % ('fail' if f else 'ok'))
            if f:
                record(f)

    # ---------------------------------------------------------------- probes that need no model line
    for d, parts in ident_cases:
        chk.count(('identp', d, tuple(parts)))
        f = probe_ident(d, parts, kfwords)
        bump('P3/%s/%s' % (d, 'fail' if f else 'ok'))
        if f:
            record(f)
        if all(p != '' and '`' not in p for p in parts):
            f = probe_ident_source(d, parts)
            if f:
                record(f)
    # unquoted source paths with `$`, digits-first, `$` after a digit (all three dialects)
    rngp = common.rng_for(chk.seed, 'C04/plain')
    for d in DIALECTS:
        kwset = set(w.upper() for w in keyword_words(S, d))
        pool = [w for w in PLAIN_WORDS if plain_source_ok(w, kwset)]
        pool += [w for w in (lexh.random_string(rngp, 1, 6, alphabet=['a', 'B', '1', '7', '_', '$', 'x', 'd'])
                             for _ in range(150 if quick else 3000)) if plain_source_ok(w, kwset)]
        cases = [[w] for w in pool] + [['t', w] for w in pool] + [[w, 'c'] for w in pool] + \
                [[rngp.choice(pool) for _ in range(rngp.randint(2, 3))] for _ in range(100 if quick else 2000)]
        for parts in cases:
            chk.count(('plain', d, tuple(parts)))
            f = probe_ident_plain(d, parts)
            bump('P4b/%s/%s' % (d, 'fail' if f else 'ok'))
            if f:
                record(f)
    rngn = common.rng_for(chk.seed, 'C04/numbers')
    import math
    nums = [0, 1, 7, 10, 2 ** 31, 2 ** 63, 10 ** 30, -1, -5, -(10 ** 20), 1.5, 0.1, 0.5, 123456789.123, 0.00001, 1e22, 1e16, 2.5e-7, 1e15, 0.0001]
    # floats with 16-17 significant digits, values next to 1, tiny / huge, negative
    nums += [0.30000000000000004, 0.7853981633974483, 0.9999999999999999, 1.0000000000000002, 0.1 + 0.7, 1 / 3, 2 / 3,
             math.pi, math.e, math.sqrt(2), 123456.78901234567, 1234567890123456.0, 999999999999999.9, 0.001, 0.00011,
             0.0001234567890123456, 5e-324, 1.7976931348623157e308, 1e-7, 123456789012345680.0, 4503599627370497.5,
             -0.5, -1.5, -0.30000000000000004, -123.456, -1e-9, 100.0, 1.0, 0.0, 2.0 ** 52 + 0.5]
    nums += [rngn.randrange(10 ** rngn.randint(1, 30)) for _ in range(100 if quick else 3000)]
    nums += [round(rngn.uniform(0, 10 ** rngn.randint(0, 6)), rngn.randint(1, 6)) for _ in range(100 if quick else 3000)]
    for _ in range(300 if quick else 10000):
        r = rngn.random()
        nums.append(rngn.choice([r, 1 - r / 1e6, r * 10 ** rngn.randint(-4, 15), -r, -r * 1000, math.ldexp(r, rngn.randint(-12, 50)),
                                 float('%d.%s' % (rngn.randrange(1000), ''.join(rngn.choice('0123456789') for _ in range(rngn.randint(12, 17)))))]))
    for v in nums:
        for d in DIALECTS:
            chk.count(('num', d, v))
            f = probe_number(d, v)
            if f:
                record(f)
    for t in num_texts:
        if re.fullmatch(r'[0-9]+(\.[0-9]+)?', t):
            for d in DIALECTS:
                f = probe_number_source(d, t)
                if f:
                    record(f)

    # ---------------------------------------------------------------- known findings still reproduce?
    for k in chk.kf:
        if k.get('status') != 'open':
            continue
        w = k['witness']
        f = replay_witness(w, kfwords)
        if f and kf_match(k, f):
            k['_reproduced'] = True

    chk.samples.append(dict(theorem='C04_codec_roundtrip: ∀ v rest, rest.head? ≠ some \'\\\'\' → '
                                    'Codec.readString (Codec.constantToString v ++ rest) = some (v, rest)'))
    chk.samples.append(dict(theorem='C04_identifier_bq_mindsdb: ∀ parts ≠ [], (∀ p ∈ parts, p ≠ []) → '
                                    'LexBq.lexIdentPath K_mindsdb (LexBq.partsToStr reservedL parts) = some parts'))
    for meta, o in list(zip(metas, outs or []))[:2]:
        chk.samples.append(dict(case=str(meta)[:200], model=o[:200]))
    chk.samples.append(dict(codec_model='Model/Codec.lean' if FIXED else 'Model/Lex.lean (old codec)', ident_model='Model/LexBq.lean' if BQ else 'Model/Lex.lean (old identifier codec)'))
    return chk.finish(assumptions=ASSUME, extra=dict(impl_probe=dict((k, v) for k, v in dist.items() if k.startswith(('P', 'slots/', 'time/')))))


def replay_witness(w, kfwords=None):
    kind = w['kind']
    if kind == 'decode':
        ok, f = probe_literal(w['dialect'], w['quote'], w['text'][1:-1], trail=w.get('trail', ''))
        return f
    if kind == 'history':
        return probe_history(w['template'], w['edits'])
    if kind == 'slot':
        v = w['value'] if w.get('value') is not None else eval(w['number'], {})
        found = [sl for sl in slotsh.discover()[0] if sl['sig'] == w['sig']]
        sl = found[0] if found else dict(sig=w['sig'], dialect=w['dialect'], sql=w['sql'], path=w['path'], kind=w['slotkind'],
                                         type=type(v).__name__, quote="'", pre='', post='')
        return probe_slot(sl, v)[0]
    if kind == 'ident-history':
        return probe_ident_history(w['dialect'], w['events'], kfwords or {})
    if kind == 'encode':
        fs = probe_print_value('mindsdb', w['value'])
        return fs[0] if fs else None
    if kind == 'roundtrip':
        fs = probe_print_value(w['dialect'], w['value'])
        return fs[0] if fs else None
    if kind == 'ident':
        if kfwords is None:
            kfwords = {}
            for k in json.load(open('%s/kf_proposed_C04.json' % common.ROOT)):
                if k.get('status') == 'open' and k.get('signature', {}).get('class') == 'unreserved-keyword':
                    kfwords = k['signature']['words']
        return probe_ident(w['dialect'], w['parts'], kfwords)
    if kind == 'ident-source':
        return probe_ident_source(w['dialect'], w['parts'])
    if kind == 'number':
        return probe_number(w['dialect'], w['value'])
    if kind == 'variable':
        return probe_variable(w['dialect'], w['name'], w['system'])
    if kind == 'variable-source':
        return probe_variable_source(w['dialect'], w['name'], w['system'], w['style'])
    if kind == 'ident-plain':
        return probe_ident_plain(w['dialect'], w['parts'])
    if kind == 'number-source':
        return probe_number_source(w['dialect'], w['text'])
    return None


def replay(path):
    data = json.load(open(path))
    f = data.get('failure')
    if not f:
        print(json.dumps(data, indent=1)[:3000])
        return 1
    w = dict(f)
    if f['kind'] == 'decode' and 'value' in f:
        w['kind'] = 'roundtrip'
    r = replay_witness(w)
    print('REPRODUCED' if r else 'not reproduced', json.dumps(f, ensure_ascii=False)[:600])
    return 1 if r else 0
