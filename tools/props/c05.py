"""C05 — accepted => the whole token stream is one grammar sentence."""
import json, re, sys
from tools.harness import common, lr, gen, streams, extra, slylex
import itertools
from tools.harness.common import DIALECTS

ID = 'C05'
TARGETS = ['MindsVerif.Props.C05', 'MindsVerif.Props.C05Text']
THEOREMS = ['MindsVerif.Props.C05.C05_sqlite', 'MindsVerif.Props.C05.C05_mysql',
            'MindsVerif.Props.C05.C05_mindsdb', 'MindsVerif.Props.C05.C05_sentence',
            'MindsVerif.Props.C05.C05_no_accept_after_error', 'MindsVerif.Props.C05.C05_generic',
            'MindsVerif.Props.C05.C05_review_reject_nonsentence',
            # from the text down: strip + regex-level lexer model + table-driven parser (Props/C05Text.lean)
            'MindsVerif.Props.C05Text.C05_text_generic', 'MindsVerif.Props.C05Text.C05_text_sqlite',
            'MindsVerif.Props.C05Text.C05_text_mysql', 'MindsVerif.Props.C05Text.C05_text_mindsdb',
            'MindsVerif.Props.C05Text.namesOK_sqlite', 'MindsVerif.Props.C05Text.namesOK_mysql',
            'MindsVerif.Props.C05Text.namesOK_mindsdb', 'MindsVerif.Props.C05Text.names_match_tables',
            'MindsVerif.Props.C05Text.strip_pin', 'MindsVerif.Props.C05Text.rstrip_spec',
            'MindsVerif.Props.C05Text.C05_text_example']
ASSUME = [
    'Parser.parse / the two error() callbacks are hand-modelled (MindsVerif.LR.parse); tie = LR correspondence stream',
    'the grammar of the theorem is the production list exported with the tables',
    'Earley recogniser (Python) is a search oracle only',
    'text level (C05_text_<dialect>): parse_sql = strip the trailing [\\s;] run, Lexer.tokenize, Parser.parse is composed from the hand models '
    'Model/TextParse.lean, Model/SlyLex.lean (+ Model/Re.lean), Model/LR.lean over regenerated data (master regex parse tree, strip class, '
    'terminal names, LR tables); tie = streams slylex (C02), lr and text (accept / ParsingException / LexError index of the real parse_sql; '
    'the semantic actions are not modelled: an action may reject a grammatical sentence, never the converse)',
]


def probe_case(dialect, text, earley):
    """impl-level oracle: parse_sql accepts => Earley accepts the token types of the stripped text.
    returns failure dict or None"""
    from mindsdb_sql import parse_sql
    try:
        ast = parse_sql(text, dialect)
    except Exception:
        return None
    R = lr.real(dialect)
    s2 = re.sub(r'[\s;]+$', '', text)
    toks, bad = R.tokenize(s2)
    types = [t.type for t in toks]
    if bad or not earley.accepts(types):
        return dict(desc='parse_sql accepted a text whose token sequence is not a sentence of the grammar',
                    dialect=dialect, text=text, types=types, lexer_error=bad, **{'class': 'accept-non-sentence'})
    return None


def run(chk):
    quick = chk.tier == 'quick'
    common.install_lexer_guard()   # a lexer that stops advancing is reported as a hang, it cannot stall the check
    broken = bool(chk.broken())
    deep = (not quick) or broken
    n_mut, n_sent = (500, 300) if not deep else (15000, 8000)
    lines, metas = [], []
    dist = {}
    for d in DIALECTS:
        rng = common.rng_for(chk.seed, 'C05/' + d)
        R = lr.real(d)
        E = gen.Earley(d)
        G = gen.Grammar(d)
        fam = [c for f in extra.layout_variant_stream(d, rng, 25 if not deep else 400) for c in f]
        more = itertools.chain(extra.append_terminal_stream(d, rng, 6 if not deep else 120), fam,
                               extra.recase_stream(d, rng, 40 if not deep else 600), extra.numeric_position_stream(d, rng))
        for case in itertools.chain(streams.statement_stream(d, rng, n_mut, n_sent, grammar=G), more):
            text = case['text']
            s2 = re.sub(r'[\s;]+$', '', text)
            toks, bad = R.tokenize(s2)
            py = R.run(toks, bool(bad))
            py.pop('parser', None); py.pop('result', None)
            ids = [R.tid[t.type] for t in toks]
            lines.append(lr.model_line(d, ids, bool(bad)))
            metas.append((d, case, py))
            chk.count((d, tuple(ids), bool(bad)))
            key = '%s/%s/%s' % (d, case['src'].split(':')[0].split('+')[0], py['kind'].split(':')[0])
            dist[key] = dist.get(key, 0) + 1
            f = probe_case(d, text, E)
            if f:
                chk.classify(f, lambda k, f: False)
                chk.fail(f)
        cov = G.coverage()
        dist['%s/productions_derived' % d] = '%d/%d' % cov
    # correspondence
    try:
        outs = common.lean_run('LR', lines)
        diverged, first = 0, None
        for (d, case, py), o in zip(metas, outs):
            m = lr.parse_model(o)
            r = lr.compare(d, py, m)
            if r:
                diverged += 1
                if first is None:
                    first = dict(dialect=d, text=case['text'], src=case['src'], why=r, model=o[:300],
                                 impl=dict(kind=py['kind'], err=py.get('err')))
        chk.corr_result('lr', len(lines), diverged, first, dist)
    except Exception as e:
        chk.oblige('corr:lr', 'correspondence', False, 'driver failed: %s' % e)
    # from the text down: composed model of parse_sql against the real one
    slylex.text_stream(chk, 300 if not deep else 5000)
    for (d, case, py) in metas[:3] + metas[-3:]:
        chk.samples.append(dict(dialect=d, src=case['src'], text=case['text'][:200], impl=py['kind']))
    chk.samples.append(dict(theorem='C05_full T := ∀ mode bad toks fuel t log, (∀ x ∈ toks, x ≠ 0) → parse T mode bad toks fuel = .accept t log → bad = false ∧ t.WF T ∧ t.root = 2*T.start+1 ∧ t.yield = toks ∧ t.postorder = log.reverse'))
    chk.samples.append(dict(theorem='C05_text_full L := ∀ s fuel o t log, parseSql L s fuel = (o, some (.accept t log)) → ∃ segs, o = .ok segs ∧ flat segs = rstrip L.strip s ∧ AllOK L.cfg segs ∧ Chain … (tokensFrom 0 segs) ∧ t.WF L.tables ∧ t.root = start ∧ t.yield = ids L.names segs ∧ (s = rstrip L.strip s ++ tail, tail ⊆ strip class) ∧ (stripped text does not end in a strip character)'))
    return chk.finish(assumptions=ASSUME)


def replay(path):
    data = json.load(open(path))
    f = data.get('failure')
    if not f:
        print(json.dumps(data, indent=1)[:3000])
        return 1
    E = gen.Earley(f['dialect'])
    r = probe_case(f['dialect'], f['text'], E)
    print('REPRODUCED' if r else 'not reproduced', json.dumps(f)[:500])
    return 1 if r else 0
